"""C17 — stored measurement data reads back equal and is never silently overwritten.

Models: lean/QmiModel/Model/{TextAttr,TextLayout,Hdf5Map,Store,Recorder}.lean; theorems: Props/C17.lean.
Tie: differential runs of the real qmi.data code (dataset.py, datastore.py, hdf5recorder.py) against the
model driver `drv_c17`, plus the property oracle evaluated directly on what the real code did:

  A  repr() / _parse_attribute_value            vs  pyRepr / parseAttr
  B  datasets through DataFolder write->read, both formats and conversion chains (oracle: equality of
     everything the property lists); text matrix layout and HDF5 attribute mapping vs the models
  C  DataFolder write histories (overwrite) and DataStore folder histories on a real temp dir vs Store model
  D  HDF5Recorder with real h5py; the writer thread is line-stepped (sys.settrace on its run() frame), so the
     harness decides where record()/set_attribute()/close() fall relative to the writer's critical section
     and flush; trace refinement against the Recorder model + "every block once, in order" read from the file
"""
from __future__ import annotations

import ast
import json
import os
import re
import sys
import tempfile
import threading
import time as _time

from harness import core
from harness.core import Broken, Ctx, Failure, LeanDriver, Prop, Result, diff_streams

# ---------------------------------------------------------------------------
# small helpers
# ---------------------------------------------------------------------------


def _cps(s: str) -> str:
    return ",".join(str(ord(c)) for c in s) if s else "-"


def _uncps(t: str) -> str:
    return "" if t == "-" else "".join(chr(int(x)) for x in t.split(","))


def _opt(s):
    return "~" if s is None else _cps(s)


ASTRAL_NONPRINT = ["\U000e0001", "\U0010ffff", "\U000f0000", "\U000e0020"]
ALPHABET = (
    [chr(c) for c in range(0x20, 0x7f)] * 2
    + ["'", '"', "\\", "'", '"', "\\"] * 6
    + ["\n", "\r", "\t", "\x00", "\x01", "\x07", "\x0b", "\x0c", "\x1b", "\x1f", "\x7f"] * 2
    + ["\x80", "\x85", "\x9f", "\xa0", "\xad", "\xe9", "\xff"] * 2
    + ["Ā", "Ω", "中", " ", " ", "​", "﻿", "￿", "", "͸"] * 2
    + ["\U0001f600", "\U0001d4b3", "\U00020000"] * 2
    + ASTRAL_NONPRINT
    + ["n", "x", "u", "U", "0", "1", "7", "a", "f"] * 2
)
LITERAL_ESCAPES = ["\\n", "\\x41", "\\u0041", "\\U0001F600", "\\'", '\\"', "\\\\", "\\101", "\\x4", "\\u12", "\\0"]


def _gen_str(rng, maxlen=8, nul=True) -> str:
    r = rng.random()
    if r < 0.08:
        return ""
    if r < 0.2:
        s = rng.choice(LITERAL_ESCAPES) + "".join(rng.choice(ALPHABET) for _ in range(rng.randint(0, 3)))
    elif r < 0.45:
        s = "".join(rng.choice("abcXYZ019 _-/%.µ") for _ in range(rng.randint(1, maxlen)))
    else:
        s = "".join(rng.choice(ALPHABET) for _ in range(rng.randint(1, maxlen)))
    if not nul:
        s = s.replace("\x00", "")
    return s


def _str_cause(s: str):
    """root-cause class of a str that the text format cannot carry (None if it can)"""
    if any(ord(c) >= 0x10000 and not c.isprintable() for c in s):
        return "str-nonprintable-astral"
    return None


# ---------------------------------------------------------------------------
# A. attribute values: repr / _parse_attribute_value  vs  pyRepr / parseAttr
# ---------------------------------------------------------------------------

_MALFORMED_ALPHA = list("0123456789") * 3 + list("+-+-..eE__") * 2 + list("infatyINFTruealsx uU\\'\"\"' \t\n") + ["\\"] * 3


def _canon_value(v) -> str:
    import numpy as np
    if isinstance(v, bool):
        return "bool:1" if v else "bool:0"
    if isinstance(v, str):
        return "str:" + _cps(v)
    if isinstance(v, int):
        return "int:" + str(v)
    if isinstance(v, float):
        return "float:" + repr(v)
    if isinstance(v, np.generic):
        return "np:" + repr(v)
    return "other:" + repr(v)


def _canon_model_value(line: str) -> str:
    if line.startswith("float:"):
        try:
            return "float:" + repr(float(_uncps(line[6:])))
        except Exception:
            return line
    return line


def _impl_parse(s: str) -> str:
    from qmi.data.dataset import _parse_attribute_value
    try:
        return _canon_value(_parse_attribute_value(s))
    except Exception as e:  # noqa
        return "exc:" + type(e).__name__


def _repr_line(v):
    """(model op line, expected repr text) for a value the writer may see"""
    import numpy as np
    if isinstance(v, str):
        flags = "".join("1" if c.isprintable() else "0" for c in v) or "-"
        return f"a repr s {_cps(v)} {flags}"
    if isinstance(v, bool):
        return f"a repr b {1 if v else 0}"
    if isinstance(v, np.generic):
        return None     # numpy scalars no longer reach the text writer (read_dataset_from_hdf5 converts them)
    if isinstance(v, int):
        return f"a repr i {v}"
    if isinstance(v, float):
        return f"a repr f {_cps(repr(v))}"
    return None


def _gen_float(rng) -> float:
    r = rng.random()
    if r < 0.25:
        return rng.choice([0.0, -0.0, 1.5, -2.25, 1e16, 1e-7, 1e308, 5e-324, 1.7976931348623157e308, 123456789.125,
                           1e22, 1e-5, 0.1, float("inf"), float("-inf")])
    if r < 0.5:
        return rng.uniform(-1e3, 1e3)
    if r < 0.75:
        return float(rng.randint(-10**6, 10**6))
    return rng.uniform(-1, 1) * 10.0 ** rng.randint(-300, 300)


def _gen_int(rng) -> int:
    r = rng.random()
    if r < 0.5:
        return rng.randint(-1000, 1000)
    if r < 0.8:
        return rng.choice([0, -1, 2**31, -2**31, 2**53 + 1, 2**63 - 1, -2**63, 10**18])
    return rng.randint(-2**62, 2**62)


def _section_attr(ctx: Ctx, res: Result, n_str: int, n_mal: int, use_model=True):
    import numpy as np
    rng = ctx.rng
    lines, impl, cases = [], [], []
    vals = []
    for _ in range(n_str):
        vals.append(_gen_str(rng, 10))
    for _ in range(n_str // 4):
        vals.append(_gen_int(rng))
        vals.append(_gen_float(rng))
    vals += [True, False, "", "'", '"', "'\"", "\\", "\\'", "\U000e0001", "a\U0010ffff", "\ud800", "\x00"]
    for v in vals:
        ln = _repr_line(v)
        if ln is None:
            continue
        text = repr(v)
        lines.append(ln)
        impl.append(_cps(text))
        cases.append(("repr", text))
        lines.append("a parse " + _cps(text))
        impl.append(_impl_parse(text))
        cases.append(("parse", text))
        res.count("attr_repr_" + type(v).__name__)
        res.note_case(("attr", text), nontrivial=not isinstance(v, bool))
    for _ in range(n_mal):
        k = rng.random()
        if k < 0.5:
            s = "".join(rng.choice(_MALFORMED_ALPHA) for _ in range(rng.randint(0, 7)))
        elif k < 0.8:   # near-miss quoted strings
            q = rng.choice("'\"")
            body = "".join(rng.choice(ALPHABET + ["\\"] * 10 + [q] * 4) for _ in range(rng.randint(0, 6)))
            s = rng.choice([q, q, "", "x"]) + body + rng.choice([q, q, "", "\\" + q, "\\"])
        else:           # near-miss numbers
            s = rng.choice(["1.5", "-12", "1e5", "inf", "nan", "True", "False", "1_000", "0x10", ".5", "5.", "1e+05", "+3"])
            if rng.random() < 0.6 and s:
                i = rng.randrange(len(s) + 1)
                s = s[:i] + rng.choice(_MALFORMED_ALPHA) + s[i + rng.randint(0, 1):]
        if not ("'" in s or '"' in s) and any(ord(c) > 127 for c in s):
            continue   # float()/int() on non-ASCII digits and spaces is outside the model (see modelled_not_verified)
        lines.append("a parse " + _cps(s))
        impl.append(_impl_parse(s))
        cases.append(("parse", s))
        res.count("attr_parse_malformed")
        res.count("attr_parse_outcome_" + impl[-1].split(":")[0])
        res.note_case(("parse", s), nontrivial=len(s) > 1)
    if use_model:
        model = [_canon_model_value(m) for m in LeanDriver("drv_c17").run(lines)]
        res.traces_validated += len(lines)
        k = diff_streams(lines, impl, model)
        if k is not None:
            res.broken.append(Broken("correspondence", "TextAttr pyRepr/parseAttr vs repr()/_parse_attribute_value",
                                     f"op={lines[k]!r} ({cases[k]!r}) impl={impl[k]!r} model={model[k]!r}",
                                     case={"kind": "attr", "text": [ord(c) for c in cases[k][1]]}))


# ---------------------------------------------------------------------------
# B. datasets through DataFolder: write -> read, both formats, conversion chains
# ---------------------------------------------------------------------------

DTYPES = ["float64", "float64", "float32", "int64", "int32", "uint8"]
PATHS = ["hdf5", "text", "hdf5>text", "hdf5>norm>text", "text>hdf5", "hdf5>norm>text>hdf5", "text>hdf5>text"]


_LIVE_TOKENS = {}


def _live_tokens():
    """reserved prefixes and special markers the code knows, read from the CURRENT source of dataset.py on every run:
    string constants used in startswith()/endswith() tests and in ==, !=, in comparisons, and module-level str / tuple
    constants (resolved when a test refers to them by name).  Returns (all tokens, tokens used as prefixes)."""
    path = core.REPO / "qmi/data/dataset.py"
    key = str(path)
    if key in _LIVE_TOKENS:
        return _LIVE_TOKENS[key]
    tree = ast.parse(path.read_text())
    consts = {}

    def strs(node):
        if isinstance(node, ast.Constant) and isinstance(node.value, str):
            return [node.value]
        if isinstance(node, (ast.Tuple, ast.List, ast.Set)):
            return [x for e in node.elts for x in strs(e)]
        if isinstance(node, ast.Name) and node.id in consts:
            return consts[node.id]
        return []
    for node in tree.body:
        if isinstance(node, ast.Assign) and strs(node.value):
            for t in node.targets:
                if isinstance(t, ast.Name):
                    consts[t.id] = strs(node.value)
    toks, prefixes = set(x for v in consts.values() for x in v), set()
    for node in ast.walk(tree):
        if isinstance(node, ast.Call) and isinstance(node.func, ast.Attribute) and node.func.attr in ("startswith", "endswith"):
            for a in node.args:
                toks.update(strs(a))
                if node.func.attr == "startswith":
                    prefixes.update(strs(a))
        elif isinstance(node, ast.Compare):
            for c in [node.left] + list(node.comparators):
                toks.update(strs(c))
    toks = sorted(t for t in toks if t and "\n" not in t and len(t) <= 24)
    _LIVE_TOKENS[key] = (toks, sorted(p for p in prefixes if len(p) >= 4))
    return _LIVE_TOKENS[key]


def _token_family(t: str) -> list:
    """names equal to, starting with, ending with, containing, and case variants of a token"""
    if len(t) < 2:
        return [t, t + "x", "x" + t]
    fam = [t, t + "x", t + "_a", t + "0_label", "x" + t, "a_" + t + "_b", t.lower(), t.upper(), t.swapcase(), t[:-1], t + t, " " + t, t + " "]
    return list(dict.fromkeys(fam))


def _family_names() -> list:
    toks, _ = _live_tokens()
    return list(dict.fromkeys(n for t in toks for n in _token_family(t)))


def _gen_attr_name(rng) -> str:
    r = rng.random()
    if r < 0.12:
        return rng.choice(_family_names())       # around every reserved prefix / marker of the live module
    if r < 0.6:
        return "".join(rng.choice("abcdefgXYZ_0123") for _ in range(rng.randint(1, 6)))
    if r < 0.8:
        return rng.choice(["a b", " a", "a ", "é", "#", "a/b", "CLASS", "NAME", "Ω µ", "x'y", 'q"', "back\\slash", "a\x0bb", "tab\t"])
    if r < 0.86:
        return rng.choice(["", "a:b", ":", "QMI_DataSet_x", "QMI_DataSet", "DIMENSION_LIST", "DIMENSION_x"])   # rejected by a writer
    if r < 0.89:
        return rng.choice(["a\nb", "a\rb", "x\n"])     # line break in a name
    return _gen_str(rng, 5, nul=False) or "z"


def _gen_spec(rng, serial: int, small=False) -> dict:
    """a JSON-able description of one DataSet"""
    ndim = rng.choice([2, 2, 3, 3, 4])
    shape = [rng.choice([1, 1, 2, 2, 3, 4] if not small else [1, 2, 3]) for _ in range(ndim)]
    dtype = rng.choice(DTYPES)
    n = 1
    for s in shape:
        n *= s
    if dtype.startswith("float"):
        if dtype == "float32":
            data = [rng.choice([0.0, 1.5, -2.25, 1e30, 3.0e-40, 16777217.0, rng.uniform(-100, 100)]) for _ in range(n)]
        else:
            data = [_gen_float(rng) for _ in range(n)]
            data = [x if x == x and abs(x) != float("inf") else 1.0 for x in data]
    elif dtype == "uint8":
        data = [rng.choice([0, 1, 255, rng.randint(0, 255)]) for _ in range(n)]
    elif dtype == "int32":
        data = [rng.choice([0, -1, 2**31 - 1, -2**31, rng.randint(-10**6, 10**6)]) for _ in range(n)]
    else:
        big = rng.random() < 0.12
        data = [rng.choice([0, -1, 2**53, -2**53, rng.randint(-10**9, 10**9)]) for _ in range(n)]
        if big:
            data[rng.randrange(n)] = rng.choice([2**53 + 1, -(2**53) - 1, 2**63 - 1, 10**18 + 1])
    lab = lambda: "" if rng.random() < 0.4 else _gen_str(rng, 6, nul=rng.random() < 0.1)   # noqa
    scales = []
    for ax in range(ndim - 1):
        r = rng.random()
        if r < 0.5:
            scales.append(None)
        elif r < 0.85:
            scales.append({"dtype": "float64", "v": [_gen_float(rng) if rng.random() < 0.5 else float(i) * 0.5 for i in range(shape[ax])]})
            scales[-1]["v"] = [x if abs(x) != float("inf") else 2.0 for x in scales[-1]["v"]]
        else:
            scales.append({"dtype": "int64", "v": [rng.randint(-1000, 1000) for _ in range(shape[ax])]})
    attrs = []
    for _ in range(rng.choice([0, 1, 1, 2, 3, 4])):
        k = rng.random()
        if k < 0.45:
            v = {"t": "s", "v": [ord(c) for c in _gen_str(rng, 8, nul=rng.random() < 0.08)]}
        elif k < 0.75:
            i = _gen_int(rng) if rng.random() < 0.9 else rng.choice([2**63, 2**64, -2**63 - 1, 10**30])
            v = {"t": "i", "v": str(i)}
        else:
            v = {"t": "f", "v": repr(_gen_float(rng))}
        nm = _gen_attr_name(rng)
        if all(a[0] != [ord(c) for c in nm] for a in attrs):
            attrs.append([[ord(c) for c in nm], v])
    ts = rng.choice([rng.uniform(0, 4e9), float(rng.randint(0, 2 * 10**9)), 0.0, 1790779036.4647868])
    return {"name": "ds%d" % serial + rng.choice(["", "_x", "-(1),"]), "shape": shape, "dtype": dtype, "data": data, "ts": repr(ts),
            "axis_label": [[ord(c) for c in lab()] for _ in range(ndim - 1)],
            "axis_unit": [[ord(c) for c in lab()] for _ in range(ndim - 1)],
            "col_label": [[ord(c) for c in lab()] for _ in range(shape[-1])],
            "col_unit": [[ord(c) for c in lab()] for _ in range(shape[-1])],
            "scales": scales, "attrs": attrs}


def _S(cps) -> str:
    return "".join(chr(c) for c in cps)


def _attr_value(v):
    if v["t"] == "s":
        return _S(v["v"])
    if v["t"] == "i":
        return int(v["v"])
    return float(v["v"])


def _build(spec: dict, name=None):
    import numpy as np
    from qmi.data.dataset import DataSet
    arr = np.array(spec["data"], dtype=spec["dtype"]).reshape(spec["shape"])
    ds = DataSet(name or spec["name"], data=arr)
    ds.timestamp = float(spec["ts"])
    for i, l in enumerate(spec["axis_label"]):
        ds.set_axis_label(i, _S(l))
    for i, l in enumerate(spec["axis_unit"]):
        ds.set_axis_unit(i, _S(l))
    for i, l in enumerate(spec["col_label"]):
        ds.set_column_label(i, _S(l))
    for i, l in enumerate(spec["col_unit"]):
        ds.set_column_unit(i, _S(l))
    for i, s in enumerate(spec["scales"]):
        if s is not None:
            ds.set_axis_scale(i, np.array(s["v"], dtype=s["dtype"]))
    for k, v in spec["attrs"]:
        ds.attrs[_S(k)] = _attr_value(v)
    return ds


def _kind(v) -> str:
    import numpy as np
    if isinstance(v, (str, np.str_)):
        return "str"
    if isinstance(v, (bool, np.bool_)):
        return "bool"
    if isinstance(v, (int, np.integer)):
        return "int"
    if isinstance(v, (float, np.floating)):
        return "float"
    return type(v).__name__


def _py(v):
    import numpy as np
    return v.item() if isinstance(v, np.generic) else v


def _compare(orig, got) -> list:
    """the property, clause by clause: list of (field kind, key, detail) that differ"""
    import numpy as np
    out = []
    if got.name != orig.name or not isinstance(got.name, str):
        out.append(("name", None, f"{orig.name!r} -> {got.name!r}"))
    if tuple(got.data.shape) != tuple(orig.data.shape):
        out.append(("shape", None, f"{orig.data.shape} -> {got.data.shape}"))
    elif got.data.tolist() != orig.data.tolist():
        out.append(("data", None, "values differ"))
    try:
        if isinstance(got.timestamp, str) or float(got.timestamp) != float(orig.timestamp):
            out.append(("timestamp", None, f"{orig.timestamp!r} -> {got.timestamp!r}"))
    except Exception as e:  # noqa
        out.append(("timestamp", None, f"{orig.timestamp!r} -> {got.timestamp!r} ({type(e).__name__})"))
    for fld in ("axis_label", "axis_unit", "column_label", "column_unit"):
        a, b = list(getattr(orig, fld)), list(getattr(got, fld))
        if len(a) != len(b):
            out.append(("label", fld, f"{len(a)} -> {len(b)} entries"))
            continue
        for i, (x, y) in enumerate(zip(a, b)):
            if not isinstance(y, str) or str(x) != y:
                out.append(("label", (fld, i), f"{x!r} -> {y!r}"))
    if len(orig.axis_scale) != len(got.axis_scale):
        out.append(("scale", None, "number of axes"))
    else:
        for i, (x, y) in enumerate(zip(orig.axis_scale, got.axis_scale)):
            if (x is None) != (y is None):
                out.append(("scale", i, "present -> absent" if y is None else "absent -> present"))
            elif x is not None and (np.asarray(x).shape != np.asarray(y).shape or np.asarray(x).tolist() != np.asarray(y).tolist()):
                out.append(("scale", i, "values differ"))
    ka, kb = set(orig.attrs), set(got.attrs)
    for k in sorted(ka - kb):
        out.append(("attr", k, "missing"))
    for k in sorted(kb - ka):
        out.append(("attr", k, "extra"))
    for k in sorted(ka & kb):
        x, y = orig.attrs[k], got.attrs[k]
        if _kind(x) != _kind(y) or _py(x) != _py(y):
            out.append(("attr", k, f"{x!r} -> {y!r}"))
    return out


def _normalise(ds):
    """numpy scalars -> Python scalars (what a user would do by hand before converting formats)"""
    ds.timestamp = float(ds.timestamp)
    for k in list(ds.attrs):
        ds.attrs[k] = _py(ds.attrs[k])
    return ds


def _header_values(ds):
    """(field kind, key, value) for everything the text writer passes through repr()"""
    out = [("name", None, ds.name), ("timestamp", None, ds.timestamp)]
    for fld in ("axis_label", "axis_unit", "column_label", "column_unit"):
        for i, v in enumerate(getattr(ds, fld)):
            if v:
                out.append(("label", (fld, i), v))
    for k, v in ds.attrs.items():
        out.append(("attr", k, v))
    return out


def _value_cause(v):
    """why the text format cannot carry this header value: (cause, raises?) or None — evaluated with the real parser"""
    import numpy as np
    from qmi.data.dataset import _parse_attribute_value
    try:
        back = _parse_attribute_value(repr(v))
        if _kind(back) == _kind(v) and back == _py(v):
            return None
        raises = False
    except Exception:  # noqa
        raises = True
    if isinstance(v, np.generic):
        return ("numpy-scalar-repr", raises)
    if isinstance(v, str) and _str_cause(v):
        return (_str_cause(v), raises)
    return ("other-" + type(v).__name__, raises)


def _expected_rejection(ds, fmt: str):
    """input classes a writer is known to refuse loudly (not a silent loss)"""
    import numpy as np
    strs = [ds.name] + list(ds.axis_label) + list(ds.axis_unit) + list(ds.column_label) + list(ds.column_unit) + \
        [v for v in ds.attrs.values() if isinstance(v, str)] + list(ds.attrs)
    if any(0xD800 <= ord(c) <= 0xDFFF for s in strs for c in s):
        return "lone-surrogate"
    reserved = _live_tokens()[1]
    for k, v in ds.attrs.items():
        if any(k.startswith(p) for p in reserved):
            return "reserved-name"      # a writer MAY refuse a name under a prefix the module reserves — loudly
        if fmt == "hdf5":
            if k == "" or "\x00" in k:
                return "h5-attr-name"
            if isinstance(v, int) and not isinstance(v, bool) and not (-2**63 <= v < 2**64):
                return "h5-int-range"
        else:
            if k == "" or ":" in k or "\n" in k or "\r" in k:
                return "text-attr-name"
    if fmt == "hdf5" and any("\x00" in s for s in strs if s is not None):
        return "h5-nul-in-string"
    if fmt == "text":
        # integers that float64 cannot hold exactly are refused (the text format stores every number as float64)
        for arr in [ds.data] + [x for x in ds.axis_scale if x is not None]:
            a = np.asarray(arr)
            if a.dtype.kind in "iu" and any(int(float(v)) != int(v) for v in a.reshape(-1).tolist()):
                return "text-int-not-exact"
    return None


def _int_beyond_2_53(arr) -> bool:
    import numpy as np
    a = np.asarray(arr)
    return a.dtype.kind in "iu" and bool(np.any(np.abs(a.astype(object)) > 2**53))


class _Step(Exception):
    pass


def _run_path(folder, spec: dict, path: str, tag: str):
    """run one conversion path on the real code.  Returns (findings, info): findings = list of (signature, summary)."""
    findings = []
    info = {"rejected": None, "stages": 0}
    try:
        orig = _build(spec, name=spec["name"] + tag)
    except Exception as e:  # noqa  (every generated spec is a valid dataset: right scale lengths, finite scales, >= 2 axes)
        return [(f"api:valid-dataset-refused:{type(e).__name__}", f"building the dataset through the DataSet API raised {type(e).__name__}: {e}")], info
    cur = orig
    stages = path.split(">")
    step_no = 0
    for st in stages:
        if st == "norm":
            cur = _normalise(cur)
            continue
        step_no += 1
        cur.name = f"{spec['name']}{tag}s{step_no}"
        written = cur
        fmt = st
        try:
            folder.write_dataset(written, fmt)
        except Exception as e:  # noqa
            why = _expected_rejection(written, fmt)
            info["rejected"] = why or type(e).__name__
            if why is None:
                findings.append((f"{fmt}:write-rejected-unexpectedly:{type(e).__name__}", f"write {fmt} raised {type(e).__name__}: {e}"))
            return findings, info
        info["stages"] += 1
        try:
            got = folder.read_dataset(written.name)
        except Exception as e:  # noqa
            causes = set()
            if fmt == "text":
                for kind, key, v in _header_values(written):
                    c = _value_cause(v)
                    if c and c[1]:
                        causes.add(f"{kind}:{c[0]}")
                for k in written.attrs:
                    if "\n" in k or "\r" in k:
                        causes.add("attr-name:line-break")
            if not causes:
                causes.add(f"unexplained-{type(e).__name__}")
            for c in sorted(causes):
                findings.append((f"{fmt}:read-raises:{c}", f"{path} stage {step_no}: read of {fmt} file raised {type(e).__name__}: {str(e)[:80]}"))
            return findings, info
        # compare against the ORIGINAL dataset (names differ by stage suffix only)
        got_name = got.name
        got.name = orig.name if got_name == written.name else got_name
        diffs = _compare(orig, got)
        got.name = got_name
        for kind, key, detail in diffs:
            cause = None
            if fmt == "text":
                if kind in ("label", "attr"):
                    v = getattr(written, key[0])[key[1]] if kind == "label" else written.attrs.get(key)
                    c = _value_cause(v) if v is not None else None
                    cause = c[0] if c else None
                    if kind == "attr" and isinstance(key, str) and ("\n" in key or "\r" in key):
                        cause = "attr-name-line-break"
                elif kind == "data" and _int_beyond_2_53(written.data):
                    cause = "int-beyond-2^53"
                elif kind == "scale" and isinstance(key, int) and written.axis_scale[key] is not None and _int_beyond_2_53(written.axis_scale[key]):
                    cause = "int-beyond-2^53"
            sig = f"{fmt}:mismatch:{kind}" + (f":{cause}" if cause else "")
            findings.append((sig, f"{path} stage {step_no} ({fmt}): {kind} {key!r}: {detail}"))
        if diffs:
            return findings, info
        cur = got
    return findings, info


def _shrink_spec(spec: dict, still_fails) -> dict:
    """greedy deletion: attributes, labels, scales, data values"""
    import copy
    cur = copy.deepcopy(spec)

    def attempt(mut):
        nonlocal cur
        cand = copy.deepcopy(cur)
        if mut(cand) is False:
            return
        try:
            if still_fails(cand):
                cur = cand
        except Exception:  # noqa
            pass
    for i in reversed(range(len(cur["attrs"]))):
        attempt(lambda c, i=i: c["attrs"].pop(i))
    for fld in ("axis_label", "axis_unit", "col_label", "col_unit"):
        for i in range(len(cur[fld])):
            attempt(lambda c, fld=fld, i=i: c[fld].__setitem__(i, []) if c[fld][i] else False)
    for i in range(len(cur["scales"])):
        attempt(lambda c, i=i: c["scales"].__setitem__(i, None) if c["scales"][i] is not None else False)
    attempt(lambda c: c.__setitem__("data", [0] * len(c["data"])))
    for k, a in enumerate(cur["attrs"]):
        if a[1]["t"] == "s" and len(a[1]["v"]) > 1:
            for j in reversed(range(len(a[1]["v"]))):
                attempt(lambda c, k=k, j=j: c["attrs"][k][1]["v"].pop(j) if len(c["attrs"][k][1]["v"]) > 1 else False)
    return cur


CORPUS_SPECS = [
    # deterministic probes so that every run exercises the same corner classes
    {"name": "c_plain", "shape": [2, 3, 2], "dtype": "float64", "data": [float(i) for i in range(12)], "ts": "1790779036.4647868",
     "axis_label": [[120], []], "axis_unit": [[], [109, 86]], "col_label": [[97], []], "col_unit": [[], [115]],
     "scales": [{"dtype": "float64", "v": [1.5, 2.5]}, None],
     "attrs": [[[105], {"t": "i", "v": "5"}], [[102], {"t": "f", "v": "1.5"}], [[115], {"t": "s", "v": [120, 39, 121, 34, 92, 10, 233]}], [[101], {"t": "s", "v": []}]]},
    {"name": "c_astral", "shape": [1, 2], "dtype": "float64", "data": [1.0, 2.0], "ts": "5.0",
     "axis_label": [[917505]], "axis_unit": [[]], "col_label": [[], []], "col_unit": [[], []], "scales": [None],
     "attrs": [[[97], {"t": "s", "v": [97, 917505]}], [[98], {"t": "s", "v": [128512]}]]},
    {"name": "c_bigint", "shape": [2, 2], "dtype": "int64", "data": [2**53 + 1, 1, 2, 3], "ts": "7.25",
     "axis_label": [[]], "axis_unit": [[]], "col_label": [[], []], "col_unit": [[], []], "scales": [None], "attrs": []},
    {"name": "c_nlname", "shape": [2, 1], "dtype": "float32", "data": [1.5, 2.5], "ts": "9.0",
     "axis_label": [[]], "axis_unit": [[]], "col_label": [[]], "col_unit": [[]], "scales": [{"dtype": "int64", "v": [3, 4]}],
     "attrs": [[[97, 10, 98], {"t": "i", "v": "7"}]]},
    {"name": "c_4d", "shape": [2, 1, 3, 2], "dtype": "int32", "data": list(range(12)), "ts": "0.0",
     "axis_label": [[97], [98], [99]], "axis_unit": [[], [], []], "col_label": [[], []], "col_unit": [[], []],
     "scales": [None, {"dtype": "float64", "v": [0.25]}, {"dtype": "float64", "v": [1.0, 2.0, 4.0]}], "attrs": []},
]


def _family_specs() -> list:
    """datasets whose attribute names, labels and units run through the whole family around every token"""
    names = _family_names()
    out = []
    for i in range(0, len(names), 4):
        chunk = names[i:i + 4]
        lab = [ord(c) for c in chunk[0]]
        out.append({"name": "fam%d" % (i // 4), "shape": [2, 2], "dtype": "float64", "data": [1.0, 2.0, 3.0, 4.0], "ts": "11.5",
                    "axis_label": [lab], "axis_unit": [[ord(c) for c in chunk[-1]]],
                    "col_label": [lab, []], "col_unit": [[], [ord(c) for c in chunk[len(chunk) // 2]]],
                    "scales": [{"dtype": "float64", "v": [0.5, 1.5]}] if (i // 4) % 2 else [None],
                    "attrs": [[[ord(c) for c in nm], ({"t": "i", "v": str(j + 1)} if j % 2 == 0 else {"t": "s", "v": [ord(c) for c in nm]})]
                              for j, nm in enumerate(chunk)]})
    return out


def _section_datasets(ctx: Ctx, res: Result, n_specs: int, use_model=True):
    from qmi.data.datastore import DataFolder
    rng = ctx.rng
    with tempfile.TemporaryDirectory(prefix="c17ds_") as td:
        folder = DataFolder(td, None, None, None)
        specs = [dict(s) for s in CORPUS_SPECS] + _family_specs() + [_gen_spec(rng, i) for i in range(n_specs)]
        seen_sig: dict = {}
        for si, spec in enumerate(specs):
            for pi, path in enumerate(PATHS):
                findings, info = _run_path(folder, spec, path, f"_p{pi}")
                res.note_case(("ds", si, path, spec["shape"], spec["dtype"], len(spec["attrs"])), nontrivial=info["stages"] > 0)
                res.count("ds_path_" + path)
                res.count("ds_ndim_%d" % len(spec["shape"]))
                res.count("ds_dtype_" + spec["dtype"])
                if info["rejected"]:
                    res.count("ds_write_rejected_" + info["rejected"])
                res.count("ds_stages_completed", info["stages"])
                res.traces_validated += 1
                for sig, summary in findings:
                    res.count("ds_finding_" + sig)
                    if seen_sig.get(sig, 0) >= 1:
                        continue
                    seen_sig[sig] = seen_sig.get(sig, 0) + 1
                    with tempfile.TemporaryDirectory(prefix="c17sh_") as td2:
                        f2 = DataFolder(td2, None, None, None)
                        cnt = [0]

                        def still(c, sig=sig, path=path):
                            cnt[0] += 1
                            return any(s == sig for s, _ in _run_path(f2, c, path, "_k%d" % cnt[0])[0])
                        small = _shrink_spec(spec, still)
                        fs2 = [x for x in _run_path(f2, small, path, "_fin")[0] if x[0] == sig]
                    res.failures.append(Failure(sig, (fs2[0][1] if fs2 else summary) + f" [shape {small['shape']} {small['dtype']}]",
                                                {"kind": "dataset", "spec": small, "path": path, "signature": sig}))
            if si < 3:
                res.sample({"dataset": {k: spec[k] for k in ("name", "shape", "dtype", "ts")}, "n_attrs": len(spec["attrs"]),
                            "paths": PATHS})


# --- B2. text matrix layout and HDF5 attribute mapping against the models ---------------------------------

def _read_dat(path):
    """header (ordered list of (name, value text)) and integer matrix of a .dat file, parsed independently"""
    import numpy as np
    hdr, body = [], []
    with open(path, "rt", newline="\n") as f:
        lines = f.read().split("\n")
    for ln in lines:
        if ln.startswith("# ") and ":" in ln:
            p = ln.find(":")
            hdr.append((ln[2:p], ln[p + 1:].strip()))
        elif ln and not ln.startswith("#"):
            body.append([int(round(float(x))) for x in ln.split()])
    return hdr, body


def _layout_probe(folder, td, dims, ncol, flags, name, corrupt=None):
    import numpy as np
    from qmi.data.dataset import DataSet
    n = 1
    for d in dims:
        n *= d
    arr = (1000000 + np.arange(n * ncol, dtype=np.float64)).reshape(list(dims) + [ncol])
    ds = DataSet(name, data=arr)
    for ax, fl in enumerate(flags):
        if fl == "1":
            ds.set_axis_scale(ax, 2000000.0 + 10000 * ax + np.arange(dims[ax]))
    folder.write_dataset(ds, "text")
    path = os.path.join(td, name + ".dat")
    hdr, mat = _read_dat(path)
    hd = dict(hdr)
    nsp = len(mat[0]) - ncol
    tags = []
    for j in range(nsp):
        lab = hd.get(f"QMI_DataSet_column{j}_label", "''")[1:-1]
        m = re.fullmatch(r"axis(\d+)_(index|scale)", lab)
        tags.append(("I" if m.group(2) == "index" else "S") + m.group(1) if m else "?" + lab)
    w_line = f"l write {','.join(map(str, dims))} {ncol} {flags}"
    w_out = (",".join(tags) or "-") + ";" + "|".join(" ".join(map(str, r)) for r in mat)
    if corrupt is not None and nsp > 0:
        r, j = corrupt[0] % len(mat), corrupt[1] % nsp
        mat[r][j] += 1
        raw = open(path).read().split("\n")
        head = [ln for ln in raw if ln.startswith("#")]
        with open(path, "wt") as f:
            f.write("\n".join(head) + "\n")
            np.savetxt(f, np.array(mat, dtype=np.float64))
    r_line = f"l read {','.join(map(str, dims))} {ncol} {','.join(tags) or '-'} " + "|".join("_".join(map(str, r)) for r in mat)
    try:
        got = folder.read_dataset(name)
        sc = "/".join("~" if s is None else (",".join(str(int(x)) for x in s) or "-") for s in got.axis_scale)
        r_out = "ok " + ",".join(str(int(x)) for x in got.data.reshape(-1)) + ";" + sc
    except ValueError as e:
        msg = str(e)
        m = re.match(r"Inconsistent (index|scale) data for axis (\d+)", msg)
        if m:
            r_out = f"err:{m.group(1)}{m.group(2)}"
        elif msg.startswith("Expecting at least"):
            r_out = "err:cols"
        elif msg.startswith("Expecting"):
            r_out = "err:rows"
        else:
            r_out = "exc:ValueError:" + msg[:40]
    return [(w_line, w_out), (r_line, r_out)]


def _h5map_probe(folder, td, rng, name):
    import h5py
    import numpy as np
    from qmi.data.dataset import DataSet
    naxes, ncol = rng.randint(1, 3), rng.randint(1, 3)
    shape = [rng.randint(1, 2) for _ in range(naxes)] + [ncol]
    ds = DataSet(name, data=np.zeros(shape))
    ts = rng.randint(0, 10**9)
    ds.timestamp = float(ts)
    lab = lambda: "" if rng.random() < 0.4 else (_gen_str(rng, 5, nul=False).replace("\ud800", "") or "")   # noqa
    al, au = [lab() for _ in range(naxes)], [lab() for _ in range(naxes)]
    cl, cu = [lab() for _ in range(ncol)], [lab() for _ in range(ncol)]
    ds.axis_label, ds.axis_unit, ds.column_label, ds.column_unit = list(al), list(au), list(cl), list(cu)
    sc = ""
    for ax in range(naxes):
        if rng.random() < 0.4:
            ds.set_axis_scale(ax, np.arange(shape[ax], dtype=np.float64))
            sc += "1"
        else:
            sc += "0"
    cust = []
    for _ in range(rng.randint(0, 3)):
        k = rng.choice(["a", "b", "k1", "x y", "é", "QMI_DataSet_axis0_label", "QMI_DataSetX", "DIMENSION_LABELS", "QMI_DataSe", "DIMENSION", "qmi_dataset"]
                       if rng.random() < 0.7 else [(_gen_str(rng, 4, nul=False) or "w")])
        if k in dict(cust) or "\x00" in k:
            continue
        v = rng.randint(0, 1000) if rng.random() < 0.5 else (_gen_str(rng, 5, nul=False))
        cust.append((k, v))
        ds.attrs[k] = v
    strs = lambda l: ";".join(_cps(x) for x in l)   # noqa
    cs = ";".join(_cps(k) + "=" + ("s" + _cps(v) if isinstance(v, str) else "n%d" % v) for k, v in cust) or "~"
    line = f"h {naxes} {ncol} {ts} {strs(al)} {strs(au)} {strs(cl)} {strs(cu)} {sc} {cs}"
    try:
        folder.write_dataset(ds, "hdf5")
    except ValueError:
        return line, "W:exc:ValueError"
    toks = []
    with h5py.File(os.path.join(td, name + ".h5"), "r") as f:
        for k, v in f[name].attrs.items():
            if k.startswith("DIMENSION_"):
                continue   # h5py's own dimension-scale bookkeeping; modelled as dimLabel / dimScale
            if k == "QMI_DataSet_time_str":
                v = "t" if v == _time.strftime("%Y-%m-%dT%H:%M:%S", _time.gmtime(float(ts))) else "BAD:" + str(v)
            toks.append(_cps(k) + "=" + ("s" + _cps(v) if isinstance(v, str) else "n%d" % int(v)))
    got = folder.read_dataset(name)
    same = not _compare(ds, got)
    return line, " ".join(sorted(toks)) + " # " + ("same" if same else "differs")


def _section_layout_h5map(ctx: Ctx, res: Result, n_layout: int, n_h5: int, use_model=True):
    from qmi.data.datastore import DataFolder
    import itertools
    rng = ctx.rng
    lines, impl = [], []
    with tempfile.TemporaryDirectory(prefix="c17lay_") as td:
        folder = DataFolder(td, None, None, None)
        shapes = [list(s) for k in (1, 2, 3) for s in itertools.product((1, 2, 3), repeat=k)]
        rng.shuffle(shapes)
        probes = []
        for i in range(n_layout):
            dims = shapes[i % len(shapes)] if i < len(shapes) else [rng.randint(1, 4) for _ in range(rng.randint(1, 3))]
            flags = "".join(rng.choice("01") for _ in dims)
            probes.append((dims, rng.randint(1, 3), flags, None if rng.random() < 0.6 else (rng.randrange(100), rng.randrange(10))))
        for i, (dims, ncol, flags, corrupt) in enumerate(probes):
            for ln, out in _layout_probe(folder, td, dims, ncol, flags, "lay%d" % i, corrupt):
                lines.append(ln)
                impl.append(out)
            res.note_case(("layout", tuple(dims), ncol, flags, corrupt), nontrivial=len(dims) > 1 or "1" in flags)
            res.count("layout_probe_ndim_%d" % (len(dims) + 1))
            res.count("layout_reader_" + impl[-1].split(" ")[0].split(":")[0])
        for i in range(n_h5):
            ln, out = _h5map_probe(folder, td, rng, "hm%d" % i)
            lines.append(ln)
            impl.append(out)
            res.note_case(("h5map", ln))
            res.count("h5map_probe_" + ("rejected" if out.startswith("W:") else "ok"))
    if use_model:
        model = LeanDriver("drv_c17").run(lines)
        res.traces_validated += len(lines)
        k = diff_streams(lines, impl, model)
        if k is not None:
            res.broken.append(Broken("correspondence", "TextLayout / Hdf5Map vs dataset.py",
                                     f"op={lines[k][:300]!r}\n impl={impl[k][:400]!r}\n model={model[k][:400]!r}",
                                     case={"kind": "layout", "line": lines[k]}))


# ---------------------------------------------------------------------------
# C. DataFolder write histories (overwrite) and DataStore folder histories on a real temp dir
# ---------------------------------------------------------------------------

DS_NAMES = ["a"] * 5 + ["b"] * 4 + ["A-1", "x(1),y"] * 2 + ["a\n", "", "a b", "é", "a/b", "a.b"]
LABELS = ["lab"] * 6 + ["x"] * 3 + ["lab.2", "A-b_(1),", "lab\n", "", "la b", "é", "..", "a/b"]
LOOKUP_LABELS = ["lab"] * 5 + ["x"] * 3 + ["lab.2", "lab\n", "nolab", ".."]
# labels that are an underscore-suffix / prefix / substring of one another, with digits and underscores
LABEL_FAMILIES = [
    ["scan", "fine_scan", "1_scan", "scan_2", "scan_fine", "can", "sc", "x_scan_y", "120000_scan", "_scan", "scan_"],
    ["t1", "t1_t1", "1", "1_1", "t", "t1.", "_1", "0_t1", "t1_0"],
    ["a-b", "b", "a-b_b", "a", "a-b_a-b", "(a-b)", "b,", ",b"],
]
DATES = ["20240101"] * 4 + ["20240102"] * 3 + ["20231231"] * 2 + ["99991231", "00000101", "20240101\n", "2024010", "202401011", "2024010a", "２０２４０１０１"]
TIMES = ["120000"] * 4 + ["120001"] * 2 + ["000000", "235959"] * 2 + ["120000\n", "12000", "1200000", "12000x"]


def _file_content_id(path: str) -> int:
    """serial number stored in a dataset file (0 = empty / partial), read without qmi.data"""
    import h5py
    if path.endswith(".dat"):
        try:
            txt = open(path, "rt").read()
        except Exception:  # noqa
            return 0
        m = re.search(r"^# serial: (\d+)$", txt, re.M)
        return int(m.group(1)) if (m and "# QMI_DataSet\n" in txt) else 0
    try:
        with h5py.File(path, "r") as f:
            name = os.path.basename(path)[:-3]
            if name in f and f[name].attrs.get("QMI_DataSet") == 1:
                return int(f[name].attrs.get("serial", 0))
    except Exception:  # noqa
        return 0
    return 0


def _dir_state(td: str) -> dict:
    import hashlib
    out = {}
    for n in os.listdir(td):
        with open(os.path.join(td, n), "rb") as f:
            out[n] = hashlib.blake2b(f.read(), digest_size=8).hexdigest()
    return out


def _gen_folder_ops(rng, n: int) -> list:
    ops = []
    serial = 0
    for _ in range(n):
        r = rng.random()
        if r < 0.7:
            serial += 1
            ops.append(["write", rng.choice(DS_NAMES), rng.choice("hhhhtttto"), int(rng.random() < 0.35),
                        rng.choice([0] * 16 + [1, 1, 2, 3]), serial])
        elif r < 0.9:
            ops.append(["read", rng.choice(DS_NAMES)])
        else:
            ops.append(["ls"])
    return ops


def _run_folder_ops(ops: list):
    """real DataFolder on a fresh temp dir.  Returns (model lines, impl outputs, oracle violations)."""
    import numpy as np
    from qmi.data.dataset import DataSet
    from qmi.data.datastore import DataFolder
    lines, outs, bad = ["f init"], ["ok"], []
    with tempfile.TemporaryDirectory(prefix="c17f_") as td:
        folder = DataFolder(td, None, None, None)
        for op in ops:
            if op[0] == "write":
                _, name, fmt, ow, fail, serial = op
                # `fail` = why the format writer will refuse: 1 reserved attribute name, 2 line break in an attribute
                # name (text only), 3 an integer float64 cannot hold (text only)
                ds = DataSet("tmp", data=(np.array([[2**53 + 1, serial]], dtype=np.int64) if fail == 3
                                          else np.full((1, 2), float(serial))))
                ds.name = name
                if fail == 1:
                    ds.attrs["QMI_DataSet_bad"] = 1
                if fail == 2:
                    ds.attrs["a\nb"] = 1
                ds.attrs["serial"] = serial
                before = _dir_state(td)
                try:
                    folder.write_dataset(ds, {"h": "hdf5", "t": "text", "o": "other"}[fmt], overwrite=bool(ow))
                    out = "ok"
                except Exception as e:  # noqa
                    out = "exc:" + type(e).__name__
                after = _dir_state(td)
                lines.append(f"f write {_cps(name)} {fmt} {ow} {fail} {serial}")
                outs.append(out)
                # the property, directly: an existing file changes only when overwrite was requested for it
                target = name + {"h": ".h5", "t": ".dat", "o": ".?"}[fmt]
                for fn, h in before.items():
                    if after.get(fn) != h:
                        if not ow:
                            bad.append(("overwrite:existing-file-replaced-without-overwrite", f"write({name!r},{fmt},overwrite=False) changed existing {fn!r}"))
                        elif fn != target:
                            bad.append(("overwrite:other-file-changed", f"write({name!r},{fmt},overwrite=True) changed {fn!r}"))
                if not ow and target in before and out == "ok":
                    bad.append(("overwrite:second-write-accepted-without-overwrite", f"write({name!r},{fmt}) onto existing file returned normally"))
                if out == "ok" and (target not in after or _file_content_id(os.path.join(td, target)) != serial):
                    bad.append(("overwrite:successful-write-not-stored", f"write({name!r},{fmt}) ok but {target!r} does not hold it"))
            elif op[0] == "read":
                name = op[1]
                lines.append(f"f read {_cps(name)}")
                try:
                    got = folder.read_dataset(name)
                    outs.append("ok:%d" % int(got.attrs.get("serial", 0)))
                except FileNotFoundError:
                    outs.append("exc:FileNotFoundError")
                except Exception as e:  # noqa
                    cands = [os.path.join(td, name + ext) for ext in (".h5", ".dat")] if "/" not in name else []
                    ex = [p for p in cands if os.path.isfile(p)]
                    if ex and _file_content_id(ex[0]) == 0:
                        outs.append("ok:0")     # a partial file left by a failed write: unreadable
                    else:
                        outs.append("exc:" + type(e).__name__)
            else:
                lines.append("f ls")
                toks = sorted(_cps(n) + "=%d" % _file_content_id(os.path.join(td, n)) for n in os.listdir(td))
                outs.append(";".join(toks) or "-")
        lines.append("f ls")
        toks = sorted(_cps(n) + "=%d" % _file_content_id(os.path.join(td, n)) for n in os.listdir(td))
        outs.append(";".join(toks) or "-")
    return lines, outs, bad


class _Clock:
    """stand-in for the `time` module inside qmi.data.datastore: virtual time(), real formatting"""

    def __init__(self, now: float):
        self.now = now

    def time(self):
        return self.now

    def __getattr__(self, k):
        return getattr(_time, k)


def _gen_store_ops(rng, n: int) -> list:
    ops = []
    clock = 1700000000.0
    fam = rng.choice([None] + LABEL_FAMILIES)
    LABELS_, LOOKUP_ = (LABELS, LOOKUP_LABELS) if fam is None else (fam * 2 + ["lab\n", "", "a/b"], fam + ["nolab"])
    for _ in range(n):
        r = rng.random()
        if r < 0.08:
            ops.append(["addfile", rng.choice(["20240103", "20231230", "20240102", "notes.txt"])])
        elif r < 0.2:
            ops.append(["addchild", rng.choice(DATES[:11]), rng.choice(TIMES[:10]) + "_" + rng.choice(LABELS_[:10]) if rng.random() < 0.8
                        else rng.choice(["junk", "120000", "120000_", "1200_lab", "120000-lab"]), int(rng.random() < 0.7)])
        elif r < 0.6:
            k = rng.random()
            lab = rng.choice(LABELS_)
            if k < 0.55:
                ops.append(["mk", lab, None, rng.choice(DATES), rng.choice(TIMES), clock])
            elif k < 0.75:
                ops.append(["mk", lab, rng.choice([1e9, 1e9 + 0.4, 1e9 + 1, 1704110400.0, clock]), None, None, clock])
            elif k < 0.9:
                if rng.random() < 0.5:
                    clock += rng.choice([0.2, 0.5, 1.0, 86400.0])
                ops.append(["mk", lab, None, None, None, clock])
            else:
                ops.append(["mk", lab, rng.choice([None, 1e9]), rng.choice([None, "20240101"]), rng.choice([None, "120000"]), clock])
        elif r < 0.88:
            ops.append(["latest", rng.choice(LOOKUP_), None if rng.random() < 0.6 else rng.choice(DATES[:12])])
        else:
            ops.append(["list", rng.choice(LOOKUP_ + [None, None])])
    return ops


def _store_listing(td: str) -> str:
    toks = []
    for n in os.listdir(td):
        p = os.path.join(td, n)
        if os.path.isdir(p):
            ch = sorted(_cps(c) + ("/" if os.path.isdir(os.path.join(p, c)) else "") for c in os.listdir(p))
            toks.append(_cps(n) + ":[" + ";".join(ch) + "]")
        else:
            toks.append(_cps(n) + ":file")
    return " ".join(sorted(toks)) or "-"


def _run_store_ops(ops: list):
    import qmi.data.datastore as dsm
    lines, outs, bad = ["s init"], ["ok"], []
    real_time = dsm.time
    with tempfile.TemporaryDirectory(prefix="c17s_") as td:
        store = dsm.DataStore(td)
        registry = []   # (label, date code, time code, path) of every folder of the store
        try:
            for op in ops:
                if op[0] == "addfile":
                    p = os.path.join(td, op[1])
                    if os.path.exists(p):
                        continue
                    open(p, "w").close()
                    lines.append(f"s addfile {_cps(op[1])}")
                    outs.append("ok")
                elif op[0] == "addchild":
                    dp = os.path.join(td, op[1])
                    if os.path.isfile(dp) or os.path.exists(os.path.join(dp, op[2])):
                        continue
                    os.makedirs(dp, exist_ok=True)
                    if op[3]:
                        os.mkdir(os.path.join(dp, op[2]))
                        if re.fullmatch(r"[0-9]{8}", op[1]) and re.fullmatch(r"[0-9]{6}_[^\n]+", op[2]):
                            registry.append((op[2][7:], op[1], op[2][:6], os.path.join(dp, op[2])))
                    else:
                        open(os.path.join(dp, op[2]), "w").close()
                    lines.append(f"s addchild {_cps(op[1])} {_cps(op[2])} {op[3]}")
                    outs.append("ok")
                elif op[0] == "mk":
                    _, lab, ts, d, t, clock = op
                    dsm.time = _Clock(clock)
                    tm = _time.localtime(ts if ts is not None else clock)
                    dd, dt = _time.strftime("%Y%m%d", tm), _time.strftime("%H%M%S", tm)
                    lines.append(f"s mk {_cps(lab)} {0 if ts is None else 1} {_opt(d)} {_opt(t)} {_cps(dd)} {_cps(dt)}")
                    existing = {os.path.join(r, x) for r, ds_, fs_ in os.walk(td) for x in ds_ + fs_}
                    try:
                        f = store.make_folder(lab, timestamp=ts, date_str=d, time_str=t)
                        rel = os.path.relpath(f.folder_path, td)
                        a, b = rel.split(os.sep, 1) if os.sep in rel else (rel, "")
                        outs.append("ok:" + _cps(a) + "/" + _cps(b))
                        registry.append((lab, f.date_str, f.time_str, f.folder_path))
                        # the property, directly: what is handed out as new did not exist before and is a directory now
                        if f.folder_path in existing:
                            bad.append(("store:existing-folder-handed-out-as-new", f"make_folder({lab!r},{ts},{d!r},{t!r}) returned existing {rel!r}"))
                        if not os.path.isdir(f.folder_path):
                            bad.append(("store:new-folder-not-created", f"make_folder({lab!r}) returned {rel!r} which is not a directory"))
                    except Exception as e:  # noqa
                        outs.append("exc:" + type(e).__name__)
                    finally:
                        dsm.time = real_time
                elif op[0] == "list":
                    lab = op[1]
                    lines.append(f"s list {_opt(lab)}")
                    try:
                        fl = store.list_folders(lab)
                    except Exception as e:  # noqa
                        outs.append("exc:" + type(e).__name__)
                        continue
                    outs.append(";".join(_cps(x.date_str) + "/" + _cps(os.path.basename(x.folder_path)) + "/" + _cps(x.time_str)
                                         for x in fl) or "-")
                    # the property's lookup and the listing must agree: same folders as handed out, oldest first,
                    # and the last one is what find_latest_folder returns
                    want = sorted((int(e[1]), int(e[2]), e[3]) for e in registry if (lab is None or e[0] == lab) and os.path.isdir(e[3]))
                    got = [x.folder_path for x in fl]
                    if sorted(got) != sorted(w[2] for w in want):
                        bad.append(("list-folders:not-the-folders-of-the-label", f"list_folders({lab!r}) -> {[os.path.basename(g) for g in got]}, "
                                    f"folders {[os.path.basename(w[2]) for w in want]}"))
                    elif [(int(x.date_str), int(x.time_str)) for x in fl] != sorted((w[0], w[1]) for w in want):
                        bad.append(("list-folders:not-oldest-first", f"list_folders({lab!r}) -> {[(x.date_str, x.time_str) for x in fl]}"))
                    elif lab is not None:
                        try:
                            lf = store.find_latest_folder(lab)
                        except Exception:  # noqa
                            lf = False
                        if lf is not False and ((lf is None) != (not fl) or (lf is not None and (lf.date_str, lf.time_str) != (fl[-1].date_str, fl[-1].time_str))):
                            bad.append(("list-folders:disagrees-with-find-latest", f"label {lab!r}: latest {lf!r}, listing ends with {fl[-1] if fl else None!r}"))
                else:
                    _, lab, d = op
                    lines.append(f"s latest {_cps(lab)} {_opt(d)}")
                    try:
                        f = store.find_latest_folder(lab, d)
                    except Exception as e:  # noqa
                        outs.append("exc:" + type(e).__name__)
                        continue
                    if f is None:
                        outs.append("none")
                    else:
                        outs.append("ok:" + _cps(f.date_str) + "/" + _cps(os.path.basename(f.folder_path)) + "/" + _cps(f.time_str))
                    # the property, directly: greatest (date, time) among the folders of this label, i.e. the folders
                    # make_folder handed out for it plus well-formed folders that were already there
                    cands = [(int(e[1]), int(e[2]), e) for e in registry
                             if e[0] == lab and (d is None or e[1] == d) and os.path.isdir(e[3])]
                    nl = ":trailing-newline" if any(x.endswith("\n") for c in cands for x in c[2][:3]) else ""
                    if f is None:
                        if cands:
                            bad.append(("latest-folder:none-although-folder-exists" + nl,
                                        f"find_latest_folder({lab!r},{d!r}) = None, folders {sorted(c[:2] for c in cands)}"))
                    else:
                        base = os.path.basename(f.folder_path)
                        if base.endswith("\n") or f.date_str.endswith("\n"):
                            nl = ":trailing-newline"
                        try:
                            key = (int(f.date_str), int(f.time_str))
                        except Exception:  # noqa
                            key = None
                        if not any(c[2][3] == f.folder_path for c in cands):
                            bad.append(("latest-folder:folder-of-other-label" + nl, f"find_latest_folder({lab!r},{d!r}) returned {base!r}"))
                        elif key != max(c[:2] for c in cands):
                            bad.append(("latest-folder:not-the-greatest-date-time" + nl,
                                        f"find_latest_folder({lab!r},{d!r}) -> {key}, folders {sorted(c[:2] for c in cands)}"))
            lines.append("s ls")
            outs.append(_store_listing(td))
        finally:
            dsm.time = real_time
    return lines, outs, bad


def _shrink_ops(ops: list, bad_sig: str, runner) -> list:
    ops = list(ops)
    i = 0
    while i < len(ops):
        cand = ops[:i] + ops[i + 1:]
        try:
            if any(s == bad_sig for s, _ in runner(cand)[2]):
                ops = cand
                continue
        except Exception:  # noqa
            pass
        i += 1
    return ops


def _family_histories() -> list:
    """for every ordered pair of related labels (a, b): b gets the newer folders, a an older one (or none);
    the lookup for a must return a's own newest folder (resp. None), on the same date and across dates"""
    out = []
    for fam in LABEL_FAMILIES:
        for a in fam[:6]:
            hist = []
            t = 100000
            for b in fam:
                if b == a:
                    continue
                t += 1
                hist.append(["mk", b, None, "20240102", "%06d" % (t + 10000), 0.0])     # newer, other label, later date
                hist.append(["mk", b, None, "20240101", "%06d" % (t + 20000), 0.0])     # newer, other label, same date
            out.append(hist + [["latest", a, None], ["latest", a, "20240101"]])          # none of them is a's
            own = [["mk", a, None, "20240101", "090000", 0.0], ["mk", a, None, "20240101", "093000", 0.0],
                   ["mk", a, None, "20231231", "235959", 0.0]]
            out.append(own[:1] + hist + own[1:] + [["latest", a, None], ["latest", a, "20240101"], ["latest", a, "20240102"],
                                                  ["latest", a, "20231231"], ["list", a], ["list", None]])
    # date roll-over at (local) midnight and at the end of a month / year: consecutive seconds, different date folders
    for ymd in ((2024, 3, 10), (2024, 2, 29), (2023, 12, 31)):
        t0 = _time.mktime(ymd + (23, 59, 59, 0, 0, -1))
        out.append([["mk", "lab", t0, None, None, t0], ["mk", "lab", t0 + 1.0, None, None, t0], ["mk", "lab", t0, None, None, t0],
                    ["latest", "lab", None], ["list", "lab"],
                    ["mk", "x", None, None, None, t0 + 0.5], ["mk", "x", None, None, None, t0 + 0.9], ["mk", "x", None, None, None, t0 + 1.0],
                    ["mk", "x", None, None, None, t0 + 86400.0], ["latest", "x", None], ["list", "x"], ["list", None]])
    return out


def _section_store(ctx: Ctx, res: Result, n_folder: int, n_store: int, use_model=True, op_len=(12, 18)):
    rng = ctx.rng
    all_lines, all_outs, spans = [], [], []
    fixed = _family_histories()
    for kind, n, gen, runner in (("folder", n_folder, _gen_folder_ops, _run_folder_ops),
                                 ("store", n_store + len(fixed), _gen_store_ops, _run_store_ops)):
        for i in range(n):
            if kind == "store" and i < len(fixed):
                ops = fixed[i]
            else:
                ops = gen(rng, rng.randint(3, op_len[0] if kind == "folder" else op_len[1]))
            lines, outs, bad = runner(ops)
            spans.append((len(all_lines), len(lines), kind, ops))
            all_lines += lines
            all_outs += outs
            res.note_case((kind, repr(ops)), nontrivial=len(lines) > 3)
            res.count(f"{kind}_histories")
            for ln_, o in zip(lines, outs):
                opk = ln_.split(" ")[1]
                res.count(f"{kind}_{opk}_" + (o if o.startswith("exc:") else ("listing" if opk == "ls" else ("empty" if o == "-" else ("folders" if opk == "list" else o.split(":")[0])))))
            if i < 2:
                res.sample({kind + "_ops": ops[:8], "impl_out": outs[1:9]})
            done = set()
            for sig, summary in bad:
                if sig in done or any(f.signature == sig for f in res.failures):
                    continue
                done.add(sig)
                small = _shrink_ops(ops, sig, runner)
                s2 = [x for x in runner(small)[2] if x[0] == sig]
                res.failures.append(Failure(sig, (s2[0][1] if s2 else summary) + f" [history of {len(small)} ops]",
                                            {"kind": kind, "ops": small, "signature": sig}))
    if use_model:
        model = LeanDriver("drv_c17").run(all_lines)
        res.traces_validated += len(spans)
        k = diff_streams(all_lines, all_outs, model)
        if k is not None:
            for (start, ln, kind, ops) in spans:
                if start <= k < start + ln:
                    res.broken.append(Broken("correspondence", f"Store model vs datastore.py ({kind} history)",
                                             f"line {k - start}: op={all_lines[k]!r} impl={all_outs[k]!r} model={model[k]!r}",
                                             case={"kind": kind, "ops": ops}))
                    break


# --- C2. the text writer's exactness check; two threads inside make_folder ------------------------------------

def _section_exact(ctx: Ctx, res: Result, n: int, use_model=True):
    """int(float(v)) vs the model's toF64, and the writer's accept / refuse decision on integer arrays"""
    import io
    import numpy as np
    from qmi.data.dataset import DataSet, write_dataset_to_text, read_dataset_from_text
    rng = ctx.rng
    lines, impl = [], []
    vals = [0, 1, 2**53 - 1, 2**53, 2**53 + 1, 2**53 + 2, 2**53 + 3, 2**54 - 1, 2**54 + 2, 2**54 + 4, 2**54 + 6, 2**60, 2**60 + 2**7, 2**60 + 2**8,
            2**63 - 1, 2**63, 2**63 + 2**10, 2**63 + 2**11, 2**64 - 1, 2**64 - 2**11, 2**64 - 2**10, 2**64 - 2**10 - 1, 2**53 + 2**52 + 1]
    for _ in range(n):
        b = rng.randint(50, 64)
        k = max(0, b - 53)
        base = rng.getrandbits(b) | (1 << (b - 1))
        vals.append(rng.choice([base, (base >> k) << k, ((base >> k) << k) + (1 << max(k - 1, 0)), ((base >> k) << k) + (1 << max(k - 1, 0)) + rng.choice([-1, 1]),
                                (1 << b) - 1, (1 << b) - rng.randint(1, 1 << max(k, 1))]) % 2**64)
    for v in vals:
        lines.append(f"x f64 {v}")
        impl.append(str(int(float(v))))
        res.count("exact_f64_probe")
    arrays = [[v] for v in vals[:40]] + [[rng.choice(vals) for _ in range(rng.randint(1, 4))] for _ in range(n // 2)]
    for arr in arrays:
        signed = all(v < 2**63 for v in arr)
        neg = signed and rng.random() < 0.5
        data = np.array([[-v if neg else v for v in arr] + [0]], dtype=np.int64 if signed else np.uint64)
        as_scale = rng.random() < 0.25 and len(arr) >= 1
        if as_scale:
            ds = DataSet("e", data=np.zeros((len(arr), 1)))
            ds.set_axis_scale(0, data[0, :-1])
        else:
            ds = DataSet("e", data=data)
        fh = io.StringIO()
        try:
            write_dataset_to_text(ds, fh)
            out = "0"
        except ValueError:
            out = "1"
        lines.append("x refuses " + ",".join(map(str, arr)))
        impl.append(out)
        res.count("exact_writer_" + ("refused" if out == "1" else "accepted"))
        res.note_case(("exact", tuple(arr), neg, as_scale))
        # the property, directly: an accepted integer array reads back equal; a refused one really cannot be held;
        # a refusal happens before the first byte is written
        inexact = any(int(float(v)) != v for v in arr)
        if out == "0":
            fh.seek(0)
            back = read_dataset_from_text(fh)
            got = back.axis_scale[0].tolist() if as_scale else back.data.tolist()
            exp = ds.axis_scale[0].tolist() if as_scale else ds.data.tolist()
            if got != exp:
                res.failures.append(Failure("text:mismatch:" + ("scale" if as_scale else "data") + ":int-beyond-2^53",
                                            f"integer array {exp} written as text reads back {got}",
                                            {"kind": "exact", "arr": arr, "neg": neg, "scale": as_scale}))
        else:
            if not inexact:
                res.failures.append(Failure("text:write-rejected-unexpectedly:exact-integers", f"text writer refused exactly representable {arr}",
                                            {"kind": "exact", "arr": arr, "neg": neg, "scale": as_scale}))
            if fh.getvalue():
                res.failures.append(Failure("text:refused-write-left-partial-content", f"refused write of {arr} had already written {len(fh.getvalue())} chars",
                                            {"kind": "exact", "arr": arr, "neg": neg, "scale": as_scale}))
    if use_model:
        model = LeanDriver("drv_c17").run(lines)
        res.traces_validated += len(lines)
        k = diff_streams(lines, impl, model)
        if k is not None:
            res.broken.append(Broken("correspondence", "toF64 / refusesInts vs int(float(v)) / write_dataset_to_text",
                                     f"op={lines[k]!r} impl={impl[k]!r} model={model[k]!r}", case={"kind": "exactline", "line": lines[k]}))


def _section_api(ctx: Ctx, res: Result, n: int, use_model=True):
    """DataSet constructor and setters: what is accepted, what is refused (and with which exception type)"""
    import numpy as np
    from qmi.data.dataset import DataSet
    rng = ctx.rng
    lines, impl = [], []
    fixed = [[], [3], [2, 3], [1, 1], [2, 0], [0, 2], [2, -1], [-1, 2], [2, 3, 4], [1, 1, 1, 1], [2, 1, 0, 2], [4, 1]]
    for i in range(n + len(fixed)):
        shape = fixed[i] if i < len(fixed) else [rng.choice([1, 2, 3, 4, 0, -1] if rng.random() < 0.25 else [1, 2, 3, 4]) for _ in range(rng.choice([0, 1, 2, 2, 3, 3, 4]))]
        lines.append("d new " + (",".join(map(str, shape)) or "-"))
        ds = None
        try:
            if rng.random() < 0.5 or any(x < 0 for x in shape):
                ds = DataSet("n", shape=tuple(shape))
            else:
                ds = DataSet("n", data=np.zeros(tuple(shape)))
            impl.append("ok " + ",".join(map(str, ds.data.shape[:-1])) + ";" + str(ds.data.shape[-1]))
        except Exception as e:  # noqa
            impl.append("exc:" + type(e).__name__)
        res.count("api_new_" + impl[-1].split(" ")[0])
        res.note_case(("api", tuple(shape)), nontrivial=len(shape) >= 2)
        if ds is None:
            continue
        nax = ds.data.ndim - 1
        for _ in range(rng.randint(0, 5)):
            k = rng.random()
            ax = rng.randrange(nax) if rng.random() < 0.7 else rng.choice([-1, 0, 1, 2, nax - 1, nax, nax + 1])
            if k < 0.55:
                ln = ds.data.shape[ax] if (0 <= ax < nax and rng.random() < 0.7) else rng.choice([1, 2, 3, 0, ds.data.shape[-1]])
                fin = rng.random() < 0.85
                vals = np.arange(ln, dtype=np.float64)
                if not fin and ln > 0:
                    vals[rng.randrange(ln)] = rng.choice([np.inf, -np.inf, np.nan])
                if not fin and ln == 0:
                    fin = True
                lines.append(f"d scale {ax} {ln} {int(fin)}")
                try:
                    ds.set_axis_scale(ax, vals)
                    impl.append("ok " + ",".join("~" if x is None else str(len(x)) for x in ds.axis_scale))
                except Exception as e:  # noqa
                    impl.append("exc:" + type(e).__name__)
                res.count("api_scale_" + impl[-1].split(" ")[0])
                # directly: a scale is accepted iff it belongs to an existing axis, has that axis' length and is finite
                should = 0 <= ax < nax and ln == ds.data.shape[ax] and fin
                if should != impl[-1].startswith("ok"):
                    sig = "api:valid-scale-refused" if should else "api:invalid-scale-accepted"
                    if not any(f.signature == sig for f in res.failures):
                        res.failures.append(Failure(sig, f"DataSet{tuple(ds.data.shape)}.set_axis_scale({ax}, <{ln} values, finite={fin}>) -> {impl[-1]}",
                                                    {"kind": "api-scale", "shape": list(ds.data.shape), "axis": ax, "len": ln, "finite": fin, "signature": sig}))
            elif k < 0.8:
                lines.append(f"d axis {ax}")
                try:
                    (ds.set_axis_label if rng.random() < 0.5 else ds.set_axis_unit)(ax, "l")
                    impl.append("ok")
                except Exception as e:  # noqa
                    impl.append("exc:" + type(e).__name__)
            else:
                col = rng.choice([-1, 0, 1, ds.data.shape[-1] - 1, ds.data.shape[-1], ds.data.shape[-1] + 1])
                lines.append(f"d col {col}")
                try:
                    (ds.set_column_label if rng.random() < 0.5 else ds.set_column_unit)(col, "c")
                    impl.append("ok")
                except Exception as e:  # noqa
                    impl.append("exc:" + type(e).__name__)
    if use_model:
        model = LeanDriver("drv_c17").run(lines)
        res.traces_validated += len(lines)
        k = diff_streams(lines, impl, model)
        if k is not None:
            j = max(i for i in range(k + 1) if lines[i].startswith("d new"))
            res.broken.append(Broken("correspondence", "DataSetApi vs DataSet.__init__ / setters",
                                     f"ops={lines[j:k + 1]!r} impl={impl[k]!r} model={model[k]!r}", case={"kind": "api", "lines": lines[j:k + 1]}))


def _race_make_folder(same: bool, barrier_at: str, preexisting_date: bool):
    """two real threads inside DataStore.make_folder; both are held after `barrier_at` ('isdir' of the date path or
    'exists' of the folder path) has answered, so both go on with the same stale answer"""
    import qmi.data.datastore as dsm
    real_os = dsm.os
    bar = threading.Barrier(2, timeout=5)
    seen = set()
    racers = set()

    class _Path:
        def __getattr__(self, k):
            return getattr(real_os.path, k)

        def _hold(self, what):
            me = threading.get_ident()
            if what == barrier_at and me in racers and (what, me) not in seen:
                seen.add((what, me))
                try:
                    bar.wait()
                except threading.BrokenBarrierError:
                    pass

        def exists(self, p):
            r = real_os.path.exists(p)
            self._hold("exists")
            return r

        def isdir(self, p):
            r = real_os.path.isdir(p)
            self._hold("isdir")
            return r

    class _Os:
        path = _Path()

        def __getattr__(self, k):
            return getattr(real_os, k)

    out = {}
    with tempfile.TemporaryDirectory(prefix="c17race_") as td:
        if preexisting_date:
            real_os.mkdir(real_os.path.join(td, "20240101"))
        store = dsm.DataStore(td)
        dsm.os = _Os()
        try:
            def run(i):
                racers.add(threading.get_ident())
                try:
                    f = store.make_folder("lab" if same else "lab%d" % i, date_str="20240101", time_str="120000")
                    out[i] = ("ok", real_os.path.relpath(f.folder_path, td))
                except Exception as e:  # noqa
                    out[i] = ("exc:" + type(e).__name__, None)
            ths = [threading.Thread(target=run, args=(i,), daemon=True) for i in (0, 1)]
            for t in ths:
                t.start()
            for t in ths:
                t.join(WATCHDOG)
        finally:
            dsm.os = real_os
        out["dirs"] = sorted(real_os.listdir(real_os.path.join(td, "20240101"))) if real_os.path.isdir(real_os.path.join(td, "20240101")) else None
    return out


def _race_oracle(same, out):
    oks = [i for i in (0, 1) if out.get(i, ("?",))[0] == "ok"]
    if any(i not in out for i in (0, 1)):
        return ("store:concurrent-make-folder-hangs", f"{out}")
    if same and len(oks) == 2:
        return ("store:same-folder-handed-out-twice", f"two concurrent make_folder('lab', 20240101, 120000) both returned {out[0][1]!r}")
    if same and len(oks) == 0:
        return ("store:concurrent-make-folder-nobody-wins", f"{out}")
    if same and out[1 - oks[0]][0] != "exc:FileExistsError":
        return ("store:concurrent-make-folder-loser-not-told", f"{out}")
    if not same and len(oks) != 2:
        return ("store:concurrent-make-folder-different-labels-refused", f"{out}")
    if any(out[i][1] is not None and os.path.basename(out[i][1]) not in (out["dirs"] or []) for i in oks):
        return ("store:new-folder-not-created", f"{out}")
    return None


def _section_race(ctx: Ctx, res: Result):
    for same in (True, False):
        for barrier_at in ("isdir", "exists", "none"):
            for pre in (False, True):
                out = _race_make_folder(same, barrier_at, pre)
                res.note_case(("race", same, barrier_at, pre))
                res.count("race_scenarios")
                res.count("race_outcome_" + "+".join(sorted(out[i][0] for i in (0, 1) if i in out)))
                o = _race_oracle(same, out)
                if o and not any(f.signature == o[0] for f in res.failures):
                    res.failures.append(Failure(o[0], o[1], {"kind": "race", "same": same, "barrier_at": barrier_at, "pre": pre, "signature": o[0]}))


# ---------------------------------------------------------------------------
# D. HDF5Recorder: real h5py, writer thread line-stepped by the harness
# ---------------------------------------------------------------------------

WATCHDOG = 20.0


class _Hang(Exception):
    pass


def _writer_ast_info():
    """line numbers of the writer's critical section, from the current source of _HDF5RecorderThread.run"""
    src = (core.REPO / "qmi/data/hdf5recorder.py").read_text()
    tree = ast.parse(src)
    run = None
    withs = []
    for node in ast.walk(tree):
        if isinstance(node, ast.ClassDef) and node.name == "_HDF5RecorderThread":
            for f in node.body:
                # the writer loop: the method (run() or a helper it calls) whose `with self._condition:` sits in a loop
                if isinstance(f, ast.FunctionDef) and f.name not in ("record", "set_attribute", "_request_shutdown"):
                    ws = [n for n in ast.walk(f) if isinstance(n, ast.With)
                          and any(isinstance(i.context_expr, ast.Attribute) and i.context_expr.attr == "_condition" for i in n.items)
                          and any(isinstance(l, ast.While) and n in ast.walk(l) for l in ast.walk(f))]
                    if ws:
                        run, withs = f, ws
    if run is None:
        raise RuntimeError("writer loop of _HDF5RecorderThread not found")
    if len(withs) != 1:
        raise RuntimeError(f"expected exactly one `with self._condition:` in the writer loop, found {len(withs)}")
    w = withs[0]
    loops = [n for n in ast.walk(run) if isinstance(n, ast.While) and w in ast.walk(n)]
    if not loops:
        raise RuntimeError("the critical section is not inside a loop")
    return {"with": w.lineno, "cs_last": w.body[-1].lineno, "cs_end": w.end_lineno, "loop": min(l.lineno for l in loops),
            "method": run.name}


class _CoopCond:
    """Stand-in for the recorder thread's `threading.Condition(threading.Lock())`, installed on the instance
    from outside.  Same lock discipline; `wait()` releases the lock, parks the writer at a gate of the stepper
    (so the harness can run client calls while the writer is waiting) and re-acquires.  Returning from wait()
    without a notify is a wake-up by timeout, which the code must (and does) handle by re-testing its predicate."""

    def __init__(self, st):
        self._lock = threading.Lock()
        self._st = st

    def __enter__(self):
        self._lock.acquire()
        return self

    def __exit__(self, *a):
        self._lock.release()

    def acquire(self, *a):
        return self._lock.acquire(*a)

    def release(self):
        self._lock.release()

    def wait(self, timeout=None):
        self._lock.release()
        try:
            self._st.gate_in_wait()
        finally:
            self._lock.acquire()
        return False

    def notify_all(self):
        pass

    def notify(self, n=1):
        pass


class _Stepper:
    """Pauses the writer thread before every source line of run(); the harness grants steps one by one."""

    def __init__(self, code, info, names):
        self.code, self.info, self.names = code, info, names
        self.cv = threading.Condition()
        self.grants = 0
        self.free = False
        self.seq = 0            # number of gate arrivals
        self.done = False
        self.error = None
        self.prev_line = None
        self.phase = "idle"     # idle | flushing | done   (as in the model)
        self.events = []        # (kind, snapshot) appended by the writer thread: 'swap' / 'flush'
        self.thread_obj = None
        self.frozen = None
        self.snap_locals = {"recordings": {}, "new_attributes": {}, "pending_attributes": {}, "quitflag": False}

    # ---- writer side
    def global_trace(self, frame, event, arg):
        if frame.f_code is self.code:
            return self.local_trace
        return None

    def local_trace(self, frame, event, arg):
        if event == "line":
            self.unwinding = False
            self._gate(frame, frame.f_lineno)
        elif event == "exception":
            self.unwinding = True       # cleared by the next line event if the frame handles the exception itself
        elif event == "return":
            if not getattr(self, "unwinding", False):
                self._classify(frame, None)     # regular end of the write loop (an unwinding frame is the model's `crash`)
        return self.local_trace

    def _capture(self, frame):
        loc = frame.f_locals
        self.thread_obj = loc.get("self", self.thread_obj)
        self.snap_locals = {
            "recordings": {k: [list(map(int, b)) for b in v] for k, v in dict(loc.get("recordings") or {}).items()},
            "new_attributes": {k: dict(v) for k, v in dict(loc.get("new_attributes") or {}).items()},
            "pending_attributes": {k: dict(v) for k, v in dict(loc.get("pending_attributes") or {}).items()},
            "quitflag": bool(loc.get("quitflag", False)),
        }

    def _classify(self, frame, line):
        self._capture(frame)
        if self.prev_line == self.info["cs_last"] and self.phase == "idle":
            self.phase = "flushing"
            # what the writer does to its local dictionaries during the flush is internal to the model's atomic
            # `flush`: client calls made meanwhile are compared against the locals as they were at the swap
            self.frozen = dict(self.snap_locals)
            self.events.append(("swap", self.state_line()))
        elif self.phase == "flushing" and (line is None or line <= self.info["with"]) and self.prev_line != self.info["cs_last"]:
            self.phase = "done" if (line is None or self.snap_locals["quitflag"]) and self.snap_locals["quitflag"] else "idle"
            self.events.append(("flush", self.state_line()))
        self.prev_line = line

    def _gate(self, frame, line):
        self._classify(frame, line)
        with self.cv:
            self.seq += 1
            self.cv.notify_all()
            while not self.free and self.grants == 0:
                if not self.cv.wait(WATCHDOG):
                    raise _Hang("writer not resumed")
            if not self.free:
                self.grants -= 1

    def gate_in_wait(self):
        """the writer is inside Condition.wait(): lock released, parked until the harness grants a step"""
        with self.cv:
            self.seq += 1
            self.cv.notify_all()
            while not self.free and self.grants == 0:
                if not self.cv.wait(WATCHDOG):
                    raise _Hang("writer not resumed from wait()")
            if not self.free:
                self.grants -= 1
            else:
                _time.sleep(0.0005)

    # ---- canonical state (same format as the model driver's showRec)
    def _bm(self, m):
        return ";".join(f"{self.names[k]}:" + "|".join(".".join(map(str, b)) for b in m[k]) for k in sorted(m, key=lambda x: self.names[x]) if m[k])

    def _am(self, m):
        return ";".join(f"{self.names[k]}:" + ",".join(f"{a[1:]}={v}" for a, v in sorted(m[k].items(), key=lambda x: int(x[0][1:])))
                        for k in sorted(m, key=lambda x: self.names[x]))

    def state_line(self):
        t = self.thread_obj
        shared = {k: [list(map(int, b)) for b in v] for k, v in dict(t._recordings).items()} if t is not None else {}
        sattrs = {k: dict(v) for k, v in dict(t._attributes).items()} if t is not None else {}
        sd = bool(t._shutdown_requested) if t is not None else False
        L = self.frozen if (self.phase in ("flushing", "failed") and self.frozen is not None) else self.snap_locals
        return ("S{%s} K%d A{%s} L{%s} N{%s} P{%s} sd%d q%d %s" % (
            self._bm(shared), len(shared), self._am(sattrs), self._bm(L["recordings"]), self._am(L["new_attributes"]),
            self._am(L["pending_attributes"]), int(sd), int(L["quitflag"]), self.phase))

    # ---- harness side
    def wait_gate(self, old_seq):
        with self.cv:
            while self.seq == old_seq and not self.done:
                if not self.cv.wait(WATCHDOG):
                    raise _Hang("writer did not reach the next line")

    def step(self):
        """let the writer execute one source line; returns False when the thread has finished"""
        with self.cv:
            if self.done:
                return False
            old = self.seq
            self.grants += 1
            self.cv.notify_all()
        self.wait_gate(old)
        return not self.done

    def release(self):
        with self.cv:
            self.free = True
            self.cv.notify_all()


def _handover_obligation():
    """source obligation: the hand-over fields of _HDF5RecorderThread (attributes assigned in __init__ and touched both
    by the writer loop and by the public methods) are only read or written inside `with self._condition:`.
    Returns (fields, list of violations)."""
    src = (core.REPO / "qmi/data/hdf5recorder.py").read_text()
    tree = ast.parse(src)
    cls = [n for n in ast.walk(tree) if isinstance(n, ast.ClassDef) and n.name == "_HDF5RecorderThread"][0]
    meths = {f.name: f for f in cls.body if isinstance(f, ast.FunctionDef)}

    def touched(f):
        return {n.attr for n in ast.walk(f) if isinstance(n, ast.Attribute) and isinstance(n.value, ast.Name) and n.value.id == "self"}
    init = meths.get("__init__")
    assigned = {t.attr for n in ast.walk(init) if isinstance(n, (ast.Assign, ast.AnnAssign))
                for t in (n.targets if isinstance(n, ast.Assign) else [n.target])
                if isinstance(t, ast.Attribute) and isinstance(t.value, ast.Name) and t.value.id == "self"} if init else set()
    loop = _writer_ast_info()["method"]
    writer_side = touched(meths[loop]) | (touched(meths["run"]) if "run" in meths else set())
    public = [m for m in meths if m not in ("__init__", "run", loop, "_request_shutdown")]
    client_side = set().union(*[touched(meths[m]) for m in public]) if public else set()
    fields = sorted((assigned & writer_side & client_side) - {"_condition"})
    bad = []

    def walk(node, locked, mname):
        if isinstance(node, ast.With) and any(isinstance(i.context_expr, ast.Attribute) and i.context_expr.attr == "_condition" for i in node.items):
            for c in node.body:
                walk(c, True, mname)
            return
        if isinstance(node, ast.Attribute) and isinstance(node.value, ast.Name) and node.value.id == "self" and node.attr in fields and not locked:
            bad.append(f"{mname}: self.{node.attr} at line {node.lineno} is accessed outside `with self._condition:`")
        for c in ast.iter_child_nodes(node):
            walk(c, locked, mname)
    for m, f in meths.items():
        if m != "__init__":
            walk(f, False, m)
    return fields, bad


class _ProducerGate:
    """runs one client call (record / set_attribute) in a producer thread and parks it before its `index`-th source
    line, provided the producer does not hold the condition lock there (parking inside the lock would only block
    the writer, which the lock forbids anyway)"""

    def __init__(self, codes, index, lock):
        self.codes, self.index, self.lock = codes, index, lock
        self.cv = threading.Condition()
        self.count = 0
        self.parked = False
        self.go = False
        self.finished = False
        self.exc = None
        self.holds_lock = False

    def _global(self, frame, event, arg):
        return self._local if frame.f_code in self.codes else None

    def _local(self, frame, event, arg):
        if event == "line":
            i = self.count
            self.count += 1
            if i == self.index and not self.go and not self._mine_locked(frame):
                with self.cv:
                    self.parked = True
                    self.cv.notify_all()
                    while not self.go:
                        if not self.cv.wait(WATCHDOG):
                            raise _Hang("producer not resumed")
                    self.parked = False
        return self._local

    def _mine_locked(self, frame):
        # the producer holds the lock iff the lock is taken while the writer is parked outside its critical section;
        # decided by the harness through `holds_lock_probe`
        return self.holds_lock_probe() if hasattr(self, "holds_lock_probe") else False

    def run(self, fn):
        def body():
            sys.settrace(self._global)
            try:
                fn()
            except BaseException as e:  # noqa
                self.exc = e
            finally:
                sys.settrace(None)
                with self.cv:
                    self.finished = True
                    self.cv.notify_all()
        self.thread = threading.Thread(target=body, daemon=True)
        self.thread.start()

    def wait_parked_or_finished(self):
        with self.cv:
            while not (self.parked or self.finished):
                if not self.cv.wait(WATCHDOG):
                    raise _Hang("producer neither parked nor finished")

    def release(self):
        with self.cv:
            self.go = True
            self.cv.notify_all()


def _run_recorder(scn: dict):
    """scn = {"keep_open": bool, "schedule": [ ["W", n] | ["rec", d, [vals]] | ["recbuf", d, [vals], buf, off] |
    ["mut", buf] | ["attr", d, k, v] | ["close"] ]}
    `recbuf`: the caller fills a slice of one of its own reusable ndarrays (a ring buffer) and passes that VIEW to
    record(); `mut`: the caller overwrites that whole buffer afterwards.  record() must have taken a snapshot.
    Returns dict(lines, outs, file, recorded, attrs_expected, error)."""
    import h5py
    import numpy as np
    import qmi.data.hdf5recorder as hr
    info = _writer_ast_info()
    orig_run = hr._HDF5RecorderThread.run
    names = {f"d{i}": i for i in range(8)}
    st = _Stepper(getattr(hr._HDF5RecorderThread, info["method"]).__code__, info, names)

    def traced_run(self):
        st.thread_obj = self
        sys.settrace(st.global_trace)
        try:
            orig_run(self)
        except _Hang as e:
            st.error = "hang:" + str(e)
        except BaseException as e:  # noqa
            st.error = "writer-exception:" + type(e).__name__ + ":" + str(e)[:80]
            # the write loop ended with an exception: the model's `crash`
            crashed_in = st.phase
            st.phase = "failed"
            st.events.append(("crash" if crashed_in == "flushing" else "crash-outside-flush", st.state_line()))
        finally:
            sys.settrace(None)
            with st.cv:
                st.done = True
                st.cv.notify_all()

    lines, outs = ["r init"], ["ok"]
    buffers = {b: np.zeros(8, dtype=np.int64) for b in range(3)}
    recorded: dict = {}
    attrs_exp: dict = {}
    result = {"error": None}

    def drain_events():
        while st.events:
            kind, snap = st.events.pop(0)
            lines.append("r " + kind)
            outs.append(snap)

    pending_call = None

    def _log_call(kind, args):
        # a producer's call has returned: it counts as made (the block was passed to the recorder before close())
        if kind == "rec":
            d, vals = args
            recorded.setdefault(d, []).extend(vals)
            lines.append(f"r rec {d} " + (",".join(map(str, vals)) or "-"))
        else:
            d, k, v = args
            attrs_exp.setdefault(d, {})[k] = v
            lines.append(f"r attr {d} {k} {v}")
        outs.append(st.state_line())

    real_h5py = hr.h5py
    opens = [0]

    class _H5:     # I/O fault injection: the `fail_open`-th h5py.File() call of the writer raises OSError
        def __getattr__(self, k):
            return getattr(real_h5py, k)

        def File(self, *a, **kw):
            opens[0] += 1
            if scn.get("fail_open") is not None and opens[0] - 1 == scn["fail_open"]:
                raise OSError("injected: unable to open file")
            return real_h5py.File(*a, **kw)

    old_hook = threading.excepthook
    with tempfile.TemporaryDirectory(prefix="c17r_") as td:
        fn = os.path.join(td, "rec.h5")
        hr._HDF5RecorderThread.run = traced_run
        hr.h5py = _H5()
        threading.excepthook = lambda args: None
        rec = None
        try:
            rec = hr.HDF5Recorder(fn, write_interval=0.001, keep_open=bool(scn.get("keep_open")))
            thread = rec._recorder_thread
            st.wait_gate(0)
            # the writer is parked before its first statement and has not touched the condition yet
            thread._condition = _CoopCond(st)
            closed = False
            for item in scn["schedule"]:
                if item[0] == "W":
                    for _ in range(item[1]):
                        alive = st.step()
                        drain_events()
                        if not alive:
                            break
                elif item[0] == "pcall":
                    # a client call made by a producer thread, parked before its item[3]-th source line
                    _, kind, args, idx = item
                    guard = 0
                    while thread._condition._lock.locked() and st.step():     # start it while the writer is outside its CS
                        drain_events()
                        guard += 1
                        if guard > 2000:
                            raise _Hang("writer never releases the lock")
                    writer_locked = [False]
                    pg = _ProducerGate({hr._HDF5RecorderThread.record.__code__, hr._HDF5RecorderThread.set_attribute.__code__}, idx,
                                       thread._condition._lock)
                    pg.holds_lock_probe = lambda: thread._condition._lock.locked() and not writer_locked[0]
                    if kind == "rec":
                        d, vals = args
                        arr = np.array(vals, dtype=np.int64)
                        pg.run(lambda: rec.record(f"d{d}", arr))
                    else:
                        d, k, v = args
                        pg.run(lambda: rec.set_attribute(f"d{d}", f"k{k}", v))
                    pg.wait_parked_or_finished()
                    pending_call = (pg, kind, args)
                    if pg.finished:
                        pending_call = None
                        _log_call(kind, args)
                elif item[0] == "go":
                    if pending_call is not None:
                        pg, kind, args = pending_call
                        pending_call = None
                        pg.release()
                        t0 = _time.monotonic()
                        while not pg.finished:
                            # the producer may now wait for the lock the (parked) writer holds: let the writer move on
                            if thread._condition._lock.locked() and not st.done:
                                st.step()
                                drain_events()
                            else:
                                _time.sleep(0.0005)
                            if _time.monotonic() - t0 > WATCHDOG:
                                raise _Hang("producer call does not return")
                        if pg.exc is not None:
                            result["error"] = "client-call-raised:" + type(pg.exc).__name__
                        _log_call(kind, args)
                elif item[0] == "mut":
                    buffers[item[1]][:] = -7          # the caller reuses its buffer; no recorder call
                    if thread._condition._lock.locked():
                        lines.append("r mut!")        # writer half-way through its swap: dictionaries not comparable
                        outs.append("ok")
                    else:
                        lines.append("r mut")
                        outs.append(st.state_line())
                elif item[0] in ("rec", "recbuf", "attr"):
                    # a client call takes the condition lock: let the writer leave its critical section first
                    guard = 0
                    while thread._condition._lock.locked() and st.step():
                        drain_events()
                        guard += 1
                        if guard > 2000:
                            raise _Hang("writer never releases the lock")
                    if item[0] == "recbuf":
                        _, d, vals, b, off = item
                        view = buffers[b][off:off + len(vals)]
                        view[:] = vals
                        rec.record(f"d{d}", view)
                        recorded.setdefault(d, []).extend(vals)
                        lines.append(f"r rec {d} " + (",".join(map(str, vals)) or "-"))
                    elif item[0] == "rec":
                        _, d, vals = item
                        rec.record(f"d{d}", np.array(vals, dtype=np.int64))
                        recorded.setdefault(d, []).extend(vals)
                        lines.append(f"r rec {d} " + (",".join(map(str, vals)) or "-"))
                    else:
                        _, d, k, v = item
                        rec.set_attribute(f"d{d}", f"k{k}", v)
                        attrs_exp.setdefault(d, {})[k] = v
                        lines.append(f"r attr {d} {k} {v}")
                    outs.append(st.state_line())
                elif item[0] == "close":
                    if pending_call is not None:
                        raise RuntimeError("schedule closes with a producer call still parked (missing 'go')")
                    closed = True
                    box = {}

                    def closer():
                        try:
                            rec.close()
                        except BaseException as e:  # noqa
                            box["exc"] = e
                    th = threading.Thread(target=closer, daemon=True)
                    th.start()
                    t0 = _time.monotonic()
                    while not thread._shutdown_requested and _time.monotonic() - t0 < WATCHDOG:
                        _time.sleep(0.0002)
                    if thread._condition._lock.locked():
                        # the writer is parked inside its critical section (half-way through the swap):
                        # the intermediate dictionaries have no counterpart in the model's atomic `swap`
                        lines.append("r shutdown!")
                        outs.append("ok")
                    else:
                        lines.append("r shutdown")
                        outs.append(st.state_line())
                    st.release()
                    th.join(WATCHDOG)
                    if th.is_alive():
                        raise _Hang("close() does not return")
                    drain_events()
                    result["close"] = ("exc:" + type(box["exc"]).__name__) if "exc" in box else "ok"
                    lines.append("r close")
                    outs.append(result["close"])
                    break
            if not closed:
                raise RuntimeError("schedule without close")
            result["crashed"] = bool(st.error and st.error.startswith("writer-exception:OSError:injected"))
            if st.error and not result["crashed"]:
                result["error"] = st.error
            elif result.get("close") != "ok" and not result["crashed"]:
                result["error"] = "close-raised:" + str(result.get("close"))
            file_state = {}
            if os.path.exists(fn):
                with h5py.File(fn, "r") as f:
                    for k in f:
                        file_state[names.get(k, k)] = ([int(x) for x in f[k][:]], {int(a[1:]): int(v) for a, v in f[k].attrs.items()})
            lines.append("r file")
            outs.append(";".join(f"{d}:" + ".".join(map(str, file_state[d][0])) + "[" + ",".join(f"{a}={v}" for a, v in sorted(file_state[d][1].items())) + "]"
                                 for d in sorted(file_state) if file_state[d][0]) or "-")
            result.update(file=file_state)
            # life cycle after close(): a further record() must not be accepted silently (its data can never reach
            # the file); a second close() may raise or do nothing, but must not touch the file
            post = {}
            try:
                rec.record("d0", np.array([999999], dtype=np.int64))
                post["record"] = "accepted"
            except Exception as e:  # noqa
                post["record"] = "exc:" + type(e).__name__
            try:
                rec.close()
                post["close"] = "accepted"
            except Exception as e:  # noqa
                post["close"] = "exc:" + type(e).__name__
            after = {}
            if os.path.exists(fn):
                with h5py.File(fn, "r") as f:
                    for k in f:
                        after[names.get(k, k)] = [int(x) for x in f[k][:]]
            post["file_unchanged"] = after == {k: v[0] for k, v in file_state.items()}
            result["post"] = post
        except _Hang as e:
            result["error"] = "hang:" + str(e)
        finally:
            hr._HDF5RecorderThread.run = orig_run
            hr.h5py = real_h5py
            threading.excepthook = old_hook
            if pending_call is not None:
                pending_call[0].release()
            st.release()
            if rec is not None and getattr(rec, "_recorder_thread", None) is not None:
                try:
                    rec._recorder_thread._shutdown_requested = True
                except Exception:  # noqa
                    pass
    result.update(lines=lines, outs=outs, recorded=recorded, attrs_expected=attrs_exp)
    return result


def _recorder_oracle(r: dict):
    """every block passed to record() before close() is in the file afterwards, once and in recording order"""
    if r.get("error"):
        kind = r["error"].split(":")[0]
        return (f"recorder:{kind}", r["error"])
    file = r.get("file", {})
    post = r.get("post") or {}
    if r.get("crashed"):
        # the writer met an I/O error: data may be missing, but then close() must say so; nothing may be duplicated
        missing = {d: [x for x in vals if x not in file.get(d, ([], {}))[0]] for d, vals in r["recorded"].items()}
        missing = {d: m for d, m in missing.items() if m}
        if missing and r.get("close") == "ok":
            return ("recorder:writer-error-not-reported-at-close",
                    f"the writer thread died on an I/O error; blocks {missing} are not in the file, close() returned normally")
        for d, (vals, _) in file.items():
            if vals != r["recorded"].get(d, [])[:len(vals)]:
                return ("recorder:blocks-out-of-order", f"dataset d{d}: recorded {r['recorded'].get(d)}, file {vals}")
        if post.get("record") == "accepted":
            return ("recorder:record-after-close-accepted-silently", "record() after close() returned normally")
        return None
    if post.get("record") == "accepted":
        return ("recorder:record-after-close-accepted-silently", "record() after close() returned normally; the block is not in the file")
    if post and not post.get("file_unchanged", True):
        return ("recorder:file-changed-after-close", f"file differs after record()/close() on a closed recorder: {post}")
    for d, vals in sorted(r["recorded"].items()):
        got = file.get(d, ([], {}))[0]
        if got == vals:
            continue
        if sorted(got) == sorted(vals):
            return ("recorder:blocks-out-of-order", f"dataset d{d}: recorded {vals}, file {got}")
        miss = [x for x in vals if x not in got]
        if miss:
            return ("recorder:blocks-lost", f"dataset d{d}: recorded {vals}, file {got} (missing {miss})")
        return ("recorder:blocks-duplicated", f"dataset d{d}: recorded {vals}, file {got}")
    for d in file:
        if d not in r["recorded"] and file[d][0]:
            return ("recorder:unrecorded-data-in-file", f"dataset {d}: {file[d][0]}")
    # attributes set before close() on a dataset that received data: last value wins
    for d, exp in sorted(r["attrs_expected"].items()):
        if r["recorded"].get(d) and file.get(d, ([], {}))[1] != exp:
            return ("recorder:attributes-lost", f"dataset d{d}: set {exp}, file {file.get(d, ([], {}))[1]}")
    return None


def _run_recorder_fault(kind: str, keep_open: bool, fail_at: int = 0):
    """the writer thread meets an I/O error: `nodir` = the target directory does not exist; `open-fails` = the
    `fail_at`-th h5py.File() call of the writer raises OSError (free-running writer, real time only to let flush
    cycles happen; the verdict does not depend on timing: blocks missing from the file AND close() silent)"""
    import h5py
    import numpy as np
    import qmi.data.hdf5recorder as hr
    real_h5py = hr.h5py
    calls = [0]

    class _H5:
        def __getattr__(self, k):
            return getattr(real_h5py, k)

        def File(self, *a, **kw):
            calls[0] += 1
            if kind == "open-fails" and calls[0] - 1 == fail_at:
                raise OSError("injected: unable to open file")
            return real_h5py.File(*a, **kw)

    old_hook = threading.excepthook
    out = {"closed": None, "recorded": [], "file": []}
    with tempfile.TemporaryDirectory(prefix="c17rf_") as td:
        fn = os.path.join(td, "missing_dir" if kind == "nodir" else "", "rec.h5")
        threading.excepthook = lambda args: None
        hr.h5py = _H5()
        try:
            rec = hr.HDF5Recorder(fn, write_interval=0.002, keep_open=keep_open)
            for i in range(4):
                rec.record("d0", np.array([50 + i], dtype=np.int64))
                out["recorded"].append(50 + i)
                t0 = _time.monotonic()
                while rec._recorder_thread.is_alive() and rec._recorder_thread._recordings and _time.monotonic() - t0 < 2.0:
                    _time.sleep(0.002)
            try:
                rec.close()
                out["closed"] = "ok"
            except Exception as e:  # noqa
                out["closed"] = "exc:" + type(e).__name__
        finally:
            hr.h5py = real_h5py
            threading.excepthook = old_hook
        if os.path.exists(fn):
            with h5py.File(fn, "r") as f:
                out["file"] = [int(x) for x in f["d0"][:]] if "d0" in f else []
    return out


def _fault_oracle(out):
    missing = [x for x in out["recorded"] if x not in out["file"]]
    if missing and out["closed"] == "ok":
        return ("recorder:writer-error-not-reported-at-close",
                f"the writer thread died on an I/O error; blocks {missing} of {out['recorded']} are not in the file, close() returned normally")
    if not missing and out["file"] != out["recorded"]:
        return ("recorder:blocks-out-of-order", f"recorded {out['recorded']}, file {out['file']}")
    return None


def _section_recorder_faults(ctx: Ctx, res: Result):
    for kind, keep, at in (("nodir", False, 0), ("nodir", True, 0), ("open-fails", False, 0), ("open-fails", False, 1),
                           ("open-fails", False, 2), ("open-fails", True, 0), ("open-fails", False, 99)):
        out = _run_recorder_fault(kind, keep, at)
        res.note_case(("rec-fault", kind, keep, at))
        res.count("rec_fault_scenarios")
        res.count("rec_fault_close_" + str(out["closed"]))
        o = _fault_oracle(out)
        if o and not any(f.signature == o[0] for f in res.failures):
            res.failures.append(Failure(o[0], o[1] + f" [{kind}, keep_open={keep}, failing open #{at}]",
                                        {"kind": "rec-fault", "fault": kind, "keep_open": keep, "fail_at": at, "signature": o[0]}))


def _gen_rec_schedule(rng, serial_base=100):
    sched = []
    tag = serial_base
    nops = rng.randint(1, 8)
    wmax = rng.choice([3, 10, 30, 60])
    for _ in range(nops):
        if rng.random() < 0.7:
            sched.append(["W", rng.choice([0, 0, 1, 2, rng.randint(0, wmax), rng.randint(0, wmax)])])
        if rng.random() < 0.72:
            n = rng.choice([0, 1, 1, 2, 3])
            if rng.random() < 0.45:     # through a reused caller-side buffer (view of a ring buffer)
                sched.append(["recbuf", rng.choice([0, 0, 1, 2]), list(range(tag, tag + n)), rng.choice([0, 0, 1]), rng.choice([0, 0, 2, 5])])
                if rng.random() < 0.5:
                    sched.append(["W", rng.choice([0, 1, rng.randint(0, wmax)])])
                    sched.append(["mut", sched[-2][3]])
            else:
                sched.append(["rec", rng.choice([0, 0, 1, 2]), list(range(tag, tag + n))])
            tag += n
        else:
            sched.append(["attr", rng.choice([0, 0, 1, 3]), rng.choice([0, 1]), rng.randint(0, 99)])
    if rng.random() < 0.7:
        sched.append(["W", rng.randint(0, wmax)])
    sched.append(["close"])
    return {"keep_open": rng.random() < 0.5, "schedule": sched}


def _sweep_rec_schedules(kmax: int, stride: int = 1):
    """one flush cycle in progress, a second client call / close placed after k writer lines, for every k"""
    out = []
    for keep in (False, True):
        for k in range(0, kmax, stride):
            # the caller's buffer is overwritten / refilled and recorded again k writer lines after record() returned
            out.append({"keep_open": keep, "schedule": [["recbuf", 0, [10, 11], 0, 0], ["W", k], ["mut", 0], ["W", 3],
                                                        ["recbuf", 0, [40], 0, 1], ["close"]]})
            out.append({"keep_open": keep, "schedule": [["recbuf", 0, [10, 11], 0, 0], ["W", k], ["recbuf", 0, [20, 21], 0, 0], ["W", 2],
                                                        ["recbuf", 1, [30, 31], 0, 1], ["mut", 0], ["close"]]})
            for second in (["rec", 0, [20, 21]], ["rec", 1, [30]], ["attr", 0, 1, 7], None):
                sched = [["attr", 0, 0, 5], ["rec", 0, [10, 11]], ["W", k]]
                if second is not None:
                    sched.append(second)
                    sched.append(["W", 3])
                    sched.append(["rec", 0, [40]])
                sched.append(["close"])
                out.append({"keep_open": keep, "schedule": sched})
    return out


def _fixed_rec_schedules():
    """multi-cycle schedules: attributes for an existing dataset in cycles where only another dataset gets data,
    re-set later (a stale queued value must never come back); attributes before the dataset exists; same op twice"""
    C = 70   # more writer lines than one full cycle
    out = []
    for keep in (False, True):
        out.append({"keep_open": keep, "schedule": [
            ["rec", 0, [1]], ["W", C], ["attr", 0, 0, 1], ["rec", 1, [2]], ["W", C], ["attr", 0, 0, 2], ["rec", 1, [3]], ["W", C],
            ["rec", 1, [4]], ["W", C], ["rec", 1, [5]], ["W", C], ["rec", 1, [6]], ["W", C], ["close"]]})
        out.append({"keep_open": keep, "schedule": [
            ["attr", 2, 0, 7], ["attr", 2, 1, 8], ["rec", 0, [1]], ["W", C], ["attr", 2, 0, 9], ["rec", 0, [2]], ["W", C],
            ["rec", 2, [3]], ["W", C], ["attr", 2, 1, 10], ["rec", 0, [4]], ["W", C], ["rec", 0, [5]], ["W", C], ["close"]]})
        out.append({"keep_open": keep, "schedule": [
            ["rec", 0, [1, 2]], ["rec", 0, [1, 2]], ["attr", 0, 0, 5], ["attr", 0, 0, 5], ["W", C], ["rec", 0, []], ["W", C],
            ["attr", 0, 0, 6], ["close"]]})
        out.append({"keep_open": keep, "schedule": [["close"]]})
        for k in (0, 1, 2):
            # the k-th open of the HDF5 file fails: everything written before stays, close() must raise
            out.append({"keep_open": keep, "fail_open": k, "schedule": [
                ["rec", 0, [1]], ["W", C], ["rec", 0, [2]], ["rec", 1, [3]], ["W", C], ["attr", 0, 0, 5], ["rec", 0, [4]], ["W", C],
                ["rec", 1, [6]], ["close"]]})
            out.append({"keep_open": keep, "fail_open": k, "schedule": [["rec", 0, [1, 2]], ["close"]]})
        out.append({"keep_open": keep, "schedule": [["attr", 0, 0, 1], ["W", C], ["W", C], ["close"]]})
    return out


def _handover_sweep_schedules(nrec_lines: int = 10, nwriter: int = 14):
    """producer / writer hand-over: a producer thread is parked before every source line of record() / set_attribute()
    while the writer is at every position of its wait-test / swap section, then the writer runs complete cycles
    (swap, flush, clear) before the producer goes on"""
    C = 70
    out = []
    for i in range(nrec_lines):
        for k in range(nwriter):
            out.append({"keep_open": False, "schedule": [["rec", 0, [1]], ["W", k], ["pcall", "rec", [0, [2, 3]], i], ["W", C], ["go"],
                                                        ["W", 5], ["rec", 0, [4]], ["close"]]})
        for keep in (False, True):
            out.append({"keep_open": keep, "schedule": [["rec", 0, [1]], ["W", C], ["pcall", "rec", [0, [2]], i], ["W", C], ["W", C], ["go"],
                                                        ["pcall", "rec", [1, [5]], i], ["W", C], ["go"], ["close"]]})
            out.append({"keep_open": keep, "schedule": [["rec", 0, [1]], ["pcall", "attr", [0, 0, 9], i], ["W", C], ["go"], ["W", C],
                                                        ["pcall", "attr", [0, 0, 8], i], ["rec", 0, [2]], ["W", C], ["go"], ["close"]]})
            out.append({"keep_open": keep, "schedule": [["pcall", "rec", [0, [7]], i], ["go"], ["pcall", "rec", [0, [8]], i], ["W", 9], ["go"], ["close"]]})
    return out


def _shrink_rec(scn: dict, sig: str) -> dict:
    sched = list(scn["schedule"])
    i = 0
    while i < len(sched) - 1:
        cand = {**scn, "schedule": sched[:i] + sched[i + 1:]}
        try:
            o = _recorder_oracle(_run_recorder(cand))
        except Exception:  # noqa  (e.g. a 'go' removed while its producer call is still parked)
            o = None
        if o and o[0] == sig:
            sched = cand["schedule"]
        else:
            i += 1
    return {**scn, "schedule": sched}


def _section_recorder(ctx: Ctx, res: Result, n_random: int, use_model=True, kmax=70, stride=1):
    rng = ctx.rng
    scns = _fixed_rec_schedules() + _handover_sweep_schedules() + _sweep_rec_schedules(kmax, stride) + \
        [_gen_rec_schedule(rng) for _ in range(n_random)]
    all_lines, all_outs, spans = [], [], []
    for i, scn in enumerate(scns):
        r = _run_recorder(scn)
        spans.append((len(all_lines), len(r["lines"]), scn))
        all_lines += r["lines"]
        all_outs += r["outs"]
        nsw = sum(1 for l in r["lines"] if l == "r swap")
        res.note_case(("rec", repr(scn)), nontrivial=nsw >= 1 and len(r["recorded"]) > 0)
        res.count("rec_scenarios")
        for k_, v_ in (r.get("post") or {}).items():
            res.count(f"rec_after_close_{k_}_{v_}")
        res.count("rec_flush_cycles", nsw)
        res.count("rec_scenarios_client_call_between_swap_and_flush",
                  1 if any(a == "r swap" and b.startswith(("r rec", "r attr")) for a, b in zip(r["lines"], r["lines"][1:])) else 0)
        res.count("rec_scenarios_caller_buffer_overwritten_or_reused",
                  1 if any(it[0] == "mut" for it in scn["schedule"]) or sum(1 for it in scn["schedule"] if it[0] == "recbuf") > 1 else 0)
        res.count("rec_scenarios_close_during_flush",
                  1 if any(a == "r swap" and b.startswith("r shutdown") for a, b in zip(r["lines"], r["lines"][1:])) else 0)
        if i in (5, len(scns) - 1):
            res.sample({"recorder_schedule": scn, "event_log": r["lines"][:14]})
        o = _recorder_oracle(r)
        if o and not any(f.signature == o[0] for f in res.failures):
            small = _shrink_rec(scn, o[0])
            o2 = _recorder_oracle(_run_recorder(small)) or o
            res.failures.append(Failure(o[0], o2[1] + f" [schedule {small['schedule']}, keep_open={small['keep_open']}]",
                                        {"kind": "recorder", "scn": small, "signature": o[0]}))
    if use_model:
        model = LeanDriver("drv_c17").run(all_lines)
        res.traces_validated += len(spans)
        k = diff_streams(all_lines, all_outs, model)
        if k is not None:
            for (start, ln, scn) in spans:
                if start <= k < start + ln:
                    res.broken.append(Broken("correspondence", "Recorder model vs hdf5recorder.py (trace refinement)",
                                             f"event {k - start}: {all_lines[k]!r}\n impl ={all_outs[k]!r}\n model={model[k]!r}\n log={all_lines[start:k + 1]}",
                                             case={"kind": "recorder", "scn": scn}))
                    break


# ---------------------------------------------------------------------------
# the check
# ---------------------------------------------------------------------------

class C17(Prop):
    id = "C17"
    lean_modules = ["QmiModel.Props.C17"]
    driver = "drv_c17"
    modelled_not_verified = [
        "h5py (attribute storage, dimension scales, file modes 'x'/'w'/'a', resize/append) and the HDF5 library",
        "numpy.savetxt('%.18e') / numpy.loadtxt / reshape / tile / repeat / column_stack (model: flat row-major lists; differentially checked on tagged arrays)",
        "the file system (model: finite map of names; open(...,'x') and os.mkdir atomic)",
        "CPython repr()/float()/int() (float literals are opaque in the model; float()/int() on non-ASCII digits and spaces is outside the model's grammar)",
        "str.isprintable() is an abstract parameter of the model (the harness passes CPython's answer per character)",
        "regexes of datastore.py / dataset.py re-implemented as functions (differentially checked, including the `$`-before-newline quirk)",
        "time.strftime / localtime (the harness passes the derived date and time codes to the model)",
        "recorder: atomicity of the `with self._condition:` block and of record()/set_attribute() is taken from the lock; the writer is "
        "line-stepped with sys.settrace and its Condition is replaced from outside by a cooperative one with the same lock discipline",
    ]
    extra_trusted = [
        "float.__repr__ always has the shape recognised by isFloatRepr (checked on every generated float by the attribute correspondence)",
    ]

    def correspondence(self, ctx: Ctx) -> Result:
        res = Result(rule="A: generated str/int/float/numpy-scalar values and malformed texts through repr/_parse_attribute_value; "
                          "B: generated DataSets (2-4 axes, 5 dtypes, labels/units/attribute strings over a wide alphabet, scales, "
                          "str/int/float attributes) x 7 write/read/conversion paths through DataFolder, plus tagged layout probes "
                          "(all shapes with sizes 1..3 first) and HDF5 attribute-map probes; C: random write / make_folder / "
                          "find_latest histories on a real temp dir; D: recorder schedules = client calls interleaved with "
                          "single-source-line steps of the writer thread (sweep: second call / close after k lines for every k, "
                          "then random).  non-trivial = at least one stage completed / both arrivals and a flush cycle / history "
                          "longer than 2 ops; distinct by the full input")
        ctx.log("A attribute values")
        _section_attr(ctx, res, ctx.scale(600, 6000), ctx.scale(3000, 60000))
        ctx.log("B datasets")
        _section_datasets(ctx, res, ctx.scale(110, 1500))
        _section_layout_h5map(ctx, res, ctx.scale(120, 1200), ctx.scale(150, 1500))
        ctx.log("C store histories")
        _section_store(ctx, res, ctx.scale(150, 2500), ctx.scale(200, 3000))
        _section_exact(ctx, res, ctx.scale(300, 5000))
        _section_api(ctx, res, ctx.scale(400, 6000))
        _section_race(ctx, res)
        ctx.log("D recorder")
        fields, viol = _handover_obligation()
        res.extra["recorder_handover_fields"] = fields
        res.count("recorder_handover_fields", len(fields))
        if viol or not fields:
            res.broken.append(Broken("source-obligation", "hand-over fields of _HDF5RecorderThread only under `with self._condition:`",
                                     "\n".join(viol) or "no hand-over field found", case={"kind": "handover-obligation"}))
        _section_recorder(ctx, res, ctx.scale(500, 9000), kmax=ctx.scale(70, 90))
        _section_recorder_faults(ctx, res)
        return res

    def search(self, ctx: Ctx, broken) -> Result:
        """oracle only (no model): disagreeing cases first, then systematic sweeps"""
        import itertools
        from qmi.data.datastore import DataFolder
        res = Result()
        for b in broken:
            c = b.case or {}
            try:
                f = self.replay(ctx, c) if c.get("kind") in ("dataset", "folder", "store", "recorder") else None
            except Exception:  # noqa
                f = None
            res.note_case(("case", repr(c)[:200]))
            if f:
                res.failures.append(f)
        # datasets: every small shape x scale pattern x path, tagged data, a few label/attribute variants
        with tempfile.TemporaryDirectory(prefix="c17se_") as td:
            folder = DataFolder(td, None, None, None)
            n = 0
            for k in (1, 2, 3):
                for dims in itertools.product((1, 2, 3), repeat=k):
                    for ncol in (1, 2):
                        for flags in itertools.product((0, 1), repeat=k):
                            n += 1
                            cnt = 1
                            for d in dims:
                                cnt *= d
                            spec = {"name": "se%d" % n, "shape": list(dims) + [ncol], "dtype": "float64" if n % 2 else "int32",
                                    "data": [float(i) + 0.5 if n % 2 else i for i in range(cnt * ncol)], "ts": "12.5",
                                    "axis_label": [[97 + i] if (n + i) % 2 else [] for i in range(k)], "axis_unit": [[] for _ in range(k)],
                                    "col_label": [[99] for _ in range(ncol)], "col_unit": [[117, 39] if n % 3 == 0 else [] for _ in range(ncol)],
                                    "scales": [{"dtype": "float64", "v": [10.0 * (ax + 1) + i for i in range(dims[ax])]} if flags[ax] else None for ax in range(k)],
                                    "attrs": [[[107], {"t": "i", "v": str(n)}], [[115], {"t": "s", "v": [120, 39, 34, 92]}]]}
                            for pi, path in enumerate(("hdf5", "text", "text>hdf5", "hdf5>norm>text", "hdf5>norm>text>hdf5")):
                                fnd, _ = _run_path(folder, spec, path, "_q%d" % pi)
                                res.note_case(("sweep-ds", n, path))
                                for sig, summary in fnd:
                                    if not any(f.signature == sig for f in res.failures):
                                        res.failures.append(Failure(sig, summary, {"kind": "dataset", "spec": spec, "path": path, "signature": sig}))
        sub = Result()
        _section_datasets(ctx, sub, 150, use_model=False)
        # overwrite: every history of <= 3 writes over 2 names x 2 formats x overwrite flag
        ws = [["write", nm, fmt, ow, 0, 0] for nm in ("a", "b") for fmt in ("h", "t") for ow in (0, 1)]
        for L in (1, 2, 3):
            for hist in itertools.product(ws, repeat=L):
                ops = [list(w[:5]) + [i + 1] for i, w in enumerate(hist)]
                if L == 3 and len({(o[1], o[2]) for o in ops}) == 3:
                    continue
                bad = _run_folder_ops(ops)[2]
                res.note_case(("sweep-ow", repr(ops)))
                for sig, summary in bad:
                    if not any(f.signature == sig for f in res.failures):
                        res.failures.append(Failure(sig, summary, {"kind": "folder", "ops": ops, "signature": sig}))
        # store: every order of creating 3 folders out of a small set, then lookups
        fset = [("20240101", "120000"), ("20240101", "130000"), ("20240102", "090000"), ("20231231", "235959")]
        for perm in itertools.permutations(fset, 3):
            ops = [["mk", "lab", None, d, t, 0.0] for d, t in perm] + [["mk", "x", None, "20240103", "000000", 0.0],
                                                                      ["mk", "lab", None, perm[0][0], perm[0][1], 0.0],
                                                                      ["latest", "lab", None], ["latest", "lab", "20240101"], ["latest", "x", None]]
            bad = _run_store_ops(ops)[2]
            res.note_case(("sweep-store", repr(perm)))
            for sig, summary in bad:
                if not any(f.signature == sig for f in res.failures):
                    res.failures.append(Failure(sig, summary, {"kind": "store", "ops": ops, "signature": sig}))
        _section_store(ctx, sub, 150, 150, use_model=False)
        try:
            _section_recorder(ctx, sub, 400, use_model=False, kmax=90)
        except Exception as e:  # noqa  (e.g. the writer's source no longer has the expected shape)
            ctx.log(f"recorder sweep not possible: {type(e).__name__}: {e}")
        res.merge(sub)
        return res

    def replay(self, ctx: Ctx, rp: dict):
        from qmi.data.datastore import DataFolder
        kind = rp.get("kind")
        want = rp.get("signature")
        found = []
        if kind == "dataset":
            with tempfile.TemporaryDirectory(prefix="c17rp_") as td:
                found = _run_path(DataFolder(td, None, None, None), rp["spec"], rp["path"], "_r")[0]
        elif kind == "folder":
            found = _run_folder_ops(rp["ops"])[2]
        elif kind == "store":
            found = _run_store_ops(rp["ops"])[2]
        elif kind == "recorder":
            o = _recorder_oracle(_run_recorder(rp["scn"]))
            found = [o] if o else []
        elif kind == "api-scale":
            import numpy as np
            from qmi.data.dataset import DataSet
            ds = DataSet("n", shape=tuple(rp["shape"]))
            vals = np.arange(rp["len"], dtype=np.float64)
            if not rp["finite"]:
                vals[0] = np.inf
            try:
                ds.set_axis_scale(rp["axis"], vals)
                ok = True
            except Exception:  # noqa
                ok = False
            should = 0 <= rp["axis"] < len(rp["shape"]) - 1 and rp["len"] == rp["shape"][rp["axis"]] and rp["finite"]
            found = [] if ok == should else [("api:valid-scale-refused" if should else "api:invalid-scale-accepted", f"{rp}")]
        elif kind == "rec-fault":
            o = _fault_oracle(_run_recorder_fault(rp["fault"], rp["keep_open"], rp["fail_at"]))
            found = [o] if o else []
        elif kind == "race":
            o = _race_oracle(rp["same"], _race_make_folder(rp["same"], rp["barrier_at"], rp["pre"]))
            found = [o] if o else []
        elif kind == "exact":
            import io
            import numpy as np
            from qmi.data.dataset import DataSet, write_dataset_to_text, read_dataset_from_text
            arr = [-v if rp["neg"] else v for v in rp["arr"]]
            data = np.array([arr + [0]], dtype=np.int64 if all(abs(v) < 2**63 for v in arr) else np.uint64)
            if rp["scale"]:
                ds = DataSet("e", data=np.zeros((len(arr), 1)))
                ds.set_axis_scale(0, data[0, :-1])
            else:
                ds = DataSet("e", data=data)
            fh = io.StringIO()
            try:
                write_dataset_to_text(ds, fh)
            except ValueError:
                if all(int(float(v)) == v for v in rp["arr"]):
                    found = [("text:write-rejected-unexpectedly:exact-integers", f"refused {arr}")]
                elif fh.getvalue():
                    found = [("text:refused-write-left-partial-content", f"{arr}")]
            else:
                fh.seek(0)
                back = read_dataset_from_text(fh)
                got = back.axis_scale[0].tolist() if rp["scale"] else back.data.tolist()
                exp = ds.axis_scale[0].tolist() if rp["scale"] else ds.data.tolist()
                if got != exp:
                    found = [("text:mismatch:" + ("scale" if rp["scale"] else "data") + ":int-beyond-2^53", f"{exp} -> {got}")]
        else:
            return None
        if not found:
            return None
        pick = [x for x in found if x[0] == want] or found
        return Failure(pick[0][0], pick[0][1], rp)


PROP = C17()
