"""C09 — concurrent part of the harness: several deliverers, readers of every thread kind, discards, stop requests,
all under the deterministic scheduler with line-level yield points inside the receiver's methods.

One scenario is a JSON-able `spec` (see `gen_mix`, `gen_kind`); `run_spec` executes it on the real
`QMI_SignalReceiver` (and, for task readers, a real `qmi.core.task._TaskThread` running a `QMI_Task`), with the receiver's
condition variable replaced *from outside* by `TapCond`, a subclass of the scheduler's Condition that records the queue
content at every lock boundary.  Because one thread runs at a time the record is a linearisation.

`oracle(spec, run)` judges the record against the statement of the property only (no model involved);
`lin_lines(spec, run)` turns the critical sections, in lock order, into op lines for the sequential model driver
(the concurrent run must equal the sequential model on its linearisation: `RecvConc` theorem `lin_refines`).
"""
from __future__ import annotations

import threading as _rt

TMO_POS = 0.25      # the `timeout > 0` used by readers (virtual seconds)


# ---------------------------------------------------------------------------------------------------------------------
# running one scenario
# ---------------------------------------------------------------------------------------------------------------------

class Run:
    def __init__(self):
        self.log = []            # linearised events
        self.deadlock = None
        self.budget = False
        self.error = None
        self.thread_errors = []
        self.steps = 0


def _trace_funcs():
    from qmi.core import pubsub
    from qmi.core.task import _TaskThread
    R = pubsub.QMI_SignalReceiver
    return [R._receive_signal, R.get_next_signal, R.discard_all, pubsub._wait_for_condition, _TaskThread.wait_for_condition]


def run_spec(spec: dict) -> Run:
    from harness.simworld import run_scenario
    from harness import detsched as D
    from qmi.core.pubsub import QMI_SignalReceiver, QMI_SignalMessage
    from qmi.core.messaging import QMI_MessageHandlerAddress
    from qmi.core.exceptions import QMI_TimeoutException, QMI_TaskStopException
    from qmi.core.task import QMI_Task, _TaskThread

    run = Run()
    log = run.log
    names = {}                   # thread ident -> harness name

    def me():
        return names.get(_rt.get_ident(), f"?{_rt.current_thread().name}")

    def body(w):
        cap, pol = spec["cap"], spec["pol"]
        policy = QMI_SignalReceiver.DISCARD_OLD if pol == "old" else QMI_SignalReceiver.DISCARD_NEW
        rx = QMI_SignalReceiver(max_queue_length=cap, discard_policy=policy)
        src = QMI_MessageHandlerAddress("ctxP", "pub")
        dst = QMI_MessageHandlerAddress("ctxR", "$pubsub")

        def snap():
            out = []
            for s in list(rx._queue):
                try:
                    out.append((s.receiver_seqnr, s.args[0]))
                except Exception:  # noqa
                    out.append(("?", repr(s)[:40]))
            return tuple(out)

        parked = set()

        class TapCond(D.Condition):
            def __enter__(self):
                r = super().__enter__()
                log.append(("enter", me(), snap()))
                return r

            def __exit__(self, *a):
                log.append(("exit", me(), snap(), a[0].__name__ if a and a[0] is not None else None))
                return super().__exit__(*a)

            def wait(self, timeout=None):
                log.append(("park", me(), snap(), timeout))
                parked.add(me())
                try:
                    ok = super().wait(timeout)
                finally:
                    parked.discard(me())
                log.append(("unpark", me(), snap(), bool(ok)))
                return ok

            def notify(self, n=1):
                log.append(("notify", me()))
                return super().notify(n)

        class TapEvent(D.Event):
            """the task's stop flag: the moment it is set is part of the record"""

            def __init__(self, owner):
                super().__init__()
                self._owner = owner

            def set(self):
                log.append(("stopflag", self._owner))
                r = super().set()
                if self._owner in stall_stop:
                    # a legal schedule, chosen on purpose: the thread inside stop_task is not scheduled again before the
                    # reader's current call has ended (or nothing else can run)
                    done0 = calls_done.get(self._owner, 0)
                    D.SCHED.yield_point("stop_task.stalled", blocked_on=lambda: calls_done.get(self._owner, 0) > done0, timeout=1000.0)
                return r

            def is_set(self):
                log.append(("flagread", self._owner, self._flag))
                return super().is_set()

        rx._queue_cond = TapCond()
        names[_rt.get_ident()] = "main"
        stop_flags = {}          # reader name -> callable: stop requested?
        stall_stop = {f"R{st['reader']}" for st in spec.get("stops", ()) if st.get("stall")}
        calls_done = {}          # reader name -> completed get calls

        def deliver(tag):
            log.append(("begin", me(), "recv", tag))
            rx._receive_signal(QMI_SignalMessage(src, dst, "sig", (tag,)))
            log.append(("end", me(), "recv", None))

        def get(tmo):
            log.append(("begin", me(), "get", tmo))
            try:
                s = rx.get_next_signal(timeout=tmo)
                ok = (s.publisher_context == "ctxP" and s.publisher_name == "pub" and s.signal_name == "sig"
                      and isinstance(s.args, tuple) and len(s.args) == 1)
                res = ("sig", s.receiver_seqnr, s.args[0]) if ok else ("garbled", repr(s)[:60])
            except QMI_TimeoutException:
                res = ("timeout",)
            except QMI_TaskStopException:
                res = ("taskstop",)
            except D.SchedAbort:
                raise
            except BaseException as e:  # noqa
                res = ("exc", type(e).__name__)
            log.append(("end", me(), "get", res))
            calls_done[me()] = calls_done.get(me(), 0) + 1
            return res

        # sequential prefill by the main thread
        for k in range(spec.get("prefill", 0)):
            deliver(900 + k)

        def deliverer(d, n):
            def f():
                names[_rt.get_ident()] = f"D{d}"
                for k in range(n):
                    deliver(1000 * (d + 1) + k)
            return f

        def reader_script(name, rd, stop_requested):
            gates = set(rd.get("gates", ()))
            if rd.get("wait_parked") is not None:
                # start reading only after another reader went to sleep (fixes who is first in the wait list)
                other = f"R{rd['wait_parked']}"
                D.SCHED.yield_point("gate.parked", blocked_on=lambda: other in parked or calls_done.get(other, 0) > 0)
            for k, tmo in enumerate(rd["calls"]):
                if k in gates:
                    # wait (scheduler-blocked, no QMI code involved) until this reader has been asked to stop
                    D.SCHED.yield_point("gate.stop", blocked_on=stop_requested)
                get(tmo)

        threads = []
        task_threads = {}
        for d, n in enumerate(spec.get("deliverers", ())):
            threads.append(w.spawn(deliverer(d, n), f"D{d}"))
        for r, rd in enumerate(spec.get("readers", ())):
            name = f"R{r}"
            if rd["kind"] == "task":
                holder = {}

                class ReaderTask(QMI_Task):
                    def __init__(self_inner, runner, tname):  # noqa
                        super().__init__(runner, tname)
                        self_inner._stop_requested = TapEvent(tname)

                    def run(self_inner, _name=name, _rd=rd):  # noqa
                        names[_rt.get_ident()] = _name
                        reader_script(_name, _rd, lambda: self_inner._stop_requested._flag)

                class _Runner:
                    pass
                rn = _Runner()
                rn._context = None
                th = _TaskThread(rn, name, ReaderTask, (), {})
                rn._thread = th
                th.start()
                th.start_task()
                task_threads[name] = th
                stop_flags[name] = (lambda th=th: th.task is not None and th.task._stop_requested._flag)
                threads.append(th)
            else:
                flag = {"stop": False}
                stop_flags[name] = (lambda flag=flag: flag["stop"])

                def f(_name=name, _rd=rd, _flag=flag):
                    names[_rt.get_ident()] = _name
                    reader_script(_name, _rd, lambda: _flag["stop"])
                threads.append(w.spawn(f, name))
                task_threads[name] = flag
        if spec.get("discards"):
            def disc():
                names[_rt.get_ident()] = "X"
                for _ in range(spec["discards"]):
                    log.append(("begin", me(), "discard", None))
                    rx.discard_all()
                    log.append(("end", me(), "discard", None))
            threads.append(w.spawn(disc, "X"))
        if spec.get("queries"):
            def qry():
                names[_rt.get_ident()] = "Q"
                for k in range(spec["queries"]):
                    if k % 2 == 0:
                        log.append(("begin", me(), "len", None))
                        n = rx.get_queue_length()
                        log.append(("end", me(), "len", n))
                    else:
                        log.append(("begin", me(), "ready", None))
                        b = rx.has_signal_ready()
                        log.append(("end", me(), "ready", b))
            threads.append(w.spawn(qry, "Q"))
        if spec.get("rescue"):
            rnames = [f"R{r}" for r in range(len(spec.get("readers", ())))]
            ncalls = {f"R{r}": len(rd["calls"]) for r, rd in enumerate(spec.get("readers", ()))}

            def rescue():
                names[_rt.get_ident()] = "DR"
                for k in range(spec["rescue"]):
                    # the signal a sleeping reader is waiting for eventually arrives
                    if spec.get("rescue_all"):
                        # ... once every reader that is still reading sleeps
                        D.SCHED.yield_point("rescue.wait", blocked_on=lambda: all(calls_done.get(n, 0) >= ncalls[n] for n in rnames)
                                            or (all(n in parked or calls_done.get(n, 0) >= ncalls[n] for n in rnames) and len(rx._queue) == 0))
                    else:
                        D.SCHED.yield_point("rescue.wait", blocked_on=lambda: all(calls_done.get(n, 0) >= ncalls[n] for n in rnames)
                                            or (any(n in parked for n in rnames) and len(rx._queue) == 0))
                    if all(calls_done.get(n, 0) >= ncalls[n] for n in rnames):
                        break
                    deliver(5000 + k)
            threads.append(w.spawn(rescue, "DR"))
        for k, st in enumerate(spec.get("stops", ())):
            def stopper(_st=st, _k=k):
                names[_rt.get_ident()] = f"S{_k}"
                rname = f"R{_st['reader']}"
                if _st.get("after_calls"):
                    D.SCHED.yield_point("stopper.after", blocked_on=lambda: calls_done.get(rname, 0) >= _st["after_calls"])
                if _st.get("parked"):
                    D.SCHED.yield_point("stopper.parked", blocked_on=lambda: rname in parked or calls_done.get(rname, 0) >= len(spec["readers"][_st["reader"]]["calls"]))
                log.append(("stop", rname))
                tt = task_threads[rname]
                if isinstance(tt, dict):
                    tt["stop"] = True           # a plain thread has no stop request: only the harness gate sees it
                else:
                    tt.stop_task()
            threads.append(w.spawn(stopper, f"S{k}"))
        for t in threads:
            t.join()
        # drain what is left, from the main thread, so that every queued signal is eventually seen by a reader
        if spec.get("drain", True):
            for _ in range(cap + 2):
                if get(0)[0] != "sig":
                    break
        log.append(("final", snap()))
        return True

    out = run_scenario(spec["seed"], body, policy=spec.get("policy", "weighted"), change_points=spec.get("change_points"),
                       trace_funcs=_trace_funcs(), max_steps=spec.get("max_steps", 20000))
    run.deadlock, run.budget, run.error, run.thread_errors = out.deadlock, out.budget, out.error, list(out.thread_errors)
    run.steps = out.sched.steps
    return run


# ---------------------------------------------------------------------------------------------------------------------
# the record, call by call
# ---------------------------------------------------------------------------------------------------------------------

def calls_of(spec: dict, run: Run):
    """Group the linear log into calls and critical sections.

    Returns (calls, sections): a call is a dict {thr, op, arg, begin, end, res, sections:[idx]}; a section is a dict
    {thr, call, pre, post, how: 'exit'|'park', exc, at}.  A `with`-block left through `cond.wait` is split at the wait."""
    calls, sections = [], []
    cur = {}          # thread -> open call index
    open_sec = {}     # thread -> (pre, at)
    stops = []
    for at, ev in enumerate(run.log):
        k = ev[0]
        if k == "begin":
            calls.append({"thr": ev[1], "op": ev[2], "arg": ev[3], "begin": at, "end": None, "res": None, "sections": []})
            cur[ev[1]] = len(calls) - 1
        elif k == "end":
            c = cur.pop(ev[1], None)
            if c is not None:
                calls[c]["end"] = at
                calls[c]["res"] = ev[3]
        elif k in ("enter", "unpark"):
            open_sec[ev[1]] = (ev[2], at)
        elif k in ("exit", "park"):
            pre = open_sec.pop(ev[1], None)
            if pre is None:
                continue
            sec = {"thr": ev[1], "call": cur.get(ev[1]), "pre": pre[0], "post": ev[2], "how": k,
                   "exc": ev[3] if k == "exit" else None, "at": at}
            sections.append(sec)
            if sec["call"] is not None:
                calls[sec["call"]]["sections"].append(len(sections) - 1)
        elif k == "stop":
            stops.append((at, ev[1]))
    return calls, sections, stops


def oracle(spec: dict, run: Run):
    """The property, on the record of one concurrent run.  Returns a list of (clause, detail)."""
    bad = []
    cap, pol = spec["cap"], spec["pol"]
    calls, sections, stops = calls_of(spec, run)
    kinds = {f"R{r}": rd["kind"] for r, rd in enumerate(spec.get("readers", ()))}
    kinds["main"] = "plain"

    def add(clause, detail):
        if not any(c == clause for c, _ in bad):
            bad.append((clause, detail))

    if run.error is not None:
        add(f"harness-error:{type(run.error).__name__}", repr(run.error)[:200])
    for (nm, e) in run.thread_errors:
        add(f"thread-died:{type(e).__name__}", f"{nm}: {e!r}"[:200])
    if run.budget:
        add("step-budget-exceeded", "the scenario did not finish within the step budget")

    # -- never more than the maximum; only whole signals in the queue ---------------------------------------------
    for ev in run.log:
        if ev[0] in ("enter", "exit", "park", "unpark") and len(ev[2]) > cap:
            add("holds-more-than-maximum", f"queue {ev[2]} with max {cap}")
        if ev[0] in ("enter", "exit", "park", "unpark") and any(x[0] == "?" for x in ev[2]):
            add("queue-holds-foreign-object", f"{ev[2]}")

    # -- numbers in the queue increase from the oldest to the newest ---------------------------------------------------
    for ev in run.log:
        if ev[0] in ("exit", "park"):
            seqs = [x[0] for x in ev[2]]
            if any(not isinstance(a, int) or not isinstance(b, int) or a >= b for a, b in zip(seqs, seqs[1:])):
                add("sequence-not-increasing", f"queue holds numbers {seqs} (oldest first)")

    # -- every call ------------------------------------------------------------------------------------------------
    handed = []        # (section index, seq, tag, reader) in lock order
    drops_tap = 0
    discarded = 0
    for ci, c in enumerate(calls):
        secs = [sections[i] for i in c["sections"]]
        if c["op"] == "get":
            kind = kinds.get(c["thr"], "plain")
            res = c["res"]
            if res is None:
                continue          # unfinished (deadlock / abort): judged below
            if res[0] in ("exc", "garbled"):
                add(f"unexpected-exception:{res[1]}" if res[0] == "exc" else "payload-altered", f"{c['thr']} get({c['arg']}) -> {res}")
                continue
            first = secs[0] if secs else None
            last = secs[-1] if secs else None
            if first is not None and first["pre"]:
                # a signal is queued when the call gets hold of the queue: it must hand out the oldest, at once
                if res[0] != "sig":
                    what = {"timeout": "timeout-although-signal-queued", "taskstop": "stop-exception-although-signal-queued"}[res[0]]
                    add(what, f"{c['thr']} ({kind}) get(timeout={c['arg']}) found {first['pre']} queued but ended with {res[0]}")
                    continue
                if first["how"] != "exit":
                    add("reader-waits-although-signal-queued", f"{c['thr']} get({c['arg']}) went to sleep with {first['pre']} queued")
            for s in secs:
                if s["how"] == "park" and s["post"]:
                    add("reader-waits-although-signal-queued", f"{c['thr']} get({c['arg']}) went to sleep with {s['post']} queued")
            if res[0] == "sig":
                if last is None or not last["pre"]:
                    add("signal-from-empty-queue", f"{c['thr']} get -> {res} but the queue was {last['pre'] if last else None}")
                    continue
                head = last["pre"][0]
                if (res[1], res[2]) != head:
                    add("not-oldest-first", f"{c['thr']} get -> {res[1:]} while the oldest queued was {head} (queue {last['pre']})")
                if tuple(last["post"]) != tuple(last["pre"][1:]):
                    add("not-oldest-first", f"{c['thr']} get left the queue {last['post']} from {last['pre']}")
                handed.append((c["sections"][-1], res[1], res[2], c["thr"]))
            elif res[0] == "timeout":
                if c["arg"] is None:
                    add("timeout-with-infinite-timeout", f"{c['thr']} get(timeout=None) raised QMI_TimeoutException")
                if last is not None and last["post"]:
                    add("timeout-although-signal-queued", f"{c['thr']} get({c['arg']}) raised timeout leaving {last['post']} queued")
            elif res[0] == "taskstop":
                asked = any(at < c["end"] and nm == c["thr"] for at, nm in stops)
                if kind != "task" or not asked:
                    add("stop-exception-without-stop-request", f"{c['thr']} ({kind}) get({c['arg']}) raised QMI_TaskStopException, stop requested: {asked}")
            for s in secs[:-1] if secs else []:
                if tuple(s["pre"]) != tuple(s["post"]):
                    add("reader-changed-queue-while-waiting", f"{s}")
        elif c["op"] == "recv":
            for s in secs:
                full = len(s["pre"]) >= cap
                if full:
                    drops_tap += 1
                post, pre, tag = list(s["post"]), list(s["pre"]), c["arg"]
                if full and pol == "new":
                    if post != pre:
                        add("drop-policy", f"DISCARD_NEW, full queue {pre}: arrival {tag} left {post}")
                else:
                    want_old = pre[1:] if full else pre
                    if not (len(post) == len(want_old) + 1 and post[:-1] == want_old and post[-1][1] == tag):
                        add("drop-policy" if full else "arrival-not-queued-last", f"{pol}, queue {pre} (max {cap}): arrival {tag} left {post}")
        elif c["op"] == "discard":
            for s in secs:
                discarded += len(s["pre"])
                if s["post"]:
                    add("discard-left-signals", f"discard_all left {s['post']}")
        elif c["op"] == "len" and c["res"] is not None:
            if secs and c["res"] != len(secs[-1]["pre"]):
                add("queue-length", f"get_queue_length -> {c['res']} with queue {secs[-1]['pre']}")
            if isinstance(c["res"], int) and c["res"] > cap:
                add("holds-more-than-maximum", f"get_queue_length -> {c['res']} with max {cap}")
        elif c["op"] == "ready" and c["res"] is not None:
            if secs and c["res"] != (len(secs[-1]["pre"]) != 0):
                add("ready-flag", f"has_signal_ready -> {c['res']} with queue {secs[-1]['pre']}")
    # sections of threads outside any call (stop_task's notify) must not touch the queue
    for s in sections:
        if s["call"] is None and tuple(s["pre"]) != tuple(s["post"]):
            add("queue-changed-outside-a-call", f"{s}")

    # -- what the readers saw ------------------------------------------------------------------------------------------
    handed.sort()
    seqs = [h[1] for h in handed]
    for (a, b) in zip(handed, handed[1:]):
        if not (isinstance(a[1], int) and isinstance(b[1], int) and a[1] < b[1]):
            add("sequence-not-increasing", f"handed out {a[1]} (to {a[3]}) and then {b[1]} (to {b[3]}); all: {seqs}")
            break
    per = {}
    for h in handed:
        per.setdefault(h[3], []).append(h[1])
    for nm, lst in per.items():
        if any(not (isinstance(a, int) and isinstance(b, int) and a < b) for a, b in zip(lst, lst[1:])):
            add("sequence-not-increasing", f"reader {nm} saw {lst}")
    tags = [h[2] for h in handed]
    if len(set(tags)) != len(tags):
        add("signal-handed-out-twice", f"tags {tags}")
    # each gap equals the number of signals lost: the k-th arrival carries number k.  Arrivals whose calls overlap in time
    # may be ordered either way, so the number of a handed-out signal must lie in the window its call allows.
    recvs = [c for c in calls if c["op"] == "recv"]
    by_tag = {c["arg"]: c for c in recvs}
    for (_, seq, tag, nm) in handed:
        c = by_tag.get(tag)
        if c is None:
            add("signal-never-arrived", f"{nm} was handed {seq}/{tag}")
            continue
        if not isinstance(seq, int):
            add("gap-not-equal-to-losses", f"sequence number {seq!r} is not a number")
            continue
        lo = sum(1 for o in recvs if o["end"] is not None and o["end"] < c["begin"])
        hi = sum(1 for o in recvs if o["begin"] < (c["end"] if c["end"] is not None else len(run.log))) - 1
        if not lo <= seq <= hi:
            add("gap-not-equal-to-losses", f"signal {tag} is arrival number {lo}..{hi} but carries number {seq}")
    # independent count of the losses, when the run completed and the queue was drained
    fin = [ev for ev in run.log if ev[0] == "final"]
    if fin and run.deadlock is None and not run.budget and run.error is None:
        arrivals = sum(1 for c in recvs if c["end"] is not None)
        queued = len(fin[0][1])
        lost = arrivals - len(handed) - discarded - queued
        if lost != drops_tap:
            add("losses-not-countable", f"{arrivals} arrivals - {len(handed)} handed out - {discarded} discarded - {queued} queued = {lost}, "
                                        f"but {drops_tap} arrivals met a full queue")
        if seqs and isinstance(seqs[-1], int):
            gaps = (seqs[0]) + sum(b - a - 1 for a, b in zip(seqs, seqs[1:]) if isinstance(a, int) and isinstance(b, int))
            # numbers skipped up to the last one handed out = signals lost before it
            skipped_after = arrivals - 1 - seqs[-1]
            if skipped_after < 0:
                add("gap-not-equal-to-losses", f"number {seqs[-1]} handed out after only {arrivals} arrivals")
            elif spec.get("drain", True) and queued == 0 and gaps + skipped_after != lost + discarded:
                add("gap-not-equal-to-losses", f"gaps sum to {gaps}+{skipped_after} but {lost} were dropped and {discarded} discarded")

    # -- nobody sleeps for ever while a signal is queued / a stop was requested ---------------------------------------
    if run.deadlock is not None:
        last_q = None
        for ev in reversed(run.log):
            if ev[0] in ("enter", "exit", "park", "unpark"):
                last_q = ev[2]
                break
        open_gets = [c for c in calls if c["op"] == "get" and c["end"] is None]
        if last_q and open_gets:
            add("reader-parked-although-signal-queued", f"{[c['thr'] for c in open_gets]} wait for ever with {last_q} queued: {run.deadlock[:160]}")
        for c in open_gets:
            if kinds.get(c["thr"]) == "task" and any(nm == c["thr"] for _, nm in stops):
                add("task-reader-parked-although-stop-requested", f"{c['thr']} get({c['arg']}): {run.deadlock[:160]}")
            if c["arg"] is not None:
                add("reader-with-finite-timeout-waits-for-ever", f"{c['thr']} get({c['arg']}): {run.deadlock[:160]}")
        if not bad:
            return [("@benign-deadlock", run.deadlock[:160])]
    return bad


# ---------------------------------------------------------------------------------------------------------------------
# the linearisation, as op lines for the sequential model driver
# ---------------------------------------------------------------------------------------------------------------------

def _qline(q) -> str:
    return "q" + "".join(f" {a}:{b}" for (a, b) in q)


def lin_lines(spec: dict, run: Run):
    """(lines, expected outputs): the critical sections in lock order, each followed by a dump of the queue."""
    calls, sections, _ = calls_of(spec, run)
    lines, outs = [f"init {spec['cap']} {spec['pol']}"], ["ok"]
    for si, s in enumerate(sections):
        c = calls[s["call"]] if s["call"] is not None else None
        if c is None:
            pass
        elif c["op"] == "recv":
            lines.append(f"recv {c['arg']}")
            outs.append("ok")
        elif c["op"] == "discard":
            lines.append("discard")
            outs.append("ok")
        elif c["op"] == "len" and c["res"] is not None:
            lines.append("len")
            outs.append(str(c["res"]))
        elif c["op"] == "ready" and c["res"] is not None:
            lines.append("ready")
            outs.append("true" if c["res"] else "false")
        elif c["op"] == "get":
            final = c["end"] is not None and c["sections"] and c["sections"][-1] == si and s["how"] == "exit"
            res = c["res"]
            if final and res is not None and res[0] == "sig":
                lines.append("get")
                outs.append(f"sig {res[1]} {res[2]}")
            elif final and res is not None and res[0] == "timeout":
                lines.append("get")
                outs.append("timeout")
            # a section that ends in `cond.wait`, or a call that ends with the task-stop exception, has no effect
        lines.append("q")
        outs.append(_qline(s["post"]))
    return lines, outs


def _tid(name: str) -> int:
    if name == "main":
        return 0
    base = {"D": 10, "R": 20, "S": 40}.get(name[0])
    if name == "DR":
        return 32
    if name == "X":
        return 30
    if name == "Q":
        return 31
    return base + int(name[1:]) if base is not None and name[1:].isdigit() else 99


def conc_lines(spec: dict, run: Run):
    """(lines, expected outputs) for the concurrent model driver: the real run's events at lock granularity.  Every event
    must be enabled in `RecvConc` running the generated programs (`cacq` -> ok, `crun` -> parked / done <result>,
    `cunpark` -> ok) and the queue after every critical section must agree."""
    calls, sections, _ = calls_of(spec, run)
    kinds = {f"R{r}": rd["kind"] for r, rd in enumerate(spec.get("readers", ()))}
    res_at = {}                       # log index of an `exit` event -> the call it ends
    for c in calls:
        if c["end"] is not None and c["sections"]:
            last = sections[c["sections"][-1]]
            if last["how"] == "exit":
                res_at[last["at"]] = c
    dead = set()                      # threads whose open call never ended: stop following them
    for c in calls:
        if c["end"] is None:
            dead.add((c["thr"], c["begin"]))
    lines, outs = [f"cinit {spec['cap']} {spec['pol']}"], ["ok"]
    in_call, parked, skip = {}, [], set()
    inside, reads = set(), {}        # threads inside a critical section; flag reads of each since it entered

    def tmo_word(t):
        return "none" if t is None else ("zero" if t <= 0 else "pos")

    for at, ev in enumerate(run.log):
        k = ev[0]
        thr = ev[1] if len(ev) > 1 else None
        if k == "begin":
            if (thr, at) in dead:
                skip.add(thr)
            if thr in skip:
                continue
            op, arg = ev[2], ev[3]
            if op == "recv":
                w = f"recv {arg}"
            elif op == "get":
                w = f"get {'task' if kinds.get(thr) == 'task' else 'plain'} {tmo_word(arg)}"
            else:
                w = op
            lines.append(f"ccall {_tid(thr)} {w}")
            outs.append("ok")
            in_call[thr] = op
        elif k == "end":
            in_call.pop(thr, None)
        elif k == "stopflag":
            if thr in inside and thr not in skip:
                # the flag is not protected by the lock: let the model thread do the flag reads the real one has done
                lines.append(f"crunr {_tid(thr)} {reads.get(thr, 0)}")
                outs.append("ok")
                reads[thr] = 0
            lines.append(f"cstop {_tid(thr)}")
            outs.append("ok")
        elif k == "flagread":
            if thr in inside:
                reads[thr] = reads.get(thr, 0) + 1
        elif k == "notify":
            if in_call.get(thr) != "recv":
                for p in parked:          # stop_task's notify_all (or any other): an arbitrary wake-up in the model
                    lines.append(f"cwake {_tid(p)}")
                    outs.append("ok")
        elif thr in skip or thr not in in_call:
            continue
        elif k == "enter":
            lines.append(f"cacq {_tid(thr)}")
            outs.append("ok")
            inside.add(thr)
            reads[thr] = 0
        elif k == "park":
            lines.append(f"crun {_tid(thr)}")
            outs.append("parked")
            parked.append(thr)
            inside.discard(thr)
        elif k == "unpark":
            inside.add(thr)
            reads[thr] = 0
            if not ev[3]:
                lines.append(f"cexpire {_tid(thr)}")
                outs.append("ok")
            lines.append(f"cunpark {_tid(thr)}")
            outs.append("ok")
            if thr in parked:
                parked.remove(thr)
        elif k == "exit":
            inside.discard(thr)
            c = res_at.get(at)
            if c is None:
                skip.add(thr)
                continue
            r = c["res"]
            if c["op"] in ("recv", "discard"):
                want = "unit"
            elif c["op"] == "len":
                want = str(r)
            elif c["op"] == "ready":
                want = "true" if r else "false"
            elif r[0] == "sig":
                want = f"sig {r[1]} {r[2]}"
            elif r[0] in ("timeout", "taskstop"):
                want = r[0]
            else:
                want = f"exc:{r[1]}"
            lines.append(f"crun {_tid(thr)}")
            outs.append(f"done {want}")
            lines.append("cq")
            outs.append(_qline(ev[2]))
    return lines, outs


# ---------------------------------------------------------------------------------------------------------------------
# scenario generators
# ---------------------------------------------------------------------------------------------------------------------

def gen_mix(rng, seed_tag: str) -> dict:
    """(i) 2-3 deliverers + readers (+ discards, length queries): overruns included."""
    cap = rng.choice([1, 1, 2, 2, 3, 4])
    nd = rng.choice([2, 2, 3])
    deliverers = [rng.choice([1, 2, 2, 3, cap + 1]) for _ in range(nd)]
    readers = []
    for _ in range(rng.choice([0, 1, 1, 2])):
        readers.append({"kind": rng.choice(["plain", "plain", "task"]),
                        "calls": [rng.choice([0, 0, TMO_POS]) for _ in range(rng.randint(1, 3))]})
    return {"seed": seed_tag, "policy": rng.choice(["weighted", "pct"]), "cap": cap, "pol": rng.choice(["old", "new"]),
            "prefill": rng.choice([0, 0, 0, cap - 1, cap, cap + 1]), "deliverers": deliverers, "readers": readers,
            "discards": rng.choice([0, 0, 0, 1, 2]), "queries": rng.choice([0, 0, 1, 2])}


def gen_block(rng, seed_tag: str) -> dict:
    """several readers that sleep in get_next_signal (timeout None / > 0) while 2-3 deliverers overrun the queue"""
    cap = rng.choice([1, 1, 2, 3])
    readers = []
    for _ in range(rng.choice([2, 2, 3])):
        readers.append({"kind": rng.choice(["plain", "task"]),
                        "calls": [rng.choice([None, None, TMO_POS, 5.0]) for _ in range(rng.randint(1, 2))]})
    total = sum(len(r["calls"]) for r in readers)
    nd = rng.choice([2, 3])
    deliverers = [max(1, (total + rng.choice([0, 1, cap])) // nd) for _ in range(nd)]
    # some of the task readers are asked to stop while the others keep waiting: a wake-up spent on a reader that leaves
    # with the stop exception must not be lost for the others
    stops = [{"reader": r, "parked": rng.random() < 0.7, "stall": rng.random() < 0.5}
             for r, rd in enumerate(readers) if rd["kind"] == "task" and rng.random() < 0.5]
    out = {"seed": seed_tag, "policy": rng.choice(["weighted", "pct"]), "cap": cap, "pol": rng.choice(["old", "new"]),
           "prefill": rng.choice([0, 0, 1]), "deliverers": deliverers, "readers": readers, "stops": stops, "rescue": total + 1}
    if stops and rng.random() < 0.5:
        # the reader that is asked to stop goes to sleep first, signals arrive once everybody sleeps
        first = stops[0]["reader"]
        for r, rd in enumerate(readers):
            if r != first:
                rd["wait_parked"] = first
        out.update(deliverers=[], prefill=0, rescue=total + 2, rescue_all=True)
    return out


def preempt_bases():
    """small scenarios for the single-preemption sweep: the running thread is demoted at every yield index in turn"""
    out = []
    for cap, pol in ((1, "old"), (2, "old"), (2, "new"), (3, "old")):
        out.append({"cap": cap, "pol": pol, "prefill": 0, "deliverers": [1, 1], "readers": []})
        out.append({"cap": cap, "pol": pol, "prefill": cap, "deliverers": [1, 1], "readers": [{"kind": "plain", "calls": [0]}]})
        out.append({"cap": cap, "pol": pol, "prefill": 0, "deliverers": [1, 1, 1], "readers": [{"kind": "plain", "calls": [None, 0]}], "rescue": 2})
        out.append({"cap": cap, "pol": pol, "prefill": 1, "deliverers": [2], "discards": 1,
                    "readers": [{"kind": "task", "calls": [0, 0], "gates": [0]}], "stops": [{"reader": 0}]})
    # two sleeping readers, one of them a task that is asked to stop while it sleeps, one arrival
    out.append({"cap": 2, "pol": "old", "prefill": 0, "deliverers": [],
                "readers": [{"kind": "task", "calls": [None]}, {"kind": "plain", "calls": [None], "wait_parked": 0}],
                "stops": [{"reader": 0, "parked": True, "stall": True}], "rescue": 3, "rescue_all": True})
    out.append({"cap": 1, "pol": "new", "prefill": 0, "deliverers": [],
                "readers": [{"kind": "task", "calls": [None]}, {"kind": "task", "calls": [None], "wait_parked": 0}],
                "stops": [{"reader": 0, "parked": True, "stall": True}], "rescue": 3, "rescue_all": True})
    out.append({"cap": 2, "pol": "new", "prefill": 0, "deliverers": [1],
                "readers": [{"kind": "plain", "calls": [5.0]}, {"kind": "task", "calls": [5.0]}],
                "stops": [{"reader": 1, "parked": True, "stall": True}]})
    return out


def kind_grid():
    """(ii) the systematic part: thread kind x timeout x queue content x time of the stop request."""
    out = []
    for kind in ("plain", "task"):
        for tmo in (None, 0, TMO_POS):
            for prefill, cap in ((0, 2), (1, 2), (2, 2), (3, 2), (1, 1)):
                for stop in ("never", "before", "during", "after"):
                    if kind == "plain" and stop == "during":
                        continue
                    out.append((kind, tmo, prefill, cap, stop))
    return out


def gen_kind(rng, seed_tag: str, cell) -> dict:
    kind, tmo, prefill, cap, stop = cell
    queued = min(prefill, cap)
    ncalls = rng.choice([1, 2, queued + 1]) if queued else rng.choice([1, 2])
    calls = [tmo] + [rng.choice([tmo, 0]) for _ in range(ncalls - 1)]
    rd = {"kind": kind, "calls": calls}
    stops = []
    if stop == "before":
        rd["gates"] = [0]
        stops = [{"reader": 0}]
    elif stop == "during":
        stops = [{"reader": 0, "parked": rng.random() < 0.6}]
    elif stop == "after":
        rd["calls"] = calls + [rng.choice([tmo, 0])]
        rd["gates"] = [len(calls)]
        stops = [{"reader": 0, "after_calls": len(calls)}]
    # a reader that may block for ever needs an arrival (or a stop request, for a task) to come
    blocking = [k for k, t in enumerate(rd["calls"]) if t is None]
    need = 0
    if blocking:
        need = max(0, len(rd["calls"]) - queued)
    deliverers = []
    if need:
        deliverers = [need] if rng.random() < 0.5 else [need, 1]
    elif rng.random() < 0.5:
        deliverers = [rng.choice([1, 2])]
    # a task that is asked to stop before / while it reads is released by the stop request; everybody else by an arrival
    rescue = len(rd["calls"]) + 1 if blocking and not (kind == "task" and stop in ("before", "during")) else 0
    return {"seed": seed_tag, "policy": rng.choice(["weighted", "pct"]), "cap": cap, "pol": rng.choice(["old", "new"]),
            "prefill": prefill, "deliverers": deliverers, "readers": [rd], "stops": stops, "rescue": rescue, "cell": list(cell)}


def shrink(spec: dict, clause: str, budget: int = 40) -> dict:
    """Greedy reduction of a failing scenario (fewer threads / calls), keeping the same oracle clause."""
    import copy

    def fails(sp):
        try:
            return any(c == clause for c, _ in oracle(sp, run_spec(sp)))
        except Exception:  # noqa
            return False

    best = copy.deepcopy(spec)
    tries = 0
    changed = True
    while changed and tries < budget:
        changed = False
        cands = []
        for k in ("discards", "queries"):
            if best.get(k):
                c = copy.deepcopy(best); c[k] = 0; cands.append(c)
        for d in range(len(best.get("deliverers", ()))):
            c = copy.deepcopy(best)
            if c["deliverers"][d] > 1:
                c["deliverers"][d] -= 1
            else:
                del c["deliverers"][d]
            cands.append(c)
        for r in range(len(best.get("readers", ()))):
            if not best.get("stops"):
                c = copy.deepcopy(best); del c["readers"][r]; cands.append(c)
            if len(best["readers"][r]["calls"]) > 1 and not best["readers"][r].get("gates"):
                c = copy.deepcopy(best); c["readers"][r]["calls"].pop(); cands.append(c)
        if best.get("prefill"):
            c = copy.deepcopy(best); c["prefill"] -= 1; cands.append(c)
        for c in cands:
            tries += 1
            if tries > budget:
                break
            if fails(c):
                best, changed = c, True
                break
    return best
