"""C06 — peer connections deliver whole messages in order and contain bad peers.

Model: lean/QmiModel/Model/Frame.lean; theorems: lean/QmiModel/Props/C06.lean; driver: lean/Drv/C06.lean.
Tie: the real `MessageRouter` / `_SocketManager` / `_PeerTcpConnection` driven single-threaded through
in-memory sockets (harness/c06_fakes.py); every `recv` the real code makes is one `recv` line for the model.
Oracle: the property evaluated directly by a reference walk over the scenario (`oracle`), independent of the
Lean model.
"""
from __future__ import annotations

import collections
import copy
import json
import logging
import pickle

from harness.core import Ctx, Failure, Broken, LeanDriver, Prop, Result, diff_streams, known_match
from harness import c06_fakes as F

R_NAME = "ctxR"
# boundary family for the strings a peer puts into its handshake (context name, version)
NAME_FAMILY = ["", " ", "0", "none", "x" * 300, "pe\u00ebr-\u03a9", "peerT\x00", "$router"]

FAULTS = ("marker", "marker-insert", "oversize", "undecodable", "notmsg", "nohs", "hs2", "hsdir", "badsrc",
          "baddst", "hsnone-hs", "hsnone-msg", "lenlie", "wrongname", "eof-mid", "maxhdr",
          "hs-marker", "hs-oversize", "hs-garbage")


def _mods():
    import qmi.core.messaging as M
    import qmi.core.rpc as RPC
    import qmi.core.pubsub as PS
    return M, RPC, PS


# ---------------------------------------------------------------------------------------------------------
# building messages and streams
# ---------------------------------------------------------------------------------------------------------

def mk_msg(kind, rid, src, dst, pad=0, variant=0):
    """a real QMI message object as a peer (or a local object) would create it"""
    M, RPC, PS = _mods()
    A = M.QMI_MessageHandlerAddress
    s, d = A(*src), A(*dst)
    if kind == "q":
        if variant % 2 == 0 and pad == 0:
            m = M.QMI_RequestMessage(s, d)
        else:
            m = RPC.QMI_MethodRpcRequestMessage(s, d, "meth%d" % variant, ("a" * pad, variant), {"k": variant})
        m.request_id = rid
    elif kind == "p":
        if variant % 2 == 0 and pad == 0:
            m = M.QMI_ReplyMessage(s, d, rid)
        else:
            m = RPC.QMI_MethodRpcReplyMessage(s, d, rid, RPC.QMI_RpcFutureState.RESULT_IS_VALUE, "r" * pad + str(variant))
    elif kind == "e":
        m = M.QMI_ErrorReplyMessage(s, d, rid, "peer says no %d" % variant + "!" * pad)
    else:
        if variant % 2 == 0 and pad == 0:
            m = M.QMI_Message(s, d)
        else:
            m = PS.QMI_SignalMessage(s, d, "sig%d" % variant, ("s" * pad, variant))
    return m


def mk_hs(name, server, version=None):
    M, _, _ = _mods()
    import qmi
    m = M.QMI_InitialHandshakeMessage("x", qmi.__version__ if version is None else version, server)
    m.source_address = M.QMI_MessageHandlerAddress(name, "$router")
    return m


def pad_to(make, target, tries=40):
    """find `pad` with len(pickle.dumps(make(pad))) == target, or None"""
    base = len(pickle.dumps(make(0)))
    pad = max(0, target - base)
    for _ in range(tries):
        n = len(pickle.dumps(make(pad)))
        if n == target:
            return pad
        pad = max(0, pad + (target - n))
    return None


class ScnGen:
    """structured scenario generator; everything random comes from `rng`"""

    def __init__(self, rng, real_max: int):
        self.rng = rng
        self.real_max = real_max

    def conn(self, role, peer, nmsgs, fault, rids, maxv, other_names):
        """the byte stream a peer writes: list of pieces (one frame or junk each) + what the generator meant"""
        rng = self.rng
        pieces, meaning = [], []
        # handshake
        server = (role == "out")         # R connected out => the peer is the server
        hs_name = peer
        hs_server = server
        hs_version = rng.choice([None, None, "0.0.1"] + ([rng.choice(NAME_FAMILY)] if rng.random() < 0.3 else []))
        if fault == "hsdir":
            hs_server = not server
        if fault == "wrongname":
            hs_name = peer + "X"
        if fault in ("hsnone-hs", "hsnone-msg"):
            hs_name = None
        if fault != "nohs":
            hp = pickle.dumps(mk_hs(hs_name, hs_server, hs_version))
            if maxv < self.real_max and rng.random() < 0.3:
                # a handshake of exactly the maximum size (or one byte off)
                target = rng.choice([maxv, maxv, maxv - 1, maxv + 1])
                k = pad_to(lambda k: mk_hs(hs_name, hs_server, "9" * (k + 1)), target)
                if k is not None:
                    hp = pickle.dumps(mk_hs(hs_name, hs_server, "9" * (k + 1)))
            hf = F.mkframe(hp)
            if fault == "hs-marker":
                hf = bytes([rng.choice([0x00, 0x4f, 0x51, 0x70, 0xff])]) + hf[1:]
            elif fault == "hs-oversize":
                v = rng.choice([maxv + 1, len(hp) + (1 << 56), len(hp) + (1 << 32), 2 ** 64 - 1])
                hf = b"P" + v.to_bytes(8, "little") + hp
            elif fault == "hs-garbage":
                hf = F.mkframe(rng.choice([hp[:len(hp) // 2], b"", b"\xff" + hp[1:], pickle.dumps(("hs", hs_name))]))
            pieces.append(hf)
            meaning.append("hs")
        alias_for_msgs = R_NAME
        src_name = peer
        self.last_hs2_name = None
        idx_fault = rng.randint(0, nmsgs) if fault else None
        rids = list(rids)
        for i in range(nmsgs + 1):
            if fault and i == idx_fault:
                p, mean = self.fault_piece(fault, peer, server, maxv, other_names, rids)
                if p is not None:
                    pieces.append(p)
                    meaning.append("fault:" + mean)
                if isinstance(self.last_hs2_name, str) and rng.random() < 0.5:
                    src_name = self.last_hs2_name      # the traffic goes on under the repeated handshake's name
            if i == nmsgs:
                break
            r = rng.random()
            variant = rng.randint(0, 5)
            pad = 0
            if rng.random() < 0.15:
                pad = rng.choice([1, 50, 300, 5000, 9000]) if maxv >= 20000 else rng.choice([1, 50, 300])
            if r < 0.40 or not rids:
                kind = "q" if rng.random() < 0.7 else "o"
                dobj = rng.choice(["o0", "o0", "o1", "o2", "ghost"])
                rid = "p%04d" % rng.randint(0, 9999)
            else:
                kind = rng.choice(["p", "p", "e"])
                rid, dobj = rng.choice(rids)
                if rng.random() < 0.1:
                    rid = "unk%d" % rng.randint(0, 99)
                if rng.random() < 0.7 and (rid, dobj) in rids:
                    rids.remove((rid, dobj))
            m = mk_msg(kind, rid, (src_name, "po%d" % rng.randint(0, 2)), (alias_for_msgs, dobj), pad, variant)
            payload = pickle.dumps(m)
            if kind == "q" and maxv < self.real_max and rng.random() < 0.3:
                # an undeliverable request that itself fits the limit while the error reply for it is at / over it
                M, _, _ = _mods()
                base = len(payload)
                for target in rng.sample([maxv - 1, maxv, maxv + 1, maxv + 40], 4):
                    got = None
                    for k in range(max(0, (target - base) // 2 - 40), max(1, (target - base) // 2 + 40)):
                        mm = mk_msg("q", rid, (peer, "po0"), (alias_for_msgs, "ghost" + "x" * k), 0, 1)
                        if len(pickle.dumps(mm)) <= maxv and F.predict_err_sizes(M, R_NAME, mm).get("ud") == target:
                            got = mm
                            break
                    if got is not None:
                        payload = pickle.dumps(got)
                        break
            if maxv < self.real_max and rng.random() < 0.35:
                target = rng.choice([maxv, maxv, maxv - 1, maxv + 1])
                mk = lambda k: mk_msg(kind, rid, (peer, "po0"), (alias_for_msgs, dobj), k, 1)   # noqa: E731
                k = pad_to(mk, target)
                if k is not None:
                    payload = pickle.dumps(mk(k))
            pieces.append(F.mkframe(payload))
            meaning.append("msg:" + kind)
        if fault in ("marker", "marker-insert", "oversize", "maxhdr", "lenlie") and rng.random() < 0.5:
            pieces.append(bytes(rng.randrange(256) for _ in range(rng.choice([1, 3, 7, 8, 9, 20]))))
            meaning.append("junk")
        return pieces, meaning

    def fault_piece(self, fault, peer, server, maxv, other_names, rids):
        rng = self.rng
        good = pickle.dumps(mk_msg("q", "f%03d" % rng.randint(0, 999), (peer, "po0"), (R_NAME, "o0"), 0, 1))
        if fault == "marker":
            b = rng.choice([0x00, 0x4f, 0x51, 0x70, 0xff, rng.randrange(256)])
            if b == 0x50:
                b = 0x51
            return bytes([b]) + F.mkframe(good)[1:], "marker"
        if fault == "marker-insert":
            b = rng.choice([0x00, 0x0a, 0x51, 0xff])
            return bytes([b]) + F.mkframe(good)[:rng.choice([0, 1, 5, 8, 9, 30])], "marker"
        if fault == "oversize":
            v = rng.choice([maxv + 1, maxv + 1, maxv + 2, maxv + 255, maxv + 256, 2 ** 32, 2 ** 63, 2 ** 64 - 1,
                            maxv * 256 if maxv * 256 < 2 ** 64 else 2 ** 40])
            tail = good[:rng.choice([0, 0, 1, 20])]
            r = rng.random()
            if r < 0.3:
                # the low-order bytes alone would be the length of a perfectly good frame that follows
                js = [j for j in range(1, 8) if len(good) + (1 << (8 * j)) > maxv]
                v = len(good) + (rng.randint(1, 255) << (8 * rng.choice(js)))
                tail = good
            elif r < 0.7:
                v, tail = self.wide_length(maxv, good)
            return b"P" + v.to_bytes(8, "little") + tail, "oversize"
        if fault == "maxhdr":     # a header announcing exactly the maximum: legal, the connection must stay
            return b"P" + maxv.to_bytes(8, "little"), "maxhdr"
        if fault == "undecodable":
            k = rng.randrange(5)
            if k == 0:
                p = good[:rng.randint(1, len(good) - 1)]
            elif k == 1:
                p = b""
            elif k == 2:
                p = bytes([0xff]) + bytes(rng.randrange(256) for _ in range(rng.randint(0, 30)))
            elif k == 3:
                p = b"\x80\x04\x95" + bytes(8) + b"garbage."
            else:
                p = b"not a pickle at all"
            return F.mkframe(p), "undecodable"
        if fault == "notmsg":
            M, _, _ = _mods()
            obj = rng.choice([42, ("a", 1), {"source_address": 1}, None, "QMI_Message",
                              M.QMI_MessageHandlerAddress(R_NAME, "o0"), [1, 2, 3]])
            return F.mkframe(pickle.dumps(obj)), "notmsg"
        if fault == "nohs":
            return None, "nohs"
        if fault in ("hs2", "hsnone-hs"):
            nm = rng.choice([peer, peer, None, "other"]) if fault == "hsnone-hs" else rng.choice([peer, peer, "other", "", "0"])
            self.last_hs2_name = nm
            return F.mkframe(pickle.dumps(mk_hs(nm, rng.choice([server, server, not server])))), "hs2"
        if fault in ("hsdir", "wrongname", "eof-mid", "hs-marker", "hs-oversize", "hs-garbage"):
            return None, fault
        if fault == "hsnone-msg":
            return F.mkframe(good), "msg-after-none-hs"
        if fault == "badsrc":
            src = rng.choice(other_names + [R_NAME, "$client_1", "$client_2", "", peer + " ", peer.upper()])
            if src == peer:
                src = peer + "_"
            kind = rng.choice(["q", "o", "p"])
            rid = rids[0][0] if (kind == "p" and rids) else "b%03d" % rng.randint(0, 999)
            dobj = rids[0][1] if (kind == "p" and rids) else "o0"
            return F.mkframe(pickle.dumps(mk_msg(kind, rid, (src, "po0"), (R_NAME, dobj), 0, 1))), "badsrc"
        if fault == "baddst":
            dst = rng.choice(other_names + [peer, "$client_1", "", R_NAME + "2", R_NAME.lower()])
            if dst == R_NAME:
                dst = R_NAME + "_"
            kind = rng.choice(["q", "o", "p"])
            return F.mkframe(pickle.dumps(mk_msg(kind, "d%03d" % rng.randint(0, 999), (peer, "po0"), (dst, "o0"), 0, 1))), "baddst"
        if fault == "lenlie":
            delta = rng.choice([-3, -1, 1, 2, 9])
            return F.mkframe(good, max(0, len(good) + delta)), "lenlie"
        raise ValueError(fault)

    def wide_length(self, maxv, good):
        """an illegal length anywhere in the 64-bit range, biased to the boundaries of every narrower / signed
        reading of the field (2**15, 2**16, 2**31, 2**32, 2**63, 2**64) and to values for which header + length
        (+ a few trailing bytes) wraps around such a boundary; followed by a perfectly good payload and 0..15
        further bytes, so that a parser that mis-reads the length finds something deliverable"""
        rng = self.rng
        cands = []
        for e in (15, 16, 31, 32, 63, 64):
            m = 1 << e
            k = rng.choice([1, 2, 8, 9, 10, 11, 12, 16, rng.randint(1, 40), 9 + rng.randint(0, 15)])
            cands += [m - k, m - 1, m, m + 1, m + k, m - len(good), m - len(good) - 9,
                      m - len(good) - 9 - rng.randint(0, 15), m + len(good)]
        cands += [maxv + 1, maxv + 2, 2 * maxv, rng.randrange(maxv + 1, 1 << 64), rng.randrange(1 << 63, 1 << 64)]
        cands = [v for v in cands if maxv < v < (1 << 64)]
        v = rng.choice(cands)
        t = rng.choice([0, 1, 1, 2, 3, 7, 8, 9, rng.randint(0, 15)])
        trail = rng.choice([b"P" * t, bytes(rng.randrange(256) for _ in range(t)), F.mkframe(good)[:t]])
        tail = rng.choice([good + trail, good + trail, good, trail, good[:len(good) // 2]])
        return v, tail

    def cuts(self, pieces, mode):
        rng = self.rng
        L = sum(len(p) for p in pieces)
        if L == 0:
            return []
        if mode == "single" and L > 1500:
            mode = "random"
        if mode == "whole":
            return [L]
        if mode == "single":
            return [1] * L
        if mode == "frames":
            return [len(p) for p in pieces if len(p)]
        if mode == "manyper":
            out, acc = [], 0
            for p in pieces:
                acc += len(p)
                if rng.random() < 0.3:
                    out.append(acc)
                    acc = 0
            if acc:
                out.append(acc)
            return [x for x in out if x]
        pts = set()
        if mode == "two":
            pts.add(rng.randint(0, L))
        elif mode == "hdr":
            off = 0
            for p in pieces:
                if rng.random() < 0.8:
                    pts.add(off + rng.randint(1, min(9, max(1, len(p)))))
                off += len(p)
        else:
            for _ in range(rng.randint(1, 12)):
                pts.add(rng.randint(0, L))
        pts = sorted(x for x in pts if 0 < x < L)
        out, last = [], 0
        for x in pts + [L]:
            out.append(x - last)
            last = x
        return out

    def scenario(self):
        rng = self.rng
        real_max = self.real_max
        maxv = real_max if rng.random() < 0.7 else rng.randint(1500, 4000)
        handlers = [["o0", "accept"], ["o1", rng.choice(["accept", "accept", "refuse", "refuseReq", "crash"])],
                    ["o2", "accept"]]
        p_crash = 0.04
        for i in range(3):
            if rng.random() < 0.85:
                handlers.append(["rq%d" % i, "crashOnErr" if rng.random() < p_crash else
                                 ("crash" if rng.random() < 0.01 else "accept")])
        fault = rng.choice(FAULTS) if rng.random() < 0.6 else None
        roleT = rng.choice(["in", "in", "out"])
        if fault == "wrongname":
            roleT = "out"
        roleB = rng.choice(["in", "out"])
        mode = rng.choice(["whole", "single", "frames", "manyper", "two", "hdr", "random", "random"])
        nT = rng.randint(0, 3) if mode == "single" else rng.randint(0, 8)
        # requests R's objects send over T / B
        reqT = [("t%d" % i, "rq%d" % rng.randint(0, 2)) for i in range(rng.choice([0, 1, 2, 3, 3, 5]))]
        reqB = [("b%d" % i, "rq%d" % rng.randint(0, 2)) for i in range(rng.choice([0, 1, 2]))]
        # related peer names: the same name twice (allowed unless both are outgoing), prefix / suffix / case variants
        nameB = "peerB"
        if rng.random() < 0.25:
            nameB = rng.choice(["peerT", "peerT2", "peer", "PEERT", "peerT "])
            if nameB == "peerT" and roleT == "out" and roleB == "out":
                nameB = "peerT2"
        # the name the peer under test gives in its handshake: boundary family
        nameT = "peerT"
        if rng.random() < 0.25:
            nameT = rng.choice(NAME_FAMILY + [R_NAME, nameB])
            if nameT == nameB and roleT == "out" and roleB == "out":
                nameT = "peerT"
        piecesT, meanT = self.conn(roleT, nameT, nT, fault, reqT, maxv, [nameB, "$client_2"])
        piecesB, meanB = self.conn(roleB, nameB, rng.randint(1, 3), None, reqB, maxv, [])
        conns = [{"role": roleT, "peer": nameT, "pieces": [p.hex() for p in piecesT], "meaning": meanT},
                 {"role": roleB, "peer": nameB, "pieces": [p.hex() for p in piecesB], "meaning": meanB}]
        # up to two more connections (valid traffic, 0..2 pending requests each)
        extra = []
        for ci in range(2, 2 + rng.choice([0, 0, 1, 2])):
            nm = "peer%s" % "TBCD"[ci]
            role = rng.choice(["in", "out"])
            reqs = [("x%d_%d" % (ci, i), "rq%d" % rng.randint(0, 2)) for i in range(rng.randint(0, 2))]
            pcs, mean = self.conn(role, nm, rng.randint(0, 2), None, reqs, maxv, [])
            conns.append({"role": role, "peer": nm, "pieces": [p.hex() for p in pcs], "meaning": mean})
            L = sum(len(p) for p in pcs)
            st = [["open", ci, L, False]] if role == "out" else [["open", ci], ["data", ci, L]]
            st += [["send", ci, "q", rid, sobj, "ro0", 0, True] for rid, sobj in reqs]
            extra.append(st)
        steps = []
        order = [0, 1] if rng.random() < 0.5 else [1, 0]
        evq = {}
        nosend0 = True
        for ci, pieces, reqs in ((0, piecesT, reqT), (1, piecesB, reqB)):
            role = conns[ci]["role"]
            L = sum(len(p) for p in pieces)
            cm = mode if ci == 0 else rng.choice(["whole", "frames", "random"])
            q = []
            skip = 0
            if role == "out":
                first = len(pieces[0]) if pieces else 0
                if ci == 0 and fault == "eof-mid" and first > 1 and rng.random() < 0.5:
                    pre = rng.randint(0, first - 1)
                    steps_open = ["open", ci, pre, True]
                    skip = None
                else:
                    pre = rng.choice([first, first, min(L, first + rng.randint(0, 40)), L])
                    steps_open = ["open", ci, pre, False]
                    skip = pre
            else:
                r = rng.random()
                steps_open = (["open", ci, "fail"] if (ci == 1 and r < 0.03) else
                              ["open", ci, "refused"] if (ci == 1 and r < 0.05) else
                              ["open", ci, "nodelay"] if r < 0.10 else ["open", ci])
            evq[ci] = (steps_open, q)
            if skip is None:
                continue
            # chunks of the rest of the stream
            if skip:
                rest = b"".join(pieces)[skip:]
                cl = self.cuts([rest], cm if cm not in ("frames", "manyper", "hdr") else "random")
            else:
                cl = self.cuts(pieces, cm)
            for n in cl:
                q.append(["data", ci, n])
            # local requests at random times — but only once the peer's handshake has arrived (nobody can
            # address an incoming peer before that), and never to a peer that gave no name
            lo, acc = 0, skip or 0
            first = len(pieces[0]) if pieces else 0
            if role == "in":
                lo = len(q)
                for k, stp in enumerate(q):
                    acc += stp[2]
                    if acc >= first:
                        lo = k + 1
                        break
            # (since dc3d515 a send to a peer that is not ready fails cleanly: sometimes send at any time)
            nosend = False
            if rng.random() < 0.2:
                lo = 0
            if ci == 0:
                nosend0 = nosend
            if len(reqs) >= 2 and rng.random() < 0.08:
                other = "rq%d" % ((int(reqs[0][1][2:]) + 1) % 3)
                reqs = reqs + [(reqs[0][0], rng.choice([reqs[0][1], other, other]))]   # a request id used twice
            for (rid, sobj) in ([] if nosend else reqs):
                pos = rng.randint(lo, len(q))
                ok = rng.random() > 0.07
                pad = rng.choice([0, 0, 30])
                if maxv < real_max and rng.random() < 0.15:
                    pad = maxv                     # a request too big to be sent
                q.insert(pos, ["send", ci, "q", rid, sobj, rng.choice(["ro0", "ro1"]), pad, ok])
            if rng.random() < 0.25 and not nosend:
                # a local object answers / signals: replies that cannot be sent are replaced by an error reply
                pad = maxv if (maxv < real_max and rng.random() < 0.4) else 0
                q.insert(rng.randint(lo, len(q)), ["send", ci, rng.choice(["o", "p", "p"]), "x%d" % ci, "o0", "ro0", pad,
                                                   rng.random() > 0.2])
            if ci == 0:
                if fault == "eof-mid":
                    # the peer goes away in the middle of a frame (or anywhere)
                    k = rng.randint(0, len(q))
                    q.insert(k, ["eof", 0])
                elif rng.random() < 0.25:
                    q.insert(rng.randint(0, len(q)), rng.choice([["eof", 0], ["disc", 0]]))
                if rng.random() < 0.1:
                    obj = rng.choice(["o0", "rq0", "rq1"])
                    if any(h[0] == obj for h in handlers):
                        q.insert(rng.randint(0, len(q)), ["hdel", obj])
        opens = [[evq[ci][0]] for ci in order] + [[st[0]] for st in extra]
        rng.shuffle(opens)
        for o in opens:
            steps.append(o[0])
            ci = o[0][1]
            if conns[ci]["role"] == "out" and rng.random() < 0.15:
                steps.append(["dupconnect", ci])
        if rng.random() < 0.05:
            steps.append(["badconnect", rng.choice(["$client_1", "$client_2", "$client_7"])])
        qa, qb = list(evq[0][1]), list(evq[1][1])
        # keep a tail of bystander traffic for after everything that happens on connection 0
        tail_b = []
        if qb:
            k = rng.randint(1, len(qb))
            tail_b = qb[len(qb) - k:]
            qb = qb[:len(qb) - k]
        while qa or qb:
            src = qa if (qa and (not qb or rng.random() < 0.7)) else qb
            steps.append(src.pop(0))
        steps += tail_b
        # the other connections' traffic goes in anywhere after the opens (each one's own order kept)
        first_free = len(opens) + sum(1 for st in steps if st[0] == "dupconnect") + sum(1 for st in steps if st[0] == "badconnect")
        for st in extra:
            pos = first_free
            for x in st[1:]:
                pos = rng.randint(pos, len(steps))
                steps.insert(pos, x)
                pos += 1
        # router / context stop as the way every connection is lost
        if rng.random() < 0.25:
            steps.insert(rng.randint(max(first_free, len(steps) * 2 // 3), len(steps)), ["stop"])
        # a late request over each connection: must fail at once if the peer is gone, stay pending otherwise
        if rng.random() < 0.5 and not nosend0:
            steps.append(["send", 0, "q", "late0", "rq0", "ro0", 0, True])
        steps.append(["send", 1, "q", "late1", "rq%d" % rng.randint(0, 2), "ro0", 0, True])
        return {"R": R_NAME, "max": maxv, "handlers": handlers, "conns": conns, "steps": steps,
                "split_seed": rng.randrange(1 << 30), "fault": fault, "mode": mode}


# ---------------------------------------------------------------------------------------------------------
# running a scenario on the real code
# ---------------------------------------------------------------------------------------------------------

class Run:
    def __init__(self):
        self.ctx = None
        self.step_info = []      # per step: {"known": {...}, "closed": {...}, "exc": ..., "unmutated": bool}
        self.harness_error = None


_TAP = F.LogTap()


class _Patched:
    """MAX_MESSAGE_SIZE for this scenario + log tap; everything restored on exit"""

    def __init__(self, M, maxv):
        self.M, self.maxv = M, maxv

    def __enter__(self):
        M = self.M
        self.old_max = M._PeerTcpConnection.MAX_MESSAGE_SIZE
        if self.maxv != self.old_max:
            M._PeerTcpConnection.MAX_MESSAGE_SIZE = self.maxv
        lg = M._logger
        self.old = (lg.level, lg.propagate, list(lg.handlers))
        lg.setLevel(logging.INFO)
        lg.propagate = False
        lg.handlers[:] = [_TAP]
        return self

    def __exit__(self, *a):
        M = self.M
        if self.maxv != self.old_max:
            M._PeerTcpConnection.MAX_MESSAGE_SIZE = self.old_max
        lg = M._logger
        lg.setLevel(self.old[0])
        lg.propagate = self.old[1]
        lg.handlers[:] = self.old[2]
        _TAP.ctx = None


def stream_of(conn) -> bytes:
    return b"".join(bytes.fromhex(p) for p in conn["pieces"])


def lenient_frames(stream: bytes, maxv: int):
    """payloads of the frames the protocol sees in `stream` (stops at the first framing violation)"""
    pos, out = 0, []
    while len(stream) - pos >= 9 and stream[pos] == 0x50:
        size = int.from_bytes(stream[pos + 1:pos + 9], "little")
        if size > maxv or len(stream) - pos < 9 + size:
            break
        out.append(stream[pos + 9:pos + 9 + size])
        pos += 9 + size
    return out


def claimed_name(stream: bytes, maxv: int, ctx):
    fr = lenient_frames(stream[:4096], maxv)
    if fr:
        c = ctx.classify(fr[0])
        if c[0] == "hs":
            return c[1]
    return None


def alias_table(scn):
    """alias of every connection = what `_SocketManager` must call it (accept order / requested peer name)"""
    n, out = 0, {}
    for st in scn["steps"]:
        if st[0] == "open":
            ci = st[1]
            if scn["conns"][ci]["role"] == "in":
                if len(st) > 2 and st[2] == "refused":
                    continue                      # accept() itself failed: no connection, no alias
                n += 1
                out[ci] = "$client_%d" % n
            else:
                out[ci] = scn["conns"][ci]["peer"]
    return out


def run_scenario(scn) -> Run:
    import random as _random
    M, _, _ = _mods()
    run = Run()
    with _Patched(M, scn["max"]):
        ctx = F.SimCtx(M, scn["R"], scn["max"])
        _TAP.ctx = ctx
        run.ctx = ctx
        try:
            _run_steps(M, scn, ctx, run, _random.Random(scn.get("split_seed", 0)))
        except (F.Budget, F.WouldBlock) as e:
            run.harness_error = type(e).__name__ + ": " + str(e)
    return run


def _run_steps(M, scn, ctx, run, split_rng):
    for obj, hk in scn["handlers"]:
        ctx.hadd(obj, hk)
    streams = [stream_of(c) for c in scn["conns"]]
    for s in streams:
        for p in lenient_frames(s, scn["max"]):
            ctx.define(p)
    pos = [0] * len(streams)
    aliases = alias_table(scn)
    opened = set()
    for si, st in enumerate(scn["steps"]):
        ctx.step = si
        info = {"exc": None, "unmutated": True}
        op = st[0]
        if op == "open":
            ci = st[1]
            c = scn["conns"][ci]
            mode = st[2] if (c["role"] == "in" and len(st) > 2) else None
            if mode != "refused":
                opened.add(ci)
            if c["role"] == "in":
                ctx.accept(ci, send_ok=(mode != "fail"), accept_fails=(mode == "refused"), nodelay_fails=(mode == "nodelay"))
            else:
                pre = streams[ci][:st[2]]
                pos[ci] = st[2]
                _, exc = ctx.connect(ci, c["peer"], pre, bool(st[3]), split_rng)
                info["exc"] = None if exc is None else type(exc).__name__
                ctx.pump(ci)
        elif op == "data":
            ci, n = st[1], st[2]
            if ci in opened:
                ctx.socks[ci].inbuf.extend(streams[ci][pos[ci]:pos[ci] + n])
                pos[ci] += n
                ctx.pump(ci)
        elif op == "eof":
            ci = st[1]
            if ci in opened:
                ctx.socks[ci].eof = True
                ctx.pump(ci)
        elif op == "send":
            _, ci, kind, rid, sobj, dobj, pad, ok = st
            alias = aliases.get(ci, "nowhere")
            m = mk_msg(kind, rid, (scn["R"], sobj), (alias, dobj), pad, 1)
            nm = claimed_name(streams[ci], scn["max"], ctx)
            if isinstance(nm, str):
                mm = copy.copy(m)
                mm.destination_address = M.QMI_MessageHandlerAddress(nm, dobj)
                payload = pickle.dumps(mm)
            else:
                payload = b""
            info["too_big"] = len(payload) > scn["max"]
            info["unmutated"] = ctx.send(alias, m, payload, ok, ctx.socks.get(ci))
        elif op == "disc":
            ctx.disconnect(aliases.get(st[1], "nowhere"))
        elif op == "stop":
            ctx.close_all()
        elif op == "dupconnect":
            # a second connect_to_peer to a peer that is (or was) connected under that name
            ci = st[1]
            _, exc = ctx.connect(50 + ci, scn["conns"][ci]["peer"], b"", True, split_rng)
            info["exc"] = None if exc is None else type(exc).__name__
        elif op == "badconnect":
            _, exc = ctx.connect(60, st[1], b"", True, split_rng)
            info["exc"] = None if exc is None else type(exc).__name__
        elif op == "hadd":
            ctx.hadd(st[1], st[2])
        elif op == "hdel":
            if st[1] in ctx.handlers:
                ctx.hdel(st[1])
        info["known"] = {ci: ctx.sm.has_peer_context(aliases[ci]) for ci in opened}
        info["npeers"] = len(ctx.sm.get_peer_context_names())
        info["closed"] = {ci: ctx.socks[ci].closed for ci in opened}
        info["registered"] = sorted(ctx.router._address_to_messagehandler_map.keys())
        run.step_info.append(info)


# ---------------------------------------------------------------------------------------------------------
# the property, evaluated directly (reference walk; independent of the Lean model)
# ---------------------------------------------------------------------------------------------------------

class _RC:
    def __init__(self, role, peer):
        self.role, self.peer = role, peer
        self.alias = None
        self.rx = bytearray()
        self.pos = 0
        self.hs = False
        self.name = None
        self.dead = None          # None | 'violation' | 'eof' | 'disconnect' | 'connect-failed'
        self.viol = None
        self.outstanding = collections.OrderedDict()
        self.opened = False


def _advance(scn, ctx, c, handlers, exp, only_one=False):
    """consume newly complete frames according to the protocol; append expected arrivals to `exp`"""
    M = ctx.M
    maxv = scn["max"]
    while c.dead is None:
        buf, p = c.rx, c.pos
        if p >= len(buf):
            break
        if buf[p] != 0x50:
            c.viol = "marker"
            break
        if len(buf) - p < 9:
            break
        size = int.from_bytes(buf[p + 1:p + 9], "little")
        if size > maxv:
            c.viol = "oversize"
            break
        if len(buf) - p < 9 + size:
            break
        payload = bytes(buf[p + 9:p + 9 + size])
        c.pos = p + 9 + size
        cl = ctx.classify(payload)
        if cl[0] == "undec":
            c.viol = "undecodable"
        elif cl[0] == "notmsg":
            c.viol = "notmsg"
        elif cl[0] == "hs":
            if c.hs:
                c.viol = "hs2"
            elif not isinstance(cl[1], str):
                c.viol = "hsname"             # a handshake must say who the peer is
            else:
                c.hs, c.name = True, cl[1]
                if cl[3] == (c.role == "in"):
                    c.viol = "hsdir"
        else:
            m = cl[1]
            if not c.hs:
                c.viol = "nohs"
            elif m.destination_address.context_id != scn["R"]:
                c.viol = "baddst"
            elif c.name is None or m.source_address.context_id != c.name:
                c.viol = "badsrc"
            else:
                obj = m.destination_address.object_id
                if isinstance(m, M.QMI_ReplyMessage):
                    c.outstanding.pop(m.request_id, None)
                if obj in handlers:
                    mm = copy.copy(m)
                    mm.source_address = M.QMI_MessageHandlerAddress(c.alias, m.source_address.object_id)
                    exp.append(("msg", obj, F.snapshot(mm)))
        if c.viol:
            break
        if only_one:
            break
    if c.viol and c.dead is None:
        c.dead = "violation"
        return True
    return False


def _loss(c, handlers, exp):
    for rid, sobj in c.outstanding.items():
        if sobj in handlers:
            exp.append(("err", sobj, rid))
    c.outstanding.clear()


def _match(e, a) -> bool:
    # a = (step, obj, message, snapshot, beh)
    if e[0] == "msg":
        return a[1] == e[1] and a[3] == e[2]
    m = a[2]
    return (a[1] == e[1] and type(m).__name__ == "QMI_ErrorReplyMessage" and m.request_id == e[2]
            and tuple(m.destination_address)[1] == e[1])


def oracle(scn, run: Run):
    """returns list of (signature, detail)"""
    ctx = run.ctx
    M = ctx.M
    probs = []
    if run.harness_error:
        return [("loop:" + run.harness_error.split(":")[0] + ":reader-or-recv-never-terminates", run.harness_error)]
    handlers = {o: h for o, h in scn["handlers"]}
    conns = [_RC(c["role"], c["peer"]) for c in scn["conns"]]
    streams = [stream_of(c) for c in scn["conns"]]
    pos = [0] * len(conns)
    aliases = alias_table(scn)
    arr_by_step = collections.defaultdict(list)
    for a in ctx.arrivals:
        arr_by_step[a[0]].append(a)
    lost_elsewhere = set()
    open_order = []        # connections in the order they were registered with the socket manager

    def add(sig, detail):
        if not any(p[0] == sig for p in probs):
            probs.append((sig, detail))

    for si, st in enumerate(scn["steps"]):
        exp = []
        op = st[0]
        info = run.step_info[si] if si < len(run.step_info) else None
        if info is None:
            break
        ctxclass = "valid-stream"
        ci = st[1] if op in ("open", "data", "eof", "send", "disc", "dupconnect") else None
        c = conns[ci] if ci is not None else None
        losskind = None
        if op == "open" and c.role == "in" and len(st) > 2 and st[2] == "refused":
            pass                                  # accept() failed: there is no connection at all
        elif op == "open":
            c.opened = True
            c.alias = aliases[ci]
            open_order.append(ci)
            if c.role == "in" and len(st) > 2 and st[2] == "fail":
                c.dead = "accept-failed"          # the server handshake could not be sent
            if c.role == "out":
                c.rx += streams[ci][:st[2]]
                pos[ci] = st[2]
                _advance(scn, ctx, c, handlers, exp, only_one=True)
                ok = c.hs and c.viol is None and c.dead is None and c.name == c.peer
                if c.peer.startswith("$"):
                    ok = False            # names of that form are reserved for local aliases: connecting is refused
                    c.nosock = True       # ... before any socket is made
                if not ok:
                    c.dead = "connect-failed"
                    if info["exc"] is None:
                        add("containment:connect:%s:no-exception" % (c.viol or ("name-mismatch" if c.hs else "incomplete-handshake")),
                            "connect_to_peer returned normally")
                else:
                    if info["exc"] is not None:
                        add("delivery:connect:valid-handshake-rejected", "connect_to_peer raised %s" % info["exc"])
                    if _advance(scn, ctx, c, handlers, exp):
                        losskind = "violation"
                        _loss(c, handlers, exp)
        elif op == "data":
            if c.opened:
                c.rx += streams[ci][pos[ci]:pos[ci] + st[2]]
                pos[ci] += st[2]
                if _advance(scn, ctx, c, handlers, exp):
                    losskind = "violation"
                    _loss(c, handlers, exp)
        elif op == "eof":
            if c.opened and c.dead is None:
                c.dead = "eof"
                losskind = "eof"
                _loss(c, handlers, exp)
        elif op == "disc":
            if c.opened and c.dead is None:
                c.dead = "disconnect"
                losskind = "disconnect"
                _loss(c, handlers, exp)
        elif op == "send":
            _, _, kind, rid, sobj, dobj, pad, ok = st
            if not info["unmutated"]:
                add("delivery:sender-mutated-callers-message", "send_message changed the message object it was given")
            ready = c.opened and c.dead is None and c.hs and isinstance(c.name, str)
            if (not ready) or (not ok) or info.get("too_big"):
                # the peer is gone / has not shaken hands yet / the socket fails / the message is too big:
                # the request fails at once with a delivery error
                if kind == "q" and sobj in handlers:
                    exp.append(("err", sobj, rid))
            elif kind == "q" and rid not in c.outstanding:
                c.outstanding[rid] = sobj
        elif op == "stop":
            # router / context stop: every live connection is closed (its peer sees EOF) and every pending request
            # of every connection fails with one error reply
            losskind = "stop"
            for cj in open_order:
                cc = conns[cj]
                if cc.dead is None:
                    cc.dead = "stop"
                    _loss(cc, handlers, exp)
        elif op in ("dupconnect", "badconnect"):
            # must be refused (or fail) with an exception and must not disturb anything that exists
            if info["exc"] is None:
                add("containment:connect:%s:no-exception" % op, "connect_to_peer returned normally")
            if si > 0 and info["npeers"] != run.step_info[si - 1]["npeers"]:
                add("containment:connect:%s:peer-map-changed" % op, "number of known peers changed")
        elif op == "hadd":
            handlers[st[1]] = st[2]
        elif op == "hdel":
            handlers.pop(st[1], None)

        got = arr_by_step.get(si, [])
        cls = (c.viol if (c is not None and c.viol) else ctxclass)
        pre = "isolation:" if (ci is not None and (lost_elsewhere - {ci})) else ""
        # compare expected and observed arrivals of this step
        k = 0
        while k < len(exp) and k < len(got) and _match(exp[k], got[k]):
            k += 1
        if k < len(exp) or k < len(got):
            e = exp[k] if k < len(exp) else None
            g = got[k] if k < len(got) else None
            if e is None:
                if c is not None and (c.dead is not None):
                    add(pre + "containment:%s:delivered-offending-or-later-message" % (c.viol or c.dead),
                        "step %d %s: unexpected arrival at %s: %s" % (si, st[:3], g[1], g[3][0]))
                else:
                    add(pre + "delivery:spurious-arrival:%s" % cls, "step %d %s: unexpected arrival at %s: %s" % (si, st[:3], g[1], g[3]))
            elif e[0] == "err":
                if g is not None and type(g[2]).__name__ == "QMI_ErrorReplyMessage" and any(
                        _match(x, g) for x in exp[:k]):
                    add(pre + "pending:%s:duplicate-error-reply" % (losskind or "send"), "step %d: %s" % (si, e))
                else:
                    add(pre + "pending:%s:request-without-error-reply" % (losskind or "unsendable-request"),
                        "step %d %s: request %s of %s got no error reply" % (si, st[:3], e[2], e[1]))
            else:
                if g is None:
                    add(pre + "delivery:missing-or-late:%s" % cls, "step %d %s: message for %s not delivered once complete" % (si, st[:3], e[1]))
                elif g[1] == e[1] and g[3][0] == e[2][0]:
                    later = any(_match(x, g) for x in exp[k + 1:])
                    add(pre + ("delivery:out-of-order:%s" % cls if later else "delivery:altered-message:%s" % cls),
                        "step %d: expected %s got %s" % (si, e[2], g[3]))
                else:
                    add(pre + "delivery:wrong-message:%s" % cls, "step %d: expected %s at %s, got %s at %s" % (si, e[2][0], e[1], g[3][0], g[1]))
        # membership / socket state of every connection after this step
        for cj, cc in enumerate(conns):
            if not cc.opened:
                continue
            known, closed = info["known"].get(cj), info["closed"].get(cj)
            prej = "isolation:" if (lost_elsewhere - {cj}) and cc.dead is None else ""
            if cc.dead is None:
                if not known or closed:
                    why = "after-loss-of-other-connection" if prej else "valid-stream"
                    add(prej + "delivery:connection-dropped:%s" % why,
                        "step %d %s: connection %d (%s) known=%s closed=%s though the peer kept to the protocol" % (si, st[:3], cj, cc.alias, known, closed))
            else:
                if known or not (closed or getattr(cc, "nosock", False)):
                    add("containment:%s:not-disconnected" % (cc.viol or cc.dead),
                        "step %d %s: connection %d (%s) known=%s socket_closed=%s after %s" % (si, st[:3], cj, cc.alias, known, closed, cc.viol or cc.dead))
        if c is not None and c.dead is not None:
            lost_elsewhere.add(ci)
    for where, e in ctx.escaped:
        add("loop:exception-escaped:%s:%s" % (where, type(e).__name__), "%r left %s" % (e, where))
    return probs


# ---------------------------------------------------------------------------------------------------------
# shrinking and systematic sweeps
# ---------------------------------------------------------------------------------------------------------

def _sigs(scn):
    try:
        return [p[0] for p in oracle(scn, run_scenario(scn))]
    except Exception as e:   # a scenario the harness itself cannot run is not a counterexample
        return []


def _merge_data(scn, ci, lo=0, hi=None):
    """the data steps number lo..hi-1 of connection ci become one step at the position of the first of them"""
    ds = [k for k, st in enumerate(scn["steps"]) if st[0] == "data" and st[1] == ci][lo:hi]
    if len(ds) < 2:
        return None
    tot = sum(scn["steps"][k][2] for k in ds)
    steps = []
    for k, st in enumerate(scn["steps"]):
        if k == ds[0]:
            steps.append(["data", ci, tot])
        elif k not in ds:
            steps.append(st)
    return dict(scn, steps=steps)


def shrink(scn, sig, budget=150):
    scn = json.loads(json.dumps({k: v for k, v in scn.items()}))
    used = [0]

    def still(s):
        used[0] += 1
        return used[0] <= budget and sig in _sigs(s)

    # drop the bystander's traffic
    cand = dict(scn, steps=[s for s in scn["steps"] if not (s[0] in ("data", "send", "eof", "disc") and s[1] == 1)])
    if still(cand):
        scn = cand
    # one segment per connection, if the failure does not depend on the segmentation
    for ci in (0, 1):
        cand = _merge_data(scn, ci)
        if cand is not None and still(cand):
            scn = cand
        else:
            # segmentation matters: coarsen it by halves as far as the failure survives
            todo = [(0, sum(1 for st in scn["steps"] if st[0] == "data" and st[1] == ci))]
            while todo and used[0] < budget // 2:
                lo, hi = todo.pop()
                if hi - lo < 2:
                    continue
                cand = _merge_data(scn, ci, lo, hi)
                if cand is not None and still(cand):
                    scn = cand
                else:
                    mid = (lo + hi) // 2
                    todo.append((lo, mid))      # handled after the upper half, so indices stay valid
                    todo.append((mid, hi))
    # drop single steps (last first)
    i = len(scn["steps"]) - 1
    while i >= 0 and used[0] < budget:
        if scn["steps"][i][0] != "open":
            cand = dict(scn, steps=scn["steps"][:i] + scn["steps"][i + 1:])
            if still(cand):
                scn = cand
        i -= 1
    # drop pieces of connection 0's stream when it arrives in one segment
    ds = [k for k, st in enumerate(scn["steps"]) if st[0] == "data" and st[1] == 0]
    op = next((st for st in scn["steps"] if st[0] == "open" and st[1] == 0), None)
    if len(ds) == 1 and op is not None and len(op) == 2:
        j = len(scn["conns"][0]["pieces"]) - 1
        while j >= 1 and used[0] < budget:
            pcs = scn["conns"][0]["pieces"]
            cut = len(pcs[j]) // 2
            conns = [dict(scn["conns"][0], pieces=pcs[:j] + pcs[j + 1:])] + scn["conns"][1:]
            steps = [list(st) for st in scn["steps"]]
            steps[ds[0]][2] = max(0, steps[ds[0]][2] - cut)
            cand = dict(scn, conns=conns, steps=steps)
            if "meaning" in cand["conns"][0]:
                cand["conns"][0] = {k: v for k, v in cand["conns"][0].items() if k != "meaning"}
            if still(cand):
                scn = cand
            j -= 1
    for h in list(scn["handlers"]):
        cand = dict(scn, handlers=[x for x in scn["handlers"] if x != h])
        if still(cand):
            scn = cand
    return scn


def base_scenario(role="in", maxv=None, nreq=2, handlers=None, fault=None, fault_at=1, loss=None, replied=(0,)):
    """small hand-built scenario used by the systematic sweeps"""
    M, _, _ = _mods()
    real_max = 10000000
    maxv = maxv or real_max
    peer = "peerT"
    server = role == "out"
    reqs = [("t%d" % i, "rq%d" % (i % 2)) for i in range(nreq)]
    msgs = [F.mkframe(pickle.dumps(mk_msg("q", "p1", (peer, "po0"), (R_NAME, "o0"), 0, 1))),
            F.mkframe(pickle.dumps(mk_msg("q", "p2", (peer, "po1"), (R_NAME, "ghost"), 0, 0))),
            F.mkframe(pickle.dumps(mk_msg("o", "", (peer, "po0"), (R_NAME, "o1"), 3, 1)))]
    for i in replied:
        if i < nreq:
            msgs.append(F.mkframe(pickle.dumps(mk_msg("p", reqs[i][0], (peer, "ro0"), (R_NAME, reqs[i][1]), 0, 1))))
    msgs.append(F.mkframe(pickle.dumps(mk_msg("q", "p3", (peer, "po0"), (R_NAME, "o2"), 0, 1))))
    pieces = [F.mkframe(pickle.dumps(mk_hs(peer, server)))] + msgs
    if fault:
        import random as _r
        g = ScnGen(_r.Random(fault_at * 7919 + len(fault)), real_max)
        fault_at = min(fault_at, len(msgs))
        if fault == "nohs":
            pieces = pieces[1:]
        elif fault == "hsdir":
            pieces[0] = F.mkframe(pickle.dumps(mk_hs(peer, not server)))
        elif fault in ("hsnone-hs", "hsnone-msg"):
            pieces[0] = F.mkframe(pickle.dumps(mk_hs(None, server)))
            p, _ = g.fault_piece(fault, peer, server, maxv, ["peerB"], reqs)
            pieces.insert(1 + fault_at, p)
        elif fault == "wrongname":
            pieces[0] = F.mkframe(pickle.dumps(mk_hs(peer + "X", server)))
        elif fault == "hs-marker":
            pieces[0] = bytes([0x51]) + pieces[0][1:]
        elif fault == "hs-oversize":
            hp = pieces[0][9:]
            pieces[0] = b"P" + (len(hp) + (1 << (8 * (3 + fault_at % 5)))).to_bytes(8, "little") + hp
        elif fault == "hs-garbage":
            pieces[0] = F.mkframe(pieces[0][9:9 + len(pieces[0]) // 2])
        else:
            p, _ = g.fault_piece(fault, peer, server, maxv, ["peerB"], reqs)
            pieces.insert(1 + fault_at, p)
    hb = F.mkframe(pickle.dumps(mk_hs("peerB", False)))
    mb = F.mkframe(pickle.dumps(mk_msg("q", "pb", ("peerB", "po0"), (R_NAME, "o0"), 0, 1)))
    conns = [{"role": role, "peer": peer, "pieces": [p.hex() for p in pieces]},
             {"role": "in", "peer": "peerB", "pieces": [hb.hex(), mb.hex()]}]
    hs = handlers or [["o0", "accept"], ["o1", "accept"], ["o2", "accept"], ["rq0", "accept"], ["rq1", "accept"]]
    return {"R": R_NAME, "max": maxv, "handlers": hs, "conns": conns, "steps": [], "split_seed": 1,
            "_reqs": reqs, "_loss": loss, "_nosend": fault in ("hsnone-hs", "hsnone-msg", "nohs")}


def with_cuts(base, cuts, send_at=0, loss_at=None):
    """steps for a base scenario: open both, bystander handshake, requests, connection-0 data cut as given,
    optional loss, bystander message at the end"""
    scn = dict(base)
    steps = [["open", 0] if base["conns"][0]["role"] == "in" else ["open", 0, len(bytes.fromhex(base["conns"][0]["pieces"][0])), False],
             ["open", 1], ["data", 1, len(bytes.fromhex(base["conns"][1]["pieces"][0]))]]
    data = []
    L = len(stream_of(base["conns"][0]))
    start = steps[0][2] if len(steps[0]) > 2 else 0
    last = start
    for x in sorted(set(c for c in cuts if start < c < L)) + [L]:
        data.append(["data", 0, x - last])
        last = x
    sends = [["send", 0, "q", rid, sobj, "ro0", 0, True] for rid, sobj in base["_reqs"]]
    if base.get("_nosend"):
        sends = []
    # requests go out only after the peer's handshake has arrived completely
    first = len(bytes.fromhex(base["conns"][0]["pieces"][0])) if base["conns"][0]["pieces"] else 0
    acc, lo = start, 0
    if acc < first:
        lo = len(data)
        for k, stp in enumerate(data):
            acc += stp[2]
            if acc >= first:
                lo = k + 1
                break
    send_at = max(send_at, lo)
    body = data[:send_at] + sends + data[send_at:]
    if base.get("_loss") and loss_at is not None:
        body.insert(min(loss_at, len(body)), [base["_loss"], 0])
    steps += body
    steps += [["data", 1, len(bytes.fromhex(base["conns"][1]["pieces"][1]))], ["send", 1, "q", "late", "rq0", "ro0", 0, True]]
    scn["steps"] = steps
    scn = {k: v for k, v in scn.items() if not k.startswith("_")}
    return scn


# ---------------------------------------------------------------------------------------------------------

def length_sweep(quick=False):
    """an oversize length field at frame index 1 of the small base stream, followed by a good payload and `t`
    trailing bytes: boundary values of every width / signedness (MAX+1, 2**15, 2**16, 2**31, 2**32, 2**63, 2**64
    each -k..+k) and the values for which 9 + length + t wraps to 0 at 2**32 / 2**64; each as one segment, cut
    right after the header, and (not in the quick subset) byte by byte"""
    real_max = 10000000
    good = pickle.dumps(mk_msg("q", "L1", ("peerT", "po0"), (R_NAME, "o0"), 0, 1))
    vals = set()
    ks = (1, 9, 10, 12) if quick else tuple(range(1, 26))
    for e in ((32, 64) if quick else (15, 16, 31, 32, 63, 64)):
        m = 1 << e
        for k in ks:
            vals.update([m - k, m + k])
        vals.update([m, m - len(good), m - len(good) - 9, m - len(good) - 10, m + len(good)])
    vals.update([real_max + 1, real_max + 2, 2 * real_max])
    out = []
    for v in sorted(x for x in vals if real_max < x < (1 << 64)):
        for t in ((0, 1, 3) if quick else range(0, 17)):
            b = base_scenario("in", None, 1, None, None, 0, None)
            piece = b"P" + v.to_bytes(8, "little") + good + b"P" * t
            b["conns"][0]["pieces"].insert(2, piece.hex())
            off = sum(len(p) // 2 for p in b["conns"][0]["pieces"][:2])
            L = len(stream_of(b["conns"][0]))
            out.append(dict(with_cuts(b, []), fault="oversize", mode="whole"))
            if not quick or t == 1:
                out.append(dict(with_cuts(b, [off + 9]), fault="oversize", mode="two"))
                out.append(dict(with_cuts(b, [off]), fault="oversize", mode="two"))
            if not quick and t in (0, 1):
                out.append(dict(with_cuts(b, range(L)), fault="oversize", mode="single"))
    return out


def stop_corpus():
    """router / context stop (`close_all`) with 1..4 connections, incoming and outgoing in every registration order,
    0..2 requests pending on each"""
    import itertools
    out = []
    hs_handlers = [["o0", "accept"], ["rq0", "accept"], ["rq1", "accept"]]
    for n in (1, 2, 3, 4):
        for roles in itertools.product(("in", "out"), repeat=n):
            for pend in ([0] * n, [1] * n, [2] * n, [(i + 1) % 3 for i in range(n)], [(2 * i) % 3 for i in range(n)]):
                conns, steps, sends = [], [], []
                for ci, role in enumerate(roles):
                    nm = "peer%d" % ci
                    hs = F.mkframe(pickle.dumps(mk_hs(nm, role == "out")))
                    msg = F.mkframe(pickle.dumps(mk_msg("q", "m%d" % ci, (nm, "po0"), (R_NAME, "o0"), 0, 1)))
                    conns.append({"role": role, "peer": nm, "pieces": [hs.hex(), msg.hex()]})
                    if role == "out":
                        steps.append(["open", ci, len(hs), False])
                        steps.append(["data", ci, len(msg)])
                    else:
                        steps.append(["open", ci])
                        steps.append(["data", ci, len(hs) + len(msg)])
                    for k in range(pend[ci]):
                        sends.append(["send", ci, "q", "r%d_%d" % (ci, k), "rq%d" % ((ci + k) % 2), "ro0", 0, True])
                steps += sends + [["stop"], ["send", 0, "q", "late", "rq0", "ro0", 0, True]]
                out.append({"R": R_NAME, "max": 10000000, "handlers": hs_handlers, "conns": conns, "steps": steps,
                            "split_seed": 1, "fault": None, "mode": "whole"})
    return out


def handshake_field_corpus():
    """first handshake x repeated handshake x following traffic, with context names and versions from the boundary
    family (empty, blank, "0", long, non-ASCII, the local context's own name, another peer's name)"""
    out = []
    hs_handlers = [["o0", "accept"]]
    hb = F.mkframe(pickle.dumps(mk_hs("peerB", False)))
    mb = F.mkframe(pickle.dumps(mk_msg("q", "pb", ("peerB", "po0"), (R_NAME, "o0"), 0, 1)))
    for name in NAME_FAMILY[:-1] + [R_NAME, "peerB"]:
        for ver in (None, "", "x" * 300):
            for nm2 in (None, name, "other", ""):
                pcs = [F.mkframe(pickle.dumps(mk_hs(name, False, ver))),
                       F.mkframe(pickle.dumps(mk_msg("q", "a1", (name, "po0"), (R_NAME, "o0"), 0, 1)))]
                if nm2 is not None:
                    pcs.append(F.mkframe(pickle.dumps(mk_hs(nm2, False, ver))))
                    pcs.append(F.mkframe(pickle.dumps(mk_msg("q", "a2", (nm2, "po0"), (R_NAME, "o0"), 0, 1))))
                    pcs.append(F.mkframe(pickle.dumps(mk_msg("o", "", (name, "po0"), (R_NAME, "o0"), 0, 1))))
                conns = [{"role": "in", "peer": name, "pieces": [p.hex() for p in pcs]},
                         {"role": "in", "peer": "peerB", "pieces": [hb.hex(), mb.hex()]}]
                for cuts in ([sum(map(len, pcs))], [len(p) for p in pcs]):
                    steps = [["open", 0], ["open", 1], ["data", 1, len(hb)]] + [["data", 0, n] for n in cuts] + \
                            [["data", 1, len(mb)]]
                    out.append({"R": R_NAME, "max": 10000000, "handlers": hs_handlers, "conns": conns, "steps": steps,
                                "split_seed": 1, "fault": "hs2" if nm2 is not None else None, "mode": "frames"})
                if ver is not None and nm2 is not None:
                    break
    return out


def fixed_corpus():
    """deterministic scenarios that run first on every seed: every fault kind in both roles (one segment and, for
    the accepting side, single bytes), frames of exactly limit-1 / limit / limit+1, operations repeated or in an
    unusual order, peers with equal / related names"""
    out = []
    for role in ("in", "out"):
        for fault in (None,) + FAULTS:
            if fault == "eof-mid" or (fault == "wrongname" and role == "in"):
                continue
            for at in (0, 2):
                b = base_scenario(role, None, 2, None, fault, at, None)
                L = len(stream_of(b["conns"][0]))
                out.append(dict(with_cuts(b, []), fault=fault, mode="whole"))
                if role == "in" and at == 2:
                    out.append(dict(with_cuts(b, range(L)), fault=fault, mode="single"))
                    out.append(dict(with_cuts(b, _frame_offsets(b["conns"][0]["pieces"])), fault=fault, mode="frames"))
    for delta in (-1, 0, 1):
        maxv = 2000
        for what in ("frame", "handshake"):
            b = base_scenario("in" if what == "frame" else "out", maxv, 1, None, None, 0, None)
            if what == "frame":
                mk = lambda k: mk_msg("o", "", ("peerT", "po0"), (R_NAME, "o0"), k, 1)   # noqa: E731
                k = pad_to(mk, maxv + delta)
                if k is None:
                    continue
                b["conns"][0]["pieces"].insert(2, F.mkframe(pickle.dumps(mk(k))).hex())
            else:
                k = pad_to(lambda k: mk_hs("peerT", True, "9" * (k + 1)), maxv + delta)
                if k is None:
                    continue
                b["conns"][0]["pieces"][0] = F.mkframe(pickle.dumps(mk_hs("peerT", True, "9" * (k + 1)))).hex()
            out.append(dict(with_cuts(b, []), fault=None, mode="whole"))
            out.append(dict(with_cuts(b, [300, 1200]), fault=None, mode="random"))
    # length fields over the whole 64-bit range (see `length_sweep`), a few of them on every run
    out += length_sweep(quick=True)
    out += stop_corpus()
    out += handshake_field_corpus()
    # the same operation twice / unusual order
    b = base_scenario("in", None, 2, None, None, 0, None)
    scn = with_cuts(b, [])
    extra = [["send", 0, "q", "t0", "rq1", "ro0", 0, True],          # request id used twice, by another object
             ["hdel", "o2"], ["hdel", "o2"],
             ["disc", 0], ["disc", 0], ["eof", 0], ["data", 0, 5],
             ["send", 0, "q", "again", "rq1", "ro0", 0, True],         # to a peer that is gone
             ["dupconnect", 1], ["badconnect", "$client_1"], ["eof", 1], ["eof", 1]]
    out.append(dict(scn, steps=scn["steps"] + extra, fault=None, mode="whole"))
    out.append(dict(scn, steps=scn["steps"][:2] + [["send", 0, "q", "early", "rq0", "ro0", 0, True],
                                                  ["disc", 0]] + scn["steps"][2:], fault=None, mode="whole"))
    # equal and related peer names
    for nm in ("peerT", "peerT2", "peer", "PEERT"):
        b = base_scenario("in", None, 1, None, "badsrc", 1, None)
        hb = F.mkframe(pickle.dumps(mk_hs(nm, False)))
        mb = F.mkframe(pickle.dumps(mk_msg("q", "pb", (nm, "po0"), (R_NAME, "o0"), 0, 1)))
        b["conns"][1] = {"role": "in", "peer": nm, "pieces": [hb.hex(), mb.hex()]}
        out.append(dict(with_cuts(b, []), fault="badsrc", mode="whole"))
    return out


class C06(Prop):
    id = "C06"
    lean_modules = ["QmiModel.Props.C06"]
    driver = "drv_c06"
    modelled_not_verified = [
        "pickle.loads / pickle.dumps (payloads are opaque tokens; the harness tells the model what each payload decodes to and how "
        "big the pickled error reply for a request is)",
        "TCP as a reliable FIFO byte stream; socket.recv returning 1..n bytes (the byte counts the code asks for are compared with "
        "the model's on every run); asyncio calling the reader while the socket is readable and containing a callback's exception "
        "(fake loop in harness/c06_fakes.py)",
        "_EventDrivenThread (run_in_thread*) replaced by direct calls: the socket-manager code runs single-threaded",
        "the handlers' behaviour (accept / QMI_MessageDeliveryException / other exception) is a parameter of the model",
        "suppress_version_mismatch_warnings, _SocketManager.close_all / MessageRouter.stop, the UDP responder and the handshake "
        "timeout are outside this model",
    ]

    # -- one batch of scenarios: run on the real code, oracle, then the same op lines through the Lean driver
    def _batch(self, ctx: Ctx, scns, res: Result, sample=True):
        drv = LeanDriver(self.driver)
        all_lines, all_outs, spans = [], [], []
        for i, scn in enumerate(scns):
            run = run_scenario(scn)
            sx = run.ctx
            spans.append((len(all_lines), len(sx.lines), scn))
            all_lines += sx.lines
            all_outs += sx.outs
            nrecv = sum(1 for l in sx.lines if l.startswith("recv "))
            nontriv = nrecv >= 2 and len(sx.arrivals) >= 1
            res.note_case((tuple("".join(c["pieces"]) for c in scn["conns"]),
                           tuple(map(tuple, scn["steps"])), tuple(map(tuple, scn["handlers"]))), nontrivial=nontriv)
            res.count("fault_" + str(scn.get("fault")))
            res.count("cutmode_" + str(scn.get("mode")))
            res.count("role_" + scn["conns"][0]["role"])
            res.count("max_" + ("real" if scn["max"] == self.real_max else "reduced"))
            res.count("recv_calls", nrecv)
            res.count("handler_arrivals", len(sx.arrivals))
            for l, o in zip(sx.lines, sx.outs):
                if l == "peers":
                    res.count("accept_refused_by_os")
                if "exc:duplicate" in o:
                    res.count("connect_duplicate_refused")
                if "exc:invalidname" in o:
                    res.count("connect_invalid_name_refused")
                if "exc:wrongname" in o:
                    res.count("connect_wrong_name")
                toks = o.split(" ")
                for a, b in zip(toks, toks[1:] + [""]):
                    if (a.startswith("U:q") or (a.startswith("D:q") and a.endswith(":r"))) and not b.startswith("E:"):
                        res.count("error_reply_too_big_for_peer")
            for o in sx.outs:
                for tok in o.split(" "):
                    if tok == "V":
                        res.count("version_warning")
                    if tok.startswith("X:"):
                        res.count("closed_" + tok[2:])
                    elif tok == "Z":
                        res.count("closed_eof")
                    elif tok == "!":
                        res.count("exception_left_callback")
                    elif tok.startswith("E:") and tok.endswith(",sf"):
                        res.count("error_reply_to_peer_for_unsendable_reply")
                    elif tok.startswith("E:"):
                        res.count("error_reply_to_peer")
                    elif tok.startswith("D:e") and ",sf:" in tok:
                        res.count("local_error_reply_for_unsendable_request")
                    elif tok.startswith("D:e") and tok.endswith(":c"):
                        res.count("handler_raised_on_error_reply")
                    elif tok.startswith("D:e") and ",cw" in tok:
                        res.count("error_reply_to_local_requester")
            if sample and i < 3:
                res.sample({"fault": scn.get("fault"), "mode": scn.get("mode"), "steps": scn["steps"][:12],
                            "ops": sx.lines[-6:], "impl": sx.outs[-6:]})
            for sig, detail in oracle(scn, run):
                if sum(1 for f in res.failures if f.signature == sig) >= 1:
                    continue
                # every listed finding is reported; of the others the first few distinct ones are enough
                if known_match(self.id, sig) is None and \
                        sum(1 for f in res.failures if known_match(self.id, f.signature) is None) >= 5:
                    res.count("further_failing_signatures_not_reported")
                    continue
                small = shrink(scn, sig)
                det = next((d for s, d in oracle(small, run_scenario(small)) if s == sig), detail)
                res.failures.append(Failure(sig, "%s — %s" % (sig, det), {"kind": "scenario", "scenario": small, "signature": sig}))
        model = drv.run(all_lines) if all_lines else []
        res.traces_validated += len(scns)
        k = diff_streams(all_lines, all_outs, model)
        if k is not None:
            for (start, ln, scn) in spans:
                if start <= k < start + ln:
                    res.broken.append(Broken(
                        "correspondence", "QmiModel.Frame vs qmi.core.messaging",
                        "line %d: op=%s\n impl =%s\n model=%s" % (k - start, all_lines[k][:300], all_outs[k][:600], model[k][:600]),
                        case={"scenario": scn}))
                    break

    @property
    def real_max(self):
        M, _, _ = _mods()
        return M._PeerTcpConnection.MAX_MESSAGE_SIZE

    def correspondence(self, ctx: Ctx) -> Result:
        res = Result(rule="scenario = handler table + two peer connections (one possibly hostile, one bystander), each a byte "
                          "stream of real pickled QMI messages with at most one injected fault, cut into PRNG-chosen segments "
                          "(whole / single bytes / frame-aligned / many frames per segment / inside headers / random), interleaved "
                          "with local requests, handler removal, EOF and local disconnect; non-trivial = at least two recv calls "
                          "and one handler arrival; distinct by (streams, steps, handlers)")
        real_max = self.real_max
        g = ScnGen(ctx.rng, real_max)
        n = ctx.scale(3000, 40000)
        batch = 700
        done = 0
        corpus = fixed_corpus()
        self._batch(ctx, corpus, res, sample=False)
        res.count("fixed_corpus_scenarios", len(corpus))
        while done < n:
            scns = [g.scenario() for _ in range(min(batch, n - done))]
            self._batch(ctx, scns, res, sample=(done == 0))
            done += len(scns)
        # fixed boundary probes on the real constant and exhaustive cut sweeps of a small stream
        probes = []
        for fault in (None, "maxhdr", "oversize", "marker", "hs2", "hsnone-hs"):
            b = base_scenario("in", None, 2, None, fault, 2, None)
            L = len(stream_of(b["conns"][0]))
            probes.append(dict(with_cuts(b, []), fault=fault, mode="whole"))
            probes.append(dict(with_cuts(b, range(L)), fault=fault, mode="single"))
        b = base_scenario("in", None, 2, None, None, 0, None)
        L = len(stream_of(b["conns"][0]))
        for c in range(1, L, ctx.scale(7, 1)):
            probes.append(dict(with_cuts(b, [c]), fault=None, mode="two"))
        self._batch(ctx, probes, res, sample=False)
        res.extra["max_message_size_seen"] = real_max
        ctx.log("correspondence: %d scenarios, %d recv calls, %d handler arrivals" % (
            res.evaluations, res.distribution.get("recv_calls", 0), res.distribution.get("handler_arrivals", 0)))
        self._full_size_frame(ctx, res)
        return res

    def _full_size_frame(self, ctx: Ctx, res: Result):
        """one frame of exactly MAX_MESSAGE_SIZE bytes (and one byte more) against the real constant, implementation only"""
        real_max = self.real_max
        for target, expect_ok in ((real_max, True), (real_max + 1, False)):
            mk = lambda k: mk_msg("o", "", ("peerT", "po0"), (R_NAME, "o0"), k, 1)   # noqa: E731
            k = pad_to(mk, target)
            if k is None:
                continue
            b = base_scenario("in", None, 0, None, None, 0, None)
            b["conns"][0]["pieces"].insert(1, F.mkframe(pickle.dumps(mk(k))).hex())
            L = len(stream_of(b["conns"][0]))
            scn = dict(with_cuts(b, [ctx.rng.randint(1, L - 1), ctx.rng.randint(1, L - 1)]))
            run = run_scenario(scn)
            res.note_case(("fullsize", target))
            res.count("full_size_frames")
            for sig, detail in oracle(scn, run):
                res.failures.append(Failure(sig + ":full-size-frame", "%s — %s" % (sig, detail),
                                            {"kind": "fullsize", "target": target}))

    # -- failing-input search when a link is broken
    def search(self, ctx: Ctx, broken) -> Result:
        res = Result()

        def try_scn(scn):
            res.note_case(("sweep", json.dumps(scn["steps"])[:200], scn["conns"][0]["pieces"][-1][:40]))
            for sig, detail in oracle(scn, run_scenario(scn)):
                if not any(f.signature == sig for f in res.failures):
                    small = shrink(scn, sig, 60)
                    res.failures.append(Failure(sig, "%s — %s" % (sig, detail), {"kind": "scenario", "scenario": small, "signature": sig}))

        for b in broken:
            if b.case and "scenario" in b.case:
                try_scn(b.case["scenario"])
        # all cut points / single bytes of a valid stream, both roles
        for role in ("in", "out"):
            b = base_scenario(role, None, 2, None, None, 0, None)
            L = len(stream_of(b["conns"][0]))
            try_scn(with_cuts(b, []))
            try_scn(with_cuts(b, range(L)))
            for c in range(1, L):
                try_scn(with_cuts(b, [c], send_at=0))
        # every fault kind at every frame index, whole / single-byte / every cut in and around the fault
        for fault in FAULTS:
            if fault in ("eof-mid",):
                continue
            for role in (("out",) if fault == "wrongname" else ("in", "out")):
                for at in range(0, 6):
                    b = base_scenario(role, None, 2, None, fault, at, None)
                    L = len(stream_of(b["conns"][0]))
                    off = sum(len(bytes.fromhex(p)) for p in b["conns"][0]["pieces"][:1 + at])
                    try_scn(with_cuts(b, []))
                    try_scn(with_cuts(b, range(L)))
                    for c in range(max(1, off - 2), min(L, off + 14)):
                        try_scn(with_cuts(b, [c]))
                        try_scn(with_cuts(b, [off, c]))
            if len(res.failures) >= 6:
                return res
        # length fields across the whole 64-bit range x trailing bytes x segmentations
        for scn in length_sweep(quick=False):
            try_scn(scn)
            if len(res.failures) >= 6:
                return res
        # reduced size limit: frames of exactly max-1, max, max+1
        for target_delta in (-1, 0, 1):
            maxv = 2000
            b = base_scenario("in", maxv, 1, None, None, 0, None)
            mk = lambda k: mk_msg("o", "", ("peerT", "po0"), (R_NAME, "o0"), k, 1)   # noqa: E731
            k = pad_to(mk, maxv + target_delta)
            if k is not None:
                b["conns"][0]["pieces"].insert(2, F.mkframe(pickle.dumps(mk(k))).hex())
                try_scn(with_cuts(b, []))
                try_scn(with_cuts(b, [300, 1200]))
        # pending sets x loss kinds x position of the loss
        for nreq in (1, 2, 3):
            for mask in range(1 << nreq):
                replied = tuple(i for i in range(nreq) if mask >> i & 1)
                for loss in ("eof", "disc"):
                    for loss_at in range(0, 7):
                        b = base_scenario("in", None, nreq, None, None, 0, loss, replied)
                        try_scn(with_cuts(b, [len(bytes.fromhex(p)) for p in []] or
                                          _frame_offsets(b["conns"][0]["pieces"]), send_at=1, loss_at=loss_at))
                for fault in ("marker", "undecodable", "badsrc"):
                    for at in range(0, 6):
                        b = base_scenario("in", None, nreq, None, fault, at, None, replied)
                        try_scn(with_cuts(b, _frame_offsets(b["conns"][0]["pieces"]), send_at=1))
        return res

    def replay(self, ctx: Ctx, rp: dict):
        if rp.get("kind") == "fullsize":
            r = Result()
            self._full_size_frame(ctx, r)
            return r.failures[0] if r.failures else None
        scn = rp["scenario"]
        probs = oracle(scn, run_scenario(scn))
        for sig, detail in probs:
            if sig == rp.get("signature"):
                return Failure(sig, "%s — %s" % (sig, detail), rp)
        if probs:
            return Failure(probs[0][0], "%s — %s" % probs[0], rp)
        return None


def _frame_offsets(pieces_hex):
    out, off = [], 0
    for p in pieces_hex:
        off += len(p) // 2
        out.append(off)
    return out


PROP = C06()
