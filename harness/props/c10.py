"""C10 — task lifecycle: run() at most once and only after start; join reports the outcome; settings newest wins.

Model:    lean/QmiModel/Model/Task.lean (interleaving transition system), theorems: Props/C10.lean.
Tie:      trace refinement.  The real `QMI_Context.make_task` / task proxy / `QMI_TaskRunner` / `_TaskThread` run under the
          deterministic scheduler (`harness.simworld.run_scenario`).  Taps installed from outside write a linearised
          event log, every event carrying the abstraction of the real state at that instant:
            * `_TaskThread._state_cond` gets the class `TapCond` (logs at the *end of every protected region*, while the
              lock is still held);  `task._stop_requested` gets `TapEvent` (logs at the flag write);
              `task._settings_fifo` is re-created as a logging deque with the same contents and `maxlen`;
            * `QMI_TaskRunner.{__init__, start, stop, join, is_running, set_settings, get_settings, get_pending_settings}`
              and `_TaskThread.{__init__, run}` are wrapped (class attribute swap, restored afterwards);
            * the scripted task class logs `run()` entry / exit and what `update_settings()` returned.
          The Lean driver replays the log: each event must be enabled, result and successor state must agree.
Oracle:   the property statement evaluated directly on call/return marks and task-side observations (no Lean involved).
"""
from __future__ import annotations

import collections
import functools
import itertools
import sys
import threading as _threading
from typing import Any, Optional

from harness.core import Broken, Ctx, Failure, LeanDriver, Prop, Result

# ---------------------------------------------------------------------------
# scripts and histories
# ---------------------------------------------------------------------------
# script = {"init": "ok" | "fail_pre" | "fail_post", "body": [step, ...], "end": end}
#   step: ["guard", wait, handler]  (try/finally or except around a wait, whose cleanup raises / re-raises / swallows)
#   step: ["upd"] | ["sleep", d] | ["yield"] | ["until_stop", k] | ["wait_stop"] | ["peek"] | ["status", v]
#   end : ["ret"] | ["raise", "ValueError" | "BaseBoom" | "KeyboardInterrupt"] | ["raise_stop"]
# history = list of ops: "start" "stop" "join" "is_running" ["set", v] "get" "pend" "status" "enter" "exit"
# every scenario ends with `context.remove_rpc_object(proxy)` (release_rpc_object: stop + join unless joined).

RAISES = ("ValueError", "BaseBoom", "KeyboardInterrupt")
OPS_PLAIN = ("start", "stop", "join", "is_running", "get", "pend", "status", "enter", "exit", "shutdown")


class BodyError(Exception):
    """what the body of a `with proxy:` block raises in the scripts (an ordinary Exception subclass)"""


class BaseBoom(BaseException):
    """A BaseException that is not an Exception (the task thread catches BaseException)."""


class InitBoom(Exception):
    pass


BODY_EXC = {"BodyError": BodyError, "KeyError": KeyError, "KeyboardInterrupt": KeyboardInterrupt, "SystemExit": SystemExit,
            "BaseBoom": BaseBoom}


WAITS = ("wait_stop", "signal_wait", ["sleep", 0.5], ["sleep", 0.0], ["signal_timeout", 0.5], "raise_stop", "raise_other", "none")
HANDLERS = ("finally_raise:ValueError", "finally_raise:BaseBoom", "finally_raise:KeyboardInterrupt", "finally_ok",
            "except_raise:ValueError", "except_raise:BaseBoom", "except_from:ValueError", "except_from:KeyboardInterrupt",
            "except_reraise", "except_swallow", "any_raise_stop", "any_swallow")


def gen_script(rng) -> dict:
    r = rng.random()
    init = "ok" if r < 0.93 else ("fail_pre" if r < 0.965 else "fail_post")
    body = []
    for _ in range(rng.choice([0, 1, 1, 2, 3, 4, 5])):
        k = rng.random()
        if k < 0.45:
            body.append(["upd"])
        elif k < 0.57:
            body.append(["yield"])
        elif k < 0.70:
            body.append(["sleep", rng.choice([0.0, 0.5, 2.0])])
        elif k < 0.83:
            body.append(["until_stop", rng.randint(1, 3)])
        elif k < 0.89:
            body.append(["wait_stop"])
        elif k < 0.94:
            body.append(["guard", rng.choice(WAITS), rng.choice(HANDLERS)])
        elif k < 0.97:
            body.append(["status", rng.randint(1, 9)])
        else:
            body.append(["peek"])
    e = rng.random()
    if e < 0.5:
        end = ["ret"]
    elif e < 0.8:
        end = ["raise", rng.choice(RAISES)]
    else:
        end = ["raise_stop"]
    return {"init": init, "body": body, "end": end}


HOOKS = ("prepare", "process", "iteration", "status", "pubSignals", "finalize")


def gen_loop_script(rng) -> dict:
    """A QMI_LoopTask: period, missed-period policy, per-call hook outcomes, update_status results, iteration costs."""
    period = rng.choice([0.5, 1.0, 1.0, 2.0])
    bound = rng.randint(1, 5)
    hooks: dict = {}
    if rng.random() < 0.45:
        for _ in range(rng.choice([1, 1, 2])):
            h = rng.choice(HOOKS)
            k = 0 if h in ("prepare", "finalize") else rng.randint(0, bound)
            hooks.setdefault(h, {})[str(k)] = rng.choice(["stop", "other", "other"])
    cost = [rng.choice([0.0, 0.0, 0.25, period, period, 1.5 * period, 2.0 * period, 2.25 * period, 3.0 * period])
            for _ in range(bound + 1)]
    status = [rng.random() < 0.4 for _ in range(bound + 1)]
    return {"kind": "loop", "init": "ok", "body": [], "end": ["loop"], "period": period,
            "policy": rng.choice(["immediate", "skip", "terminate"]), "hooks": hooks, "status": status,
            "cost": cost, "bound": bound}


POOLS = ([1, 2], [1, 2], [1, 2, 3], [7], [1, 777], [777, 778, 1],      # 777/778: equal objects are not identical
         ["None", 1], ["None", 1, 2], [0, "None"], ["False", 0, 1], ["empty_str", "empty_tuple", "empty_dict"],
         ["None", "False", 0, "empty_str"], [0, 1])                       # None and the other falsy values are values too


def gen_history(rng, max_len: int, pool=None) -> list:
    """Settings values come from a SMALL pool, so that the same value is posted again (A,A), a value is reverted before
    the task looks (A,B,A), the value in effect or the initial one is re-posted, …; now and then fresh values."""
    n = rng.randint(0, max_len)
    shape = rng.random()
    hist: list = []
    nxt = [1]
    fresh_values = pool is None

    def rnd_op():
        k = rng.random()
        if k < 0.17:
            return "start"
        if k < 0.30:
            return "stop"
        if k < 0.40:
            # join() before any start()/stop() waits for ever and ends the scenario: keep that case rare
            live = any(o in ("start", "stop", "enter", "exit") for o in hist if isinstance(o, str))
            if not live and rng.random() < 0.8:
                return "is_running"
            return "join"
        if k < 0.55:
            return "is_running"
        if k < 0.77:
            if fresh_values:
                v = nxt[0]
                nxt[0] += 1
            else:
                v = rng.choice(pool)
            return ["set", v]
        if k < 0.84:
            return "get"
        if k < 0.90:
            return "pend"
        if k < 0.93:
            return "status"
        if k < 0.965:
            return "enter"
        if k < 0.99 or "shutdown" in hist:
            return "exit"
        return "shutdown"

    BODIES = [None, None, "BodyError", "KeyError", "KeyboardInterrupt", "SystemExit", "BaseBoom"]
    if shape < 0.10:      # the real `with proxy:` statement around a few ops; the body may end by raising
        hist.append("with_enter")
        for _ in range(max(0, n - 2)):
            op = rnd_op()
            hist.append(op if op not in ("join", "enter", "exit") else "is_running")
        hist.append(["with_exit", rng.choice(BODIES)])
    elif shape < 0.15:    # the same through explicit __enter__ / __exit__ calls
        hist.append("enter")
        for _ in range(max(0, n - 2)):
            op = rnd_op()
            hist.append(op if op not in ("join",) else "is_running")
        hist.append(["exit_exc", rng.choice(BODIES[2:])] if rng.random() < 0.3 else "exit")
    elif shape < 0.30:    # the canonical life: start … stop join
        hist.append("start")
        for _ in range(max(0, n - 3)):
            hist.append(rnd_op())
        hist += ["stop", "join"]
    elif shape < 0.40:    # stop first
        hist.append("stop")
        for _ in range(max(0, n - 1)):
            hist.append(rnd_op())
    else:
        for _ in range(n):
            hist.append(rnd_op())
        if hist and rng.random() < 0.15:      # a `with proxy:` block somewhere in the middle (also on a started / stopped task)
            a = rng.randrange(len(hist))
            b = rng.randrange(a, len(hist))
            hist = hist[:a] + ["with_enter"] + hist[a:b + 1] + [["with_exit", rng.choice(BODIES)]] + hist[b + 1:]
    return hist


# ---------------------------------------------------------------------------
# recorder + taps
# ---------------------------------------------------------------------------

_NO = object()          # "no override" (None is a settings value like any other)


class Rec:
    """Per-scenario recorder.  `log` is the linearisation: model events and oracle marks in one sequence."""

    def __init__(self, script: dict):
        self.script = script
        self.log: list = []          # entries: dict(kind="ev"|"mark", ...)
        self.thread = None
        self.runner = None
        self.task = None
        self.cur_ops: dict = {}              # thread id -> runner operation being executed by that thread
        self.rpc_tid: Optional[int] = None   # the runner's RPC worker thread (the one that ran QMI_TaskRunner.__init__)
        self.body_blocked = False            # task body parked in sleep(None)
        self.sched = None

    @property
    def cur_op(self) -> Optional[dict]:
        return self.cur_ops.get(_threading.get_ident())

    @cur_op.setter
    def cur_op(self, op: Optional[dict]) -> None:
        if op is None:
            self.cur_ops.pop(_threading.get_ident(), None)
        else:
            self.cur_ops[_threading.get_ident()] = op

    def on_worker(self) -> bool:
        """Is the calling thread the runner's RPC worker (operations serialised) or some other thread?"""
        return self.rpc_tid is not None and _threading.get_ident() == self.rpc_tid

    # -- abstraction of the real state --------------------------------------
    def abs(self, settings_override=_NO) -> str:
        th, task, runner = self.thread, self.task, self.runner
        st = th._state.name if th is not None else "INITIAL"
        exc = 1 if (th is not None and th._exception is not None) else 0
        stop, slot, settings, status = 0, "-", "-", "-"
        if task is not None:
            ev = getattr(task, "_stop_requested", None)
            stop = 1 if (ev is not None and ev.is_set()) else 0
            fifo = getattr(task, "_settings_fifo", None)
            if fifo is not None:
                items = list(collections.deque.__iter__(fifo))
                slot = ",".join(_code(x) for x in items) if items else "-"
            cur = settings_override if settings_override is not _NO else task.__dict__.get("_c10_settings")
            settings = _code(cur) if cur is not None else "-"
            stv = getattr(task, "status", None)
            status = _val(stv) if stv is not None else "-"
        joined = 1 if getattr(runner, "_joined", False) else 0
        return f"{st} {exc} {stop} {slot} {settings} {joined} {status}"

    def ev(self, act: str, res: Optional[str], op: Optional[dict] = None, settings_override=_NO) -> None:
        if self.sched is not None and self.sched.aborting:
            return
        e = {"kind": "ev", "act": act, "res": res, "abs": self.abs(settings_override)}
        if op is not None:
            op["events"].append(e)
        self.log.append(e)

    def mark(self, *m) -> None:
        if self.sched is not None and self.sched.aborting:
            return
        self.log.append({"kind": "mark", "m": m})

    def lev(self, act: str, nxt: str = "?") -> None:
        """an event of QMI_LoopTask.run (replayed on Model/LoopTask.lean)"""
        if self.sched is not None and self.sched.aborting:
            return
        self.log.append({"kind": "lev", "act": act, "next": nxt})


def _val(x) -> str:
    if isinstance(x, bool) or not isinstance(x, int):
        return "?" + type(x).__name__
    return str(x)


TOKENS = {"None": None, "False": False, "empty_str": "", "empty_tuple": (), "empty_dict": {}}


def _fresh(v):
    """History token -> the Python object that is posted: the falsy values by name, integers as an object equal to `v`
    but (outside CPython's small-int cache) not identical to any other copy."""
    if isinstance(v, str):
        x = TOKENS[v]
        return {} if isinstance(x, dict) else x
    return int(str(v)) if isinstance(v, int) and not isinstance(v, bool) else v


def _code(x) -> str:
    """Settings value -> the natural number that stands for it in the model (injective on the values the scripts use;
    by type, so that False, 0, "" … stay apart although Python calls some of them equal).  0 = None."""
    if x is None:
        return "0"
    if x is False:
        return "2"
    if isinstance(x, str) and x == "":
        return "4"
    if isinstance(x, tuple) and x == ():
        return "5"
    if isinstance(x, dict) and x == {}:
        return "6"
    if isinstance(x, int) and not isinstance(x, bool) and x >= 0:
        return str(10 + x)
    return "?" + type(x).__name__


def _tok_code(tok) -> str:
    return _code(_fresh(tok))


def _ticks(t) -> str:
    """virtual seconds -> integer ticks of 1/8 s (all periods, costs and sleeps of the scripts are multiples of 0.125)"""
    x = t * 8
    return str(int(round(x))) if abs(x - round(x)) < 1e-6 else "?frac(%r)" % (t,)


CUR: Optional[Rec] = None
_CLASSES: dict = {}


def _classes():
    """Tap classes and the scripted task class (need qmi and detsched importable; built once)."""
    if _CLASSES:
        return _CLASSES
    from harness import detsched as D
    from qmi.core.task import QMI_Task
    from qmi.core.pubsub import QMI_RegisteredSignal
    from qmi.core.exceptions import QMI_TaskStopException

    class TapSignal(QMI_RegisteredSignal):
        """`sig_settings_updated` of the scripted task: logs the publication, then publishes for real."""
        __slots__ = ()

        def publish(self, *args):
            rec = CUR
            if rec is not None:
                v = args[0] if len(args) == 1 else args
                rec.mark("pub", v)
                rec.ev("updPub", "val:" + ("-" if v is None else _code(v)))
            return super().publish(*args)

    class TapCond(D.Condition):
        def __exit__(self, *a):
            rec = CUR
            if rec is not None:
                f = sys._getframe(1)
                func = f.f_code.co_name
                op = rec.cur_op if func in ("get_state", "start_task", "stop_task", "wait_until_initialized") else None
                if func == "run":
                    rec.ev("tregion", "none")
                elif func == "wait_until_initialized":
                    rec.ev("ctorWait", None, op)
                elif func == "start_task":
                    rec.ev("startKick", None, op)
                elif func == "stop_task":
                    rec.ev("stopRegion" if rec.on_worker() else "extStopRegion", None, op)
                elif func == "get_state":
                    name = op["name"] if op is not None else "?"
                    act = {"ctor": "ctorGet", "start": "startCheck", "join": "join", "is_running": "isRunning"}.get(
                        name, "get_state-in-" + name)
                    rec.ev(act, None, op)
                else:
                    rec.ev("region-in-" + func, "none")
            return super().__exit__(*a)

    class TapEvent(D.Event):
        def set(self):
            rec = CUR
            if rec is not None:
                self._flag = True
                rec.ev("stopSet" if rec.on_worker() else "extStopSet", None, rec.cur_op)
            return super().set()

    class TapDeque(collections.deque):
        def __bool__(self):
            r = len(self) != 0
            rec = CUR
            if rec is not None and sys._getframe(1).f_code.co_name == "update_settings":
                rec.ev("updCheck", "true" if r else "false")
            return r

        def _taken(self, v):
            rec = CUR
            if rec is not None:
                # `self.settings = self._settings_fifo.pop()` is one statement: report the state after the assignment
                rec.ev("updPop", "true", settings_override=v)
            return v

        def pop(self):
            try:
                v = super().pop()
            except IndexError:
                if CUR is not None:
                    CUR.ev("updPop", "exc:IndexError")
                raise
            return self._taken(v)

        def popleft(self):
            try:
                v = super().popleft()
            except IndexError:
                if CUR is not None:
                    CUR.ev("updPop", "exc:IndexError")
                raise
            return self._taken(v)

        def append(self, x):
            super().append(x)
            rec = CUR
            if rec is not None:
                rec.ev("set:" + _code(x), None, rec.cur_op)

        def appendleft(self, x):
            super().appendleft(x)
            rec = CUR
            if rec is not None:
                rec.ev("set:" + _code(x), None, rec.cur_op)

    class ScriptTask(QMI_Task):
        # `settings` as a property only so that reads/writes are visible to the abstraction function
        @property
        def settings(self):
            return self.__dict__.get("_c10_settings")

        @settings.setter
        def settings(self, v):
            self.__dict__["_c10_settings"] = v

        def __init__(self, task_runner, name):
            rec = CUR
            if rec.script["init"] == "fail_pre":
                raise InitBoom("scripted init failure (before QMI_Task.__init__)")
            super().__init__(task_runner, name)
            self._stop_requested.__class__ = TapEvent
            old = self._settings_fifo
            self._settings_fifo = TapDeque(old, maxlen=old.maxlen)
            if type(self.sig_settings_updated) is QMI_RegisteredSignal:
                self.sig_settings_updated.__class__ = TapSignal
            if rec.script.get("settings0") not in (None, "None"):
                self.settings = _fresh(rec.script["settings0"])     # as a task class does in its __init__
            rec.task = self
            if rec.script["init"] == "fail_post":
                raise InitBoom("scripted init failure (after QMI_Task.__init__)")

        def _wait(self, rec, wait):
            """one of the ways a task body waits (or fails): ends by the stop request, by time, or at once"""
            w = wait[0] if isinstance(wait, (list, tuple)) else wait
            if w in ("wait_stop", "signal_wait"):
                rec.body_blocked = True
                try:
                    if w == "wait_stop":
                        self.sleep(None)
                    else:
                        from qmi.core.pubsub import QMI_SignalReceiver
                        QMI_SignalReceiver().get_next_signal(timeout=None)     # nobody publishes: only a stop ends it
                finally:
                    if not D.SCHED.aborting:      # on a reported deadlock the flag must survive the unwinding
                        rec.body_blocked = False
            elif w == "sleep":
                self.sleep(wait[1])
            elif w == "signal_timeout":
                from qmi.core.pubsub import QMI_SignalReceiver
                QMI_SignalReceiver().get_next_signal(timeout=wait[1])          # QMI_TimeoutException, or the stop
            elif w == "raise_stop":
                raise QMI_TaskStopException()
            elif w == "raise_other":
                raise ValueError("scripted failure inside the guarded block")
            elif w != "none":
                raise RuntimeError("bad wait %r" % (wait,))

        def _guard(self, rec, wait, handler):
            """try/finally and except-handlers around a wait whose cleanup code itself raises, re-raises, raises
            `from` the stop exception, or swallows it"""
            h, _, xn = handler.partition(":")
            X = {"ValueError": ValueError, "BaseBoom": BaseBoom, "KeyboardInterrupt": KeyboardInterrupt, "": None}[xn]
            if h == "finally_raise":
                try:
                    self._wait(rec, wait)
                finally:
                    if not D.SCHED.aborting:
                        raise X("scripted failure of the cleanup")        # implicit __context__ = what was propagating
            elif h == "finally_ok":
                try:
                    self._wait(rec, wait)
                finally:
                    rec.mark("cleanup")
            elif h == "except_raise":
                try:
                    self._wait(rec, wait)
                except QMI_TaskStopException:
                    raise X("scripted failure while handling the stop")    # implicit __context__ = the stop exception
            elif h == "except_from":
                try:
                    self._wait(rec, wait)
                except QMI_TaskStopException as e:
                    raise X("scripted failure caused by the stop") from e
            elif h == "except_reraise":
                try:
                    self._wait(rec, wait)
                except QMI_TaskStopException:
                    rec.mark("cleanup")
                    raise
            elif h == "except_swallow":
                try:
                    self._wait(rec, wait)
                except QMI_TaskStopException:
                    rec.mark("cleanup")
            elif h == "any_raise_stop":
                try:
                    self._wait(rec, wait)
                except Exception as e:
                    raise QMI_TaskStopException() from e                   # the other way round: stop wraps an error
            elif h == "any_swallow":
                try:
                    self._wait(rec, wait)
                except Exception:
                    rec.mark("cleanup")
            else:
                raise RuntimeError("bad handler %r" % (handler,))

        def _upd(self, rec):
            rec.mark("upd_call")
            r = self.update_settings()
            rec.mark("upd_ret", r, self.settings)

        def run(self):
            rec = CUR
            rec.mark("run_enter")
            rec.ev("runEnter", "none")
            try:
                for step in rec.script["body"]:
                    k = step[0]
                    if k == "upd":
                        self._upd(rec)
                    elif k == "yield":
                        D.SCHED.yield_point("body")
                    elif k == "sleep":
                        self.sleep(step[1])
                    elif k == "until_stop":
                        for _ in range(step[1]):
                            if self.stop_requested():
                                break
                            self._upd(rec)
                            self.sleep(1.0)
                    elif k == "wait_stop":
                        self._wait(rec, "wait_stop")
                    elif k == "guard":
                        self._guard(rec, step[1], step[2])
                    elif k == "peek":
                        rec.mark("peek", self.stop_requested())
                    elif k == "status":
                        self.status = step[1]
                        rec.mark("status_set", step[1])
                        rec.ev("setStatus:" + _val(step[1]), "none")
                    else:
                        raise RuntimeError("bad script step %r" % (step,))
                end = rec.script["end"]
                if end[0] == "raise":
                    raise {"ValueError": ValueError, "BaseBoom": BaseBoom, "KeyboardInterrupt": KeyboardInterrupt}[end[1]](
                        "scripted")
                if end[0] == "raise_stop":
                    raise QMI_TaskStopException()
            except D.SchedAbort:
                raise
            except QMI_TaskStopException:
                rec.mark("run_exit", "stopExc")
                rec.ev("runEnd:stopExc", "none")
                raise
            except BaseException:
                rec.mark("run_exit", "otherExc")
                rec.ev("runEnd:otherExc", "none")
                raise
            rec.mark("run_exit", "ret")
            rec.ev("runEnd:ret", "none")

    from qmi.core.task import QMI_LoopTask, QMI_LoopTaskMissedLoopPolicy
    RUN_CODE = QMI_LoopTask.run.__code__

    def _from_run(depth=2):
        return sys._getframe(depth).f_code is RUN_CODE

    class TapStatusSignal(QMI_RegisteredSignal):
        __slots__ = ()

        def publish(self, *args):
            rec = CUR
            try:
                r = super().publish(*args)
            except D.SchedAbort:
                raise
            except BaseException:
                if rec is not None:
                    rec.mark("ltok", "s!")
                    rec.lev("hook:pubStatus:otherExc")
                raise
            if rec is not None:
                rec.mark("ltok", "s")
                rec.lev("hook:pubStatus:ret")
            return r

    class ScriptLoop(QMI_LoopTask):
        """QMI_LoopTask whose hooks follow `script["hooks"]` = {hook: {call index: "stop" | "other"}},
        `script["status"]` (what update_status returns, per call), `script["cost"]` (virtual seconds spent in
        loop_iteration, per call); `script["bound"]`: loop_iteration number `bound` raises the task-stop exception."""

        @property
        def settings(self):
            return self.__dict__.get("_c10_settings")

        @settings.setter
        def settings(self, v):
            self.__dict__["_c10_settings"] = v

        def __init__(self, task_runner, name):
            rec = CUR
            sc = rec.script
            pol = {"immediate": QMI_LoopTaskMissedLoopPolicy.IMMEDIATE, "skip": QMI_LoopTaskMissedLoopPolicy.SKIP,
                   "terminate": QMI_LoopTaskMissedLoopPolicy.TERMINATE}[sc["policy"]]
            super().__init__(task_runner, name, loop_period=sc["period"], policy=pol)
            self._stop_requested.__class__ = TapEvent
            old = self._settings_fifo
            self._settings_fifo = TapDeque(old, maxlen=old.maxlen)
            if type(self.sig_settings_updated) is QMI_RegisteredSignal:
                self.sig_settings_updated.__class__ = TapSignal
            if type(self.sig_status_updated) is QMI_RegisteredSignal:
                self.sig_status_updated.__class__ = TapStatusSignal
            self._calls = collections.Counter()
            if sc.get("settings0") not in (None, "None"):
                self.settings = _fresh(sc["settings0"])
            rec.task = self

        # -- observation points of run() ------------------------------------------------------------
        def stop_requested(self):
            b = super().stop_requested()
            rec = CUR
            if rec is not None and _from_run():
                nt = sys._getframe(1).f_locals.get("next_time")
                rec.mark("ltok", "T1" if b else "T0")
                rec.lev("testStop:%d" % (1 if b else 0), _ticks(nt) if nt is not None else "?")
            return b

        def update_settings(self):
            rec = CUR
            inrun = _from_run()
            rec.mark("upd_call")
            r = super().update_settings()
            rec.mark("upd_ret", r, self.settings)
            if inrun:
                rec.mark("ltok", "U1" if r else "U0")
                rec.lev("updDone:%d" % (1 if r else 0))
            return r

        def sleep(self, duration):
            rec = CUR
            inrun = _from_run()
            try:
                super().sleep(duration)
            except QMI_TaskStopException:
                if inrun:
                    rec.mark("ltok", "W1")
                    rec.lev("wake:1")
                raise
            if inrun:
                rec.mark("ltok", "W0")
                rec.lev("wake:0")

        def _hook(self, name, tok):
            """scripted outcome of the k-th call of hook `name`; logs the loop event at the hook's end"""
            rec = CUR
            k = self._calls[name]
            self._calls[name] += 1
            what = rec.script["hooks"].get(name, {}).get(str(k))
            if name == "iteration":
                cost = rec.script.get("cost", [])
                if k < len(cost) and cost[k] > 0:
                    D.TIME_SHIM.sleep(cost[k])            # virtual time passes inside loop_iteration
                if what is None and k >= rec.script["bound"]:
                    what = "stop"
            if what == "stop":
                rec.mark("ltok", tok + "!s")
                rec.lev("hook:%s:stopExc" % name)
                raise QMI_TaskStopException()
            if what == "other":
                rec.mark("ltok", tok + "!o")
                rec.lev("hook:%s:otherExc" % name)
                raise ValueError("scripted failure of " + name)
            return k

        def loop_prepare(self):
            self._hook("prepare", "P")
            CUR.mark("ltok", "P")
            CUR.lev("hook:prepare:ret")

        def process_new_settings(self):
            self._hook("process", "p")
            CUR.mark("process_sees", self.settings)
            CUR.mark("ltok", "p")
            CUR.lev("hook:process:ret")

        def loop_iteration(self):
            self._hook("iteration", "I")
            CUR.mark("ltok", "I")
            CUR.lev("hook:iteration:ret")

        def update_status(self):
            k = self._hook("status", "S")
            st = CUR.script.get("status", [])
            b = bool(st[k]) if k < len(st) else False
            if b:
                self.status = 100 + k
                CUR.mark("status_set", 100 + k)
                CUR.ev("setStatus:%d" % (100 + k), "none")
            CUR.mark("ltok", "S1" if b else "S0")
            CUR.lev("statusDone:%d" % (1 if b else 0))
            return b

        def publish_signals(self):
            self._hook("pubSignals", "G")
            CUR.mark("ltok", "G")
            CUR.lev("hook:pubSignals:ret")

        def loop_finalize(self):
            self._hook("finalize", "F")
            CUR.mark("ltok", "F")
            CUR.lev("hook:finalize:ret")

        def run(self):
            rec = CUR
            rec.mark("run_enter")
            rec.ev("runEnter", "none")
            try:
                super().run()
            except D.SchedAbort:
                raise
            except QMI_TaskStopException:
                rec.mark("run_exit", "stopExc")
                rec.ev("runEnd:stopExc", "none")
                raise
            except BaseException:
                rec.mark("run_exit", "otherExc")
                rec.ev("runEnd:otherExc", "none")
                raise
            rec.mark("run_exit", "ret")
            rec.ev("runEnd:ret", "none")

    _CLASSES.update(TapCond=TapCond, TapEvent=TapEvent, TapDeque=TapDeque, TapSignal=TapSignal, ScriptTask=ScriptTask,
                    ScriptLoop=ScriptLoop, RUN_CODE=RUN_CODE)
    return _CLASSES


class _Taps:
    """Class-level wrappers, installed for the duration of a batch of scenarios and restored afterwards."""

    RUNNER_OPS = {"start": "start", "stop": "stop", "join": "join", "is_running": "is_running",
                  "set_settings": "set", "get_settings": "get", "get_pending_settings": "pend", "get_status": "status"}

    def __enter__(self):
        from harness import detsched as D
        from qmi.core import task as T
        cls = _classes()
        self.saved = []

        def swap(owner, name, new):
            self.saved.append((owner, name, owner.__dict__[name]))
            setattr(owner, name, new)

        # _TaskThread.__init__ : tap the condition variable
        orig_tinit = T._TaskThread.__init__

        @functools.wraps(orig_tinit)
        def tinit(self_, task_runner, *a, **k):
            orig_tinit(self_, task_runner, *a, **k)
            rec = CUR
            if rec is not None:
                if isinstance(self_._state_cond, D.Condition):
                    self_._state_cond.__class__ = cls["TapCond"]
                rec.thread = self_
                rec.runner = task_runner
        swap(T._TaskThread, "__init__", tinit)

        # _TaskThread.run : end of the thread
        orig_trun = T._TaskThread.run

        @functools.wraps(orig_trun)
        def trun(self_):
            try:
                orig_trun(self_)
            except D.SchedAbort:
                raise
            except BaseException as e:
                if CUR is not None:
                    CUR.mark("thread_died", type(e).__name__)
                    CUR.ev("threadEnd", "none")
                raise
            else:
                if CUR is not None:
                    CUR.mark("thread_end")
                    CUR.ev("threadEnd", "none")
        swap(T._TaskThread, "run", trun)

        # _TaskThread.stop_task called directly (not through QMI_TaskRunner.stop): `_request_shutdown`
        orig_stop_task = T._TaskThread.stop_task

        @functools.wraps(orig_stop_task)
        def tstop(self_):
            rec = CUR
            if rec is None or rec.cur_op is not None:
                return orig_stop_task(self_)
            op = {"name": "ext_stop_task", "events": []}
            rec.cur_op = op
            try:
                r = orig_stop_task(self_)
            except D.SchedAbort:
                raise
            except BaseException as e:
                _close(op, "exc:" + type(e).__name__)
                raise
            else:
                _close(op, "unit")
                return r
            finally:
                rec.cur_op = None
        swap(T._TaskThread, "stop_task", tstop)

        # QMI_TaskRunner.__init__
        orig_rinit = T.QMI_TaskRunner.__init__

        @functools.wraps(orig_rinit)
        def rinit(self_, *a, **k):
            rec = CUR
            if rec is None:
                return orig_rinit(self_, *a, **k)
            op = {"name": "ctor", "events": []}
            rec.rpc_tid = _threading.get_ident()
            rec.cur_op = op
            try:
                orig_rinit(self_, *a, **k)
            except D.SchedAbort:
                raise
            except BaseException as e:
                _close(op, "exc:" + type(e).__name__)
                raise
            else:
                _close(op, "unit")
            finally:
                rec.cur_op = None
        swap(T.QMI_TaskRunner, "__init__", rinit)

        def _close(op, final):
            evs = op["events"]
            for e in evs[:-1]:
                e["res"] = "pending"
            if evs:
                evs[-1]["res"] = final
                if op["name"] == "join" and CUR is not None:
                    # the rest of join() after its `get_state` region (`_joined = True`, raise / return) has no
                    # yield point: one more event, logged here on the worker thread
                    CUR.ev("joinSet", "none")
            op["final"] = final

        def wrap_op(name, short):
            orig = T.QMI_TaskRunner.__dict__[name]

            @functools.wraps(orig)
            def w(self_, *a, **k):
                rec = CUR
                if rec is None or self_ is not rec.runner:
                    return orig(self_, *a, **k)
                op = {"name": name, "events": []}
                outer = rec.cur_op
                rec.cur_op = op
                rec.mark("op_begin", name)
                try:
                    r = orig(self_, *a, **k)
                except D.SchedAbort:
                    raise
                except BaseException as e:
                    _close(op, "exc:" + type(e).__name__)
                    rec.mark("op_end", name, "exc:" + type(e).__name__)
                    raise
                else:
                    if short == "is_running":
                        final = "true" if r is True else ("false" if r is False else "?" + repr(r))
                    elif short in ("get", "pend", "status"):
                        final = "val:" + ("-" if r is None else (_val(r) if short == "status" else _code(r)))
                        rec.ev({"get": "getSettings", "pend": "getPending", "status": "getStatus"}[short], final)
                    else:
                        final = "unit" if r is None else "?" + repr(r)
                    _close(op, final)
                    rec.mark("op_end", name, final)
                    if short == "stop" and rec.thread is not None and _threading.current_thread() is rec.thread:
                        rec.mark("ltok", "K")                  # QMI_LoopTask, policy TERMINATE
                        rec.lev("selfStopDone")
                    return r
                finally:
                    rec.cur_op = outer
            w._rpc_method = getattr(orig, "_rpc_method", False)
            swap(T.QMI_TaskRunner, name, w)

        for name, short in self.RUNNER_OPS.items():
            wrap_op(name, short)

        def wrap_comp(name, act):
            orig = T.QMI_TaskRunner.__dict__[name]

            @functools.wraps(orig)
            def w(self_, *a, **k):
                rec = CUR
                if rec is not None and self_ is rec.runner:
                    rec.ev(act, "none")
                return orig(self_, *a, **k)
            swap(T.QMI_TaskRunner, name, w)

        wrap_comp("__exit__", "exitBegin")
        wrap_comp("release_rpc_object", "releaseBegin")

        # clock reads of QMI_LoopTask.run: the cooperative time shim of detsched, tapped for the duration of the batch
        run_code = cls["RUN_CODE"]
        shim_mono = type(D.TIME_SHIM).monotonic

        def mono():
            t = shim_mono(D.TIME_SHIM)
            rec = CUR
            if rec is not None and sys._getframe(1).f_code is run_code:
                rec.mark("ltok", "C")
                rec.lev("clock:" + _ticks(t))
            return t
        D.TIME_SHIM.monotonic = mono
        self.shim = D.TIME_SHIM
        return self

    def __exit__(self, *a):
        try:
            del self.shim.monotonic
        except AttributeError:
            pass
        for owner, name, val in reversed(self.saved):
            setattr(owner, name, val)


# ---------------------------------------------------------------------------
# running one scenario on the real code
# ---------------------------------------------------------------------------

class Obs:
    def __init__(self):
        self.log: list = []
        self.deadlock: Optional[str] = None
        self.budget = False
        self.error: Optional[str] = None
        self.thread_errors: list = []
        self.make_exc: Optional[str] = None
        self.body_blocked = False
        self.steps = 0
        self.last_issued: Optional[int] = None


def _do_op(p, op):
    if op == "start":
        return p.start()
    if op == "stop":
        return p.stop()
    if op == "join":
        return p.join()
    if op == "is_running":
        return p.is_running()
    if op == "get":
        return p.get_settings()
    if op == "pend":
        return p.get_pending_settings()
    if op == "status":
        return p.get_status()
    if op == "enter":
        type(p).__enter__(p)          # what the `with` statement calls
        return None
    if op == "exit":
        return type(p).__exit__(p, None, None, None)
    if isinstance(op, (list, tuple)) and op[0] == "set":
        return p.set_settings(_fresh(op[1]))
    raise ValueError(f"bad op {op!r}")


def run_case(case: dict) -> Obs:
    """case = {script, history, seed, policy, cp (change point or None), trace (bool)}"""
    global CUR
    from harness import detsched as D
    from harness.simworld import run_scenario
    from qmi.core import task as T
    cls = _classes()
    rec = Rec(case["script"])
    obs = Obs()
    history = case["history"]

    def body(w):
        rec.sched = w.sched
        ctx = w.context("c10ctx")
        try:
            p = ctx.make_task("t", cls["ScriptLoop" if case["script"].get("kind") == "loop" else "ScriptTask"])
        except D.SchedAbort:
            raise
        except BaseException as e:
            obs.make_exc = type(e).__name__
            rec.mark("make", "exc:" + type(e).__name__)
            return None
        rec.mark("make", "ok")
        helpers = []

        def kind(op):
            return op[0] if isinstance(op, (list, tuple)) else op

        def chain_of(e):
            """class names along __cause__ / __context__ of what was raised (what a caller can find out)"""
            out, seen, todo = [], set(), [e]
            while todo:
                x = todo.pop()
                if x is None or id(x) in seen:
                    continue
                seen.add(id(x))
                out.append(type(x).__name__)
                todo += [x.__cause__, x.__context__]
            return out

        def simple(i, op):
            obs.last_issued = i
            rec.mark("call", i, op)
            if op == "shutdown":
                # QMI_Thread.shutdown() -> _request_shutdown -> stop_task, from a thread of its own: not serialised
                # with the runner's operations
                helpers.append(w.spawn(rec.thread.shutdown, "shutdown"))
                rec.mark("ret", i, op, "ok", None)
                return
            try:
                if kind(op) == "exit_exc":
                    # QMI_RpcProxy.__exit__ handed the exception info of a failing `with` body (no real unwinding)
                    e0 = BODY_EXC[op[1]]("scripted body failure")
                    r = type(p).__exit__(p, type(e0), e0, None)
                elif kind(op) in ("with_enter", "with_exit"):
                    r = _do_op(p, "enter" if kind(op) == "with_enter" else "exit")      # unmatched marker: plain call
                else:
                    r = _do_op(p, op)
            except D.SchedAbort:
                raise
            except BaseException as e:
                if w.sched.aborting:      # once a run is being torn down threads run freely: nothing is an observation
                    raise D.SchedAbort()
                rec.mark("chain", i, chain_of(e))
                rec.mark("ret", i, op, "exc:" + type(e).__name__)
            else:
                if w.sched.aborting:
                    raise D.SchedAbort()
                rec.mark("ret", i, op, "ok", r)

        def match(i):
            depth = 0
            for k in range(i, len(history)):
                if kind(history[k]) == "with_enter":
                    depth += 1
                elif kind(history[k]) == "with_exit":
                    depth -= 1
                    if depth == 0:
                        return k
            return None

        def with_block(i, j):
            """a REAL `with proxy:` statement (QMI_RpcProxy.__enter__ / __exit__) around the operations i+1 … j-1;
            the body then ends normally or by raising history[j][1]"""
            obs.last_issued = i
            rec.mark("call", i, history[i])
            entered = False
            try:
                with p:
                    entered = True
                    if w.sched.aborting:
                        raise D.SchedAbort()
                    rec.mark("ret", i, history[i], "ok", None)
                    run_range(i + 1, j)
                    obs.last_issued = j
                    rec.mark("call", j, history[j])
                    body_exc = history[j][1] if isinstance(history[j], (list, tuple)) and len(history[j]) > 1 else None
                    if body_exc:
                        raise BODY_EXC[body_exc]("scripted failure of the with body")
            except D.SchedAbort:
                raise
            except BaseException as e:
                if w.sched.aborting:
                    raise D.SchedAbort()
                if not entered:
                    rec.mark("chain", i, chain_of(e))
                    rec.mark("ret", i, history[i], "exc:" + type(e).__name__)
                    for k in range(i + 1, j + 1):          # neither the body nor __exit__ run
                        rec.mark("ret", k, history[k], "skipped")
                else:
                    rec.mark("chain", j, chain_of(e))
                    rec.mark("ret", j, history[j], "exc:" + type(e).__name__)
            else:
                if w.sched.aborting:
                    raise D.SchedAbort()
                rec.mark("ret", j, history[j], "ok", None)

        def run_range(a, b):
            k = a
            while k < b:
                if kind(history[k]) == "with_enter":
                    j = match(k)
                    if j is not None and j < b:
                        with_block(k, j)
                        k = j + 1
                        continue
                simple(k, history[k])
                k += 1

        run_range(0, len(history))
        for t in helpers:
            t.join()
        obs.last_issued = len(history)
        rec.mark("call", len(history), "release")
        if case.get("release_unwinding"):
            # the object is removed by a caller that is already unwinding (an exception is being handled)
            try:
                raise BODY_EXC[case["release_unwinding"]]("scripted failure before the removal")
            except D.SchedAbort:
                raise
            except BaseException:
                ctx.remove_rpc_object(p)
        else:
            ctx.remove_rpc_object(p)
        if w.sched.aborting:
            raise D.SchedAbort()
        rec.mark("ret", len(history), "release", "ok", None)
        return None

    trace = ()
    if case.get("trace"):
        trace = (T.QMI_Task.update_settings.__code__,
                 getattr(T.QMI_TaskRunner.set_settings, "__wrapped__", T.QMI_TaskRunner.set_settings).__code__)
    CUR = rec
    try:
        kw = {}
        if case.get("policy") == "pct":
            kw = {"policy": "pct", "change_points": ([case["cp"]] if case.get("cp") is not None else None)}
        out = run_scenario(case["seed"], body, max_steps=20000, trace_funcs=trace, **kw)
    finally:
        CUR = None
    obs.log = rec.log
    # `Outcome.deadlock` is filled only when "main" itself is unwound; after a deadlock was detected all threads are
    # released at once and "main" may run to completion, so ask the scheduler as well
    obs.deadlock = out.deadlock or out.sched.deadlock
    obs.budget = out.budget or out.sched.budget_exceeded
    obs.error = None if out.error is None else f"{type(out.error).__name__}: {out.error}"
    obs.thread_errors = [(n, type(e).__name__) for n, e in out.thread_errors]
    obs.body_blocked = rec.body_blocked
    obs.steps = out.sched.steps
    return obs


def lines_of(obs: Obs, script: Optional[dict] = None) -> list:
    lines = ["init"]
    if script is not None and script.get("settings0") not in (None, "None") and script.get("init") != "fail_pre":
        lines = ["init " + _tok_code(script["settings0"])]
    if script is not None and script.get("kind") == "loop":
        lines.append("linit %s %s" % (_ticks(script["period"]), script["policy"]))
    for e in obs.log:
        if e["kind"] == "ev":
            lines.append(f"{e['act']}|{e['res'] if e['res'] is not None else 'unfinished'}|{e['abs']}")
        elif e["kind"] == "lev":
            lines.append(f"L|{e['act']}|{e['next']}")
    if obs.deadlock is not None:
        lines.append(f"blocked join {1 if obs.body_blocked else 0}")
    elif any(e["kind"] == "mark" and e["m"][0] == "ret" and e["m"][2] == "release" for e in obs.log):
        lines.append("end released")
    return lines


# ---------------------------------------------------------------------------
# the property oracle (no Lean; only call/return marks and task-side observations)
# ---------------------------------------------------------------------------

def oracle(case: dict, obs: Obs) -> list:
    """Returns a list of (clause, detail).  Empty = the property holds on this trace."""
    bad: list = []
    script, history = case["script"], case["history"]
    if obs.error:
        bad.append(("harness-error", obs.error))
        return bad
    if obs.budget:
        bad.append(("step-budget", "scenario did not end within its step budget"))
        return bad
    marks = [(i, e["m"]) for i, e in enumerate(obs.log) if e["kind"] == "mark"]
    evs = [(i, e) for i, e in enumerate(obs.log) if e["kind"] == "ev"]
    pos_call, pos_ret, result = {}, {}, {}
    for i, m in marks:
        if m[0] == "call":
            pos_call[m[1]] = i
        elif m[0] == "ret":
            pos_ret[m[1]] = i
            result[m[1]] = m[3] if m[3] != "ok" else ("ok", m[4])
    run_enters = [i for i, m in marks if m[0] == "run_enter"]
    run_exits = [(i, m[1]) for i, m in marks if m[0] == "run_exit"]
    thread_end = [i for i, m in marks if m[0] in ("thread_end", "thread_died")]
    INF = 10 ** 9

    init_fail = script["init"] != "ok"
    if init_fail:
        if obs.make_exc != "QMI_TaskInitException":
            bad.append(("init-failure-not-reported", f"make_task: {obs.make_exc}"))
        if run_enters:
            bad.append(("run-after-init-failure", ""))
        if obs.deadlock:
            bad.append(("deadlock-at-init-failure", obs.deadlock))
        return bad
    if obs.make_exc is not None:
        bad.append(("make-task-raised", obs.make_exc))
        return bad
    for n, e in obs.thread_errors:
        bad.append(("thread-died", f"{n}: {e}"))
    if any(m[0] == "thread_died" for _, m in marks):
        bad.append(("thread-died", "task thread ended with an exception"))

    # expand history: enter = start, exit = stop ; join, release = (stop ; join) unless joined
    def kind(op):
        k = op[0] if isinstance(op, (list, tuple)) else op
        # the real `with proxy:` statement: its two ends are a start and a stop ; join like the explicit calls
        return {"with_enter": "enter", "with_exit": "exit", "exit_exc": "exit"}.get(k, k)

    def body_exc(op):
        """the exception the caller was already propagating when the exit ran (None: not unwinding)"""
        if isinstance(op, (list, tuple)) and op[0] in ("with_exit", "exit_exc") and len(op) > 1:
            return op[1]
        return None

    n_hist = len(history)
    ops = list(history) + ["release"]
    for i in list(result):
        if result[i] == "skipped" and i < len(ops):
            ops[i] = "skipped"              # inside a `with` whose __enter__ raised: never executed
    chains = {m[1]: m[2] for _, m in marks if m[0] == "chain"}

    # --- run() at most once, only after start() ----------------------------------------------
    if len(run_enters) > 1:
        bad.append(("run-more-than-once", f"{len(run_enters)} invocations"))
    starts = [i for i, op in enumerate(ops) if kind(op) in ("start", "enter")]
    stops = [i for i, op in enumerate(ops) if kind(op) in ("stop", "exit", "release")]
    first_start = starts[0] if starts else None
    first_stop = stops[0] if stops else None
    # QMI_Thread.shutdown() issued from a helper thread: a stop that lands at an unknown moment after it was issued
    shuts = [i for i, op in enumerate(ops) if kind(op) == "shutdown"]
    shut_idx = shuts[0] if shuts else None
    # which start is entitled to succeed: the first one, provided no stop was issued before it
    good_start = first_start if (first_start is not None and (first_stop is None or first_start < first_stop)) else None
    if run_enters:
        if good_start is None or good_start not in pos_call or run_enters[0] < pos_call[good_start]:
            bad.append(("run-without-start", "run() entered before any start() was issued" if good_start is None or
                        good_start not in pos_call else "run() entered before start() was called"))
    if good_start is None and run_enters:
        bad.append(("run-after-stop-first", "stop() came first, run() was invoked anyway"))
    if run_enters and good_start is not None and good_start in result and result[good_start] != ("ok", None):
        bad.append(("run-although-start-refused", f"start() gave {result[good_start]}, run() was invoked"))
    # --- start results ---------------------------------------------------------------------------
    for i in starts:
        if i not in result:
            continue
        r = result[i]
        if i == good_start:
            if shut_idx is not None and shut_idx < i:
                # racing with the shutdown: accepted, refused, or (shutdown between the two regions of start)
                # the `assert` of start_task — outside the property's quantifier
                if r not in (("ok", None), "exc:QMI_UsageException", "exc:AssertionError"):
                    bad.append(("start-racing-shutdown-odd-result", f"op {i}: {r}"))
            elif r != ("ok", None):
                bad.append(("first-start-failed", f"op {i}: {r}"))
        else:
            if r != "exc:QMI_UsageException":
                why = "second-start-not-refused" if (first_start is not None and i != first_start) else "start-after-stop-not-refused"
                bad.append((why, f"op {i} ({kind(ops[i])}): {r}"))
    # --- stop never raises --------------------------------------------------------------------------
    for i, op in enumerate(ops):
        if kind(op) == "stop" and i in result and result[i] != ("ok", None):
            bad.append(("stop-raised", f"op {i}: {result[i]}"))
    # --- join ------------------------------------------------------------------------------------------
    outcome = run_exits[0][1] if run_exits else None
    exit_pos = run_exits[0][0] if run_exits else INF
    for i, op in enumerate(ops):
        if kind(op) not in ("join", "exit") or i not in result:
            continue
        r = result[i]
        # returned: the task must be over
        stopped_before_start = (good_start is None) and first_stop is not None and first_stop <= i
        if shut_idx is not None and shut_idx < i and not run_enters:
            stopped_before_start = True       # the shutdown's stop_task reached the task before any start did
        if run_enters:
            if exit_pos > pos_ret[i]:
                bad.append(("join-returned-before-run-finished", f"op {i}: {r}"))
        elif not stopped_before_start:
            bad.append(("join-returned-without-run-or-stop", f"op {i}: {r}"))
        want_exc = run_enters and outcome == "otherExc"
        b = body_exc(op)
        if b is None:
            if want_exc and r != "exc:QMI_TaskRunException":
                bad.append(("join-swallowed-exception", f"op {i}: run() raised, join gave {r}"))
            if not want_exc and r != ("ok", None):
                bad.append(("join-raised-without-exception", f"op {i}: outcome={outcome}, join gave {r}"))
        else:
            # the caller is already unwinding with exception `b` (body of `with proxy:`): Python lets an exception of
            # __exit__ propagate with the body's exception as its context.  The task-run error must be observable —
            # raised, or on the __cause__/__context__ chain of what is raised — exactly when run() ended with an
            # exception; otherwise the body's own exception comes out.
            chain = chains.get(i, [])
            seen_tre = "QMI_TaskRunException" in chain
            explicit = isinstance(op, (list, tuple)) and op[0] == "exit_exc"      # __exit__ called by hand: nothing is unwinding
            if want_exc and not seen_tre:
                bad.append(("exit-while-unwinding-hid-task-failure",
                            f"op {i}: run() raised, body raised {b}, caller got {r} chain={chain}"))
            if not want_exc:
                if seen_tre:
                    bad.append(("join-raised-without-exception", f"op {i}: outcome={outcome}, body raised {b}, got {r} chain={chain}"))
                elif explicit and r != ("ok", None):
                    bad.append(("exit-raised-without-exception", f"op {i}: outcome={outcome}, got {r}"))
                elif not explicit and r != "exc:" + b:
                    bad.append(("with-body-exception-lost", f"op {i}: body raised {b}, caller got {r}"))
    # --- is_running ------------------------------------------------------------------------------------
    for i, op in enumerate(ops):
        if kind(op) != "is_running" or i not in result:
            continue
        r = result[i]
        if r not in (("ok", True), ("ok", False)):
            bad.append(("is-running-not-bool", f"op {i}: {r}"))
            continue
        val = r[1]
        started_before = good_start is not None and good_start < i and result.get(good_start) == ("ok", None)
        if val and not started_before:
            bad.append(("is-running-true-before-start", f"op {i}"))
        if val and thread_end and thread_end[0] < pos_call[i]:
            bad.append(("is-running-true-after-finish", f"op {i}"))
        if not val and started_before and exit_pos > pos_ret[i]:
            bad.append(("is-running-false-while-running", f"op {i}"))
        # against the logged thread state at the linearisation point
        mine = [e for j, e in evs if pos_call[i] < j < pos_ret[i] and e["act"] == "isRunning"]
        for e in mine:
            if val != e["abs"].startswith("RUNNING "):
                bad.append(("is-running-vs-state", f"op {i}: returned {val} in state {e['abs'].split()[0]}"))
    # --- settings -------------------------------------------------------------------------------------------
    posts = [(i, op[1]) for i, op in enumerate(ops) if kind(op) == "set"]
    for i, v in posts:
        if i in result and result[i] != ("ok", None):
            bad.append(("set-settings-raised", f"op {i}: {result[i]}"))
    upd_calls = [i for i, m in marks if m[0] == "upd_call"]
    upd_rets = [(i, m[1], _code(m[2])) for i, m in marks if m[0] == "upd_ret"]     # values compared as model codes
    # Posts are numbered 1..n in issue order (runner operations are serial); values may repeat, so everything is
    # decided on ordinals and time windows, never on the values being distinct.  `cons` = the ordinals that may be the
    # post the task consumed last (0 = none yet): a post racing with an update may or may not have landed before the pop.
    v0 = _tok_code(script["settings0"]) if script.get("settings0") is not None else "0"
    pval = {0: v0}
    for k, (i, v) in enumerate(posts, 1):
        pval[k] = _tok_code(v)
    pord = [(k, i) for k, (i, v) in enumerate(posts, 1)]
    cons = {0}
    for (c, (rpos, rv, seen)) in zip(upd_calls, upd_rets):
        if rv is not True and rv is not False:
            bad.append(("update-not-bool", repr(rv)))
            break
        nxt_cons = set()
        why = None
        for k0 in sorted(cons):
            surely = [k for k, i in pord if k > k0 and i in pos_ret and pos_ret[i] < c]
            maybe = [k for k, i in pord if k > k0 and i in pos_call and pos_call[i] < rpos]
            if rv:
                if not maybe:
                    why = why or ("update-true-without-post",
                                  f"update_settings() returned True, saw {seen!r}, nothing posted since the previous update")
                    continue
                lo = max(surely) if surely else 0
                fit = [k for k in maybe if k >= lo and pval[k] == seen]
                if fit:
                    nxt_cons.update(fit)
                elif any(pval[k] == seen for k in maybe):
                    why = ("update-not-newest", f"saw {seen!r} (post #{[k for k in maybe if pval[k] == seen]}), but post "
                                                f"#{lo} = {pval[lo]!r} was made before the update began")
                else:
                    why = why or ("update-wrong-value", f"saw {seen!r}, candidates {[pval[k] for k in maybe]}")
            else:
                if surely:
                    why = why or ("update-false-although-posted",
                                  f"posts #{surely} = {[pval[k] for k in surely]} were made since the previous update")
                elif seen != pval[k0]:
                    why = why or ("settings-changed-without-update", f"holds {seen!r}, expected {pval[k0]!r}")
                else:
                    nxt_cons.add(k0)
        if not nxt_cons:
            bad.append(why or ("update-inconsistent", f"rv={rv} seen={seen!r}"))
            break
        cons = nxt_cons
    # publication of adopted settings: exactly one per successful update, carrying the adopted value, none otherwise
    pubs = [(i, _code(m[1])) for i, m in marks if m[0] == "pub"]
    used = set()
    for (c, (rpos, rv, seen)) in zip(upd_calls, upd_rets):
        mine = [(i, v) for i, v in pubs if c < i < rpos]
        used.update(i for i, _ in mine)
        if rv is True:
            if len(mine) != 1:
                bad.append(("update-true-published-%d-times" % len(mine), f"update_settings() adopted {seen!r}"))
            elif mine[0][1] != seen:
                bad.append(("published-value-not-adopted", f"published {mine[0][1]!r}, task holds {seen!r}"))
        elif mine:
            bad.append(("published-without-update", f"update_settings() returned {rv!r}, published {[v for _, v in mine]}"))
    open_upd_pos = upd_calls[-1] if len(upd_calls) > len(upd_rets) else None
    for i, v in pubs:
        if i not in used and not (open_upd_pos is not None and i > open_upd_pos):
            bad.append(("published-outside-update", f"value {v!r}"))
    # get_status: what the task body wrote last
    writes = [(i, m[1]) for i, m in marks if m[0] == "status_set"]
    for i, op in enumerate(ops):
        if kind(op) == "status" and i in result:
            r = result[i]
            if r[0] != "ok":
                bad.append(("get-status-raised", f"op {i}: {r}"))
                continue
            before = [v for j, v in writes if j < pos_call[i]]
            during = [v for j, v in writes if pos_call[i] < j < pos_ret[i]]
            allowed = ([before[-1]] if before else [None]) + during
            if r[1] not in allowed:
                bad.append(("get-status-not-last-written", f"op {i}: {r[1]!r}, allowed {allowed}"))
    # get_pending_settings / get_settings (runner-side view)
    updates = list(zip(upd_calls, upd_rets))
    last_k = 0
    for i, op in enumerate(ops):
        k = kind(op)
        if k == "set":
            last_k += 1
        elif k == "pend" and i in result:
            r = result[i]
            if r[0] != "ok":
                bad.append(("get-pending-raised", f"op {i}: {r}"))
                continue
            lastv = pval[last_k] if last_k else None
            ipost = pord[last_k - 1][1] if last_k else None
            # updates that may / must have taken the newest post before this call
            may_take = [u for u in updates if u[1][1] is True and u[1][2] == lastv and u[0] < pos_ret[i]
                        and ipost is not None and u[1][0] > pos_call[ipost]]
            must_take = [u for u in updates if u[1][1] is True and ipost is not None and ipost in pos_ret
                         and u[0] > pos_ret[ipost] and u[1][0] < pos_call[i]]
            # an update that started but whose return mark is missing (task aborted) may also have taken it
            open_upd = len(upd_calls) > len(upd_rets) and upd_calls[-1] < pos_ret[i]
            if r[1] is None:
                # None = nothing pending, or a posted None pending: indistinguishable by design of get_pending_settings
                if last_k and lastv != "0" and not may_take and not open_upd:
                    bad.append(("pending-lost", f"op {i}: post #{last_k} = {lastv!r} not consumed, get_pending_settings() = None"))
            elif not last_k or _code(r[1]) != lastv:
                bad.append(("pending-not-newest", f"op {i}: {r[1]!r} (code {_code(r[1])}), last posted code {lastv!r}"))
            elif must_take:
                bad.append(("pending-after-consumed", f"op {i}: {r[1]!r} was already taken by the task"))
        elif k == "get" and i in result:
            r = result[i]
            if r[0] != "ok":
                bad.append(("get-settings-raised", f"op {i}: {r}"))
                continue
            taken = [s for (c, (rpos, rv, s)) in zip(upd_calls, upd_rets) if rv is True and c < pos_ret[i]]
            if _code(r[1]) not in taken and _code(r[1]) != v0:
                bad.append(("get-settings-unknown-value", f"op {i}: {r[1]!r}, task took {taken}, initial {v0!r}"))
    if script.get("kind") == "loop":
        bad += _loop_oracle(script, marks, run_exits, obs)
    # --- deadlock -----------------------------------------------------------------------------------------------
    if obs.deadlock is not None:
        i = obs.last_issued
        op = ops[i] if i is not None and i < len(ops) else None
        k = kind(op) if op is not None else None      # with_exit / exit_exc count as exit
        if k not in ("join", "exit", "release"):
            bad.append(("deadlock-outside-join", f"op {i} ({k}): {obs.deadlock[:160]}"))
        else:
            # join may wait for ever only if the task cannot end: never started and never stopped,
            # or running a body that waits for a stop request that was never made
            stop_before = any(j <= i for j in stops)        # exit / release carry their own stop
            if k == "join":
                stop_before = any(j < i for j in stops)
            if shut_idx is not None and shut_idx < i:
                stop_before = True       # the helper thread has run to completion before a deadlock is declared
            never_started = good_start is None or good_start > i
            if stop_before:
                why = "stop() was issued before" if k == "join" else f"{k} = stop() followed by join() must end the task"
                bad.append(("join-blocks-after-stop", f"op {i} ({k}) waits for ever although {why}"))
            elif never_started:
                pass                                            # documented: join() before start()/stop() never returns
            elif not obs.body_blocked:
                bad.append(("join-blocks-although-run-ends", f"op {i} ({k}) waits for ever; the task body does not block"))
    else:
        missing = [i for i in range(len(ops)) if i not in result]
        if missing:
            bad.append(("op-without-result", f"ops {missing}"))
    return bad


def _loop_oracle(script: dict, marks: list, run_exits: list, obs: "Obs") -> list:
    """The documented shape of QMI_LoopTask.run, evaluated on the hook-call log of the real run."""
    bad: list = []
    toks = [m[1] for _, m in marks if m[0] == "ltok" and m[1] != "C"]
    if not toks:
        return bad
    complete = bool(run_exits)
    # 1. loop_finalize: exactly once iff loop_prepare returned, and it is the last thing run() does
    nfin = sum(1 for t in toks if t.startswith("F"))
    prepared = toks[0] == "P"
    if not toks[0].startswith("P"):
        bad.append(("loop-prepare-not-first", " ".join(toks[:6])))
    if complete:
        if prepared and nfin != 1:
            bad.append(("loop-finalize-ran-%d-times" % nfin, " ".join(toks[-8:])))
        if not prepared and nfin != 0:
            bad.append(("loop-finalize-after-failed-prepare", " ".join(toks)))
        if prepared and nfin == 1 and not toks[-1].startswith("F"):
            bad.append(("loop-finalize-not-last", " ".join(toks[-6:])))
    elif nfin > 1:
        bad.append(("loop-finalize-ran-%d-times" % nfin, " ".join(toks[-8:])))
    # 2. order inside the loop (the sequence documented in run()): what may follow what
    follow = {
        "P": {"T0", "T1"}, "T0": {"U0", "U1"}, "T1": {"F"}, "U0": {"I"}, "U1": {"p"}, "p": {"I"}, "I": {"S0", "S1", "S"},
        "S0": {"G"}, "S1": {"s"}, "s": {"G"}, "G": {"W0", "W1", "K", "T0", "T1"}, "W0": {"T0", "T1"}, "W1": {"F"},
        "K": {"T0", "T1"}, "F": set(),
    }
    for a, b in zip(toks, toks[1:]):
        base = a.split("!")[0]
        if "!" in a:                       # a hook raised: inside the try only loop_finalize may follow
            ok = base != "P" and base != "F" and b.split("!")[0] == "F"
            if base in ("P", "F"):
                ok = False
        else:
            ok = b.split("!")[0] in {x for x in follow.get(base, set())} or (base == "I" and b.split("!")[0] == "S")
        if not ok:
            bad.append(("loop-order", f"{a} followed by {b} in {' '.join(toks)}"))
            break
    # 3. a self-stop only under policy TERMINATE, and the loop ends at its next test
    for a, b in zip(toks, toks[1:]):
        if a == "K" and (script["policy"] != "terminate" or b != "T1"):
            bad.append(("loop-terminate-policy", f"K then {b}, policy {script['policy']}"))
    # 4. how run() ended
    if complete:
        raised = [t for t in toks if "!" in t]
        if not prepared:
            want = "stopExc" if toks[0].endswith("!s") else "otherExc"
        else:
            in_try = [t for t in raised if not t.startswith("F")]
            want = "otherExc" if (in_try and in_try[0].endswith("!o")) else "ret"
            fin = [t for t in raised if t.startswith("F")]
            if fin:
                want = "stopExc" if fin[0].endswith("!s") else "otherExc"
        if run_exits[0][1] != want:
            bad.append(("loop-outcome", f"run() ended with {run_exits[0][1]}, hooks say {want}: {' '.join(toks)}"))
    # 5. process_new_settings sees the settings just adopted
    last_seen = None
    for _, m in marks:
        if m[0] == "upd_ret" and m[1] is True:
            last_seen = _code(m[2])
        elif m[0] == "process_sees" and _code(m[1]) != last_seen:
            bad.append(("loop-process-sees-stale-settings", f"{m[1]!r} vs adopted {last_seen!r}"))
    return bad


def signature(clause: str) -> str:
    return f"task:{clause}"


# ---------------------------------------------------------------------------
# the check
# ---------------------------------------------------------------------------

def _case_key(case):
    return (repr(case["script"]), repr(case["history"]))


def _shrink(case: dict, clause: str) -> dict:
    """Greedy deletion of history ops and body steps while the same oracle clause keeps failing."""
    def fails(c):
        try:
            return any(cl == clause for cl, _ in oracle(c, run_case(c)))
        except Exception:
            return False
    cur = dict(case)
    changed = True
    rounds = 0
    while changed and rounds < 4:
        changed = False
        rounds += 1
        for field, sub in (("history", None), ("script", "body")):
            i = 0
            while True:
                seq = cur["history"] if sub is None else cur["script"]["body"]
                if i >= len(seq):
                    break
                cand = dict(cur)
                if sub is None:
                    cand["history"] = seq[:i] + seq[i + 1:]
                else:
                    cand["script"] = dict(cur["script"], body=seq[:i] + seq[i + 1:])
                if fails(cand):
                    cur = cand
                    changed = True
                else:
                    i += 1
    return cur


class C10(Prop):
    id = "C10"
    lean_modules = ["QmiModel.Props.C10"]
    driver = "drv_c10"
    modelled_not_verified = [
        "threading.Condition / Event / Thread.join semantics (as specified); under test they are the cooperative versions of harness/detsched.py",
        "atomicity: one `with self._state_cond:` region = one action; `update_settings` split at `if fifo` / `fifo.pop()` (+ assignment, "
        "one statement) / `publish`; join = `get_state` region + `_joined` write; everything else of a runner method has no yield point",
        "collections.deque(maxlen=1) as an `Option` slot (the harness reports the real deque contents; two elements never match)",
        "the RPC layer between proxy and QMI_TaskRunner (C01–C03): runner operations are serialised on the RPC worker; "
        "delivery of sig_settings_updated / sig_status_updated after `publish` is called (C07)",
        "the wake-up of a task waiting on a condition inside stop_task (C11)",
        "QMI_LoopTask: clock values are integer ticks (the scripts use exact binary fractions); hook bodies are scripted "
        "(return / raise task-stop / raise other); the loop model is sequential and is composed with the lifecycle model "
        "by the driver (events of run() only while the lifecycle is inside run(); stop flag read = lifecycle stop flag)",
        "QMI_TaskRunner.get_task_class_name and custom task-runner subclasses are not modelled",
    ]

    # -- generation -------------------------------------------------------------------------------
    def _gen_case(self, rng, max_len):
        script = gen_loop_script(rng) if rng.random() < 0.18 else gen_script(rng)
        pool = None if rng.random() < 0.2 else rng.choice(POOLS)
        if pool is not None and rng.random() < 0.5:
            script["settings0"] = rng.choice(pool)          # the task starts with settings of its own, from the same pool
        history = gen_history(rng, max_len, pool)
        pol = rng.random()
        case = {"script": script, "history": history, "seed": rng.randrange(1 << 30),
                "policy": "weighted", "cp": None, "trace": rng.random() < 0.25}
        if rng.random() < 0.1:       # the final remove_rpc_object is made by a caller that is already unwinding
            case["release_unwinding"] = rng.choice(sorted(BODY_EXC))
        if pol < 0.35:
            case["policy"] = "pct"
            case["cp"] = rng.randrange(40, 260) if rng.random() < 0.7 else None
        return case

    def _evaluate(self, cases, res: Result, ctx: Optional[Ctx], shrink: bool = True, stop_at_first: bool = False):
        """Run the cases on the implementation, replay all logs on the model in one driver call, evaluate the oracle."""
        all_lines, spans, failing = [], [], []
        with _Taps():
            for case in cases:
                obs = run_case(case)
                lines = lines_of(obs, case["script"])
                spans.append((len(all_lines), len(lines), case, obs))
                all_lines += lines
                hist_kinds = {(o if isinstance(o, str) else o[0]) for o in case["history"]}
                res.note_case(_case_key(case) + (case["seed"], case["policy"], case["cp"], case["trace"]),
                              nontrivial=len(case["history"]) >= 2)
                res.count("scenarios")
                res.count("policy_" + case["policy"] + ("_cp" if case["cp"] is not None else ""))
                res.count("line_traced", 1 if case["trace"] else 0)
                res.count("init_" + case["script"]["init"])
                res.count("end_" + "_".join(case["script"]["end"]))
                for o in case["history"]:
                    res.count("op_" + (o if isinstance(o, str) else o[0]))
                for e in obs.log:
                    if e["kind"] == "ev":
                        res.count("ev_" + e["act"].split(":")[0])
                    elif e["kind"] == "lev":
                        res.count("lev_" + ":".join(e["act"].split(":")[:2]) if e["act"].startswith("hook") else
                                  "lev_" + e["act"].split(":")[0])
                if case["script"].get("kind") == "loop":
                    res.count("loop_policy_" + case["script"]["policy"])
                if obs.deadlock is not None:
                    res.count("deadlocks_observed")
                evl = [e for e in obs.log if e["kind"] == "ev"]
                for a, b in zip(evl, evl[1:]):
                    if a["act"] == "updCheck" and a["res"] == "true" and b["act"].startswith("set:"):
                        res.count("post_between_test_and_pop")
                    if a["act"] == "runEnd:ret" and b["act"] == "isRunning":
                        res.count("is_running_between_return_and_mark")
                for e in evl:
                    if e["res"] and e["res"].startswith("exc:"):
                        res.count("result_" + e["res"])
                    if e["act"] == "isRunning":
                        res.count("is_running_" + str(e["res"]))
                if "start" in hist_kinds and "stop" in hist_kinds:
                    res.count("histories_with_start_and_stop")
                res.count("events_total", len(lines) - 1)
                res.sample({"script": case["script"], "history": case["history"], "policy": case["policy"],
                            "deadlock": bool(obs.deadlock), "events": lines[1:30]}, limit=4)
                bad = oracle(case, obs)
                if bad:
                    failing.append((case, bad))
                    if stop_at_first:
                        break
            # shrink inside the tap context
            done = set()
            for case, bad in failing:
                clause, detail = bad[0]
                if clause in done or len(done) >= 3:
                    continue
                done.add(clause)
                small = _shrink(case, clause) if shrink else case
                bad2 = [b for b in oracle(small, run_case(small)) if b[0] == clause] or bad
                res.failures.append(Failure(
                    signature=signature(clause),
                    summary=f"script={small['script']} history={small['history']} seed={small['seed']} "
                            f"policy={small['policy']} cp={small['cp']}: {clause}: {bad2[0][1]}",
                    replay={"case": small, "clause": clause}))
        if all_lines:
            model = LeanDriver(self.driver).run(all_lines)
            res.traces_validated += len(spans)
            nb = 0
            for (start, ln, case, obs) in spans:
                for k in range(start, start + ln):
                    if model[k] != "ok":
                        nb += 1
                        if nb <= 5:
                            res.broken.append(Broken(
                                "correspondence", "Task.step vs _TaskThread/QMI_TaskRunner event log",
                                f"event {k - start} {all_lines[k]!r}: model says {model[k]!r}; "
                                f"log so far: {all_lines[max(start, k - 6):k]}",
                                case=case))
                        break
            if nb:
                res.count("traces_not_refining", nb)

    def correspondence(self, ctx: Ctx) -> Result:
        res = Result(rule="scenario = (task script, runner history, scheduler policy, seed[, change point][, line tracing]); "
                          "scripts: init ok/fail, body steps upd/yield/sleep/until_stop/wait_stop/peek, end ret/raise X/raise "
                          "task-stop; histories: random over start stop join is_running set get pend enter exit with shaped "
                          "prefixes (context-manager form, start…stop join, stop first); every scenario ends with "
                          "remove_rpc_object; non-trivial = history of ≥ 2 operations; distinct by (script, history, schedule)")
        n = ctx.scale(2600, 20000)
        random_cases = [self._gen_case(ctx.rng, ctx.scale(7, 10)) for _ in range(n)]
        cases = []          # the fixed corpus runs first
        # a few fixed shapes every run: double start, stop first, join before start (expected to wait for ever)
        fixed = [
            ({"init": "ok", "body": [["upd"], ["wait_stop"]], "end": ["ret"]}, ["start", "start", ["set", 1], "stop", "join"]),
            ({"init": "ok", "body": [], "end": ["ret"]}, ["stop", "start", "join", "is_running"]),
            ({"init": "ok", "body": [], "end": ["ret"]}, ["join"]),
            ({"init": "ok", "body": [["wait_stop"]], "end": ["ret"]}, ["start", "join"]),
            ({"init": "ok", "body": [["upd"]], "end": ["raise", "ValueError"]}, [["set", 1], ["set", 2], "pend", "start", "join", "get"]),
            ({"init": "ok", "body": [["until_stop", 3]], "end": ["raise_stop"]}, ["enter", ["set", 1], "is_running", ["set", 2], "exit"]),
            ({"init": "fail_post", "body": [], "end": ["ret"]}, ["start"]),
            # _request_shutdown racing with start / before start / while running; status; publication
            ({"init": "ok", "body": [["wait_stop"]], "end": ["ret"]}, ["shutdown", "start", "is_running", "join"]),
            ({"init": "ok", "body": [["upd"], ["wait_stop"]], "end": ["ret"]}, ["start", ["set", 1], "shutdown", "join"]),
            ({"init": "ok", "body": [], "end": ["ret"]}, ["shutdown", "join", "start"]),
            ({"init": "ok", "body": [["status", 3], ["upd"], ["status", 4], ["wait_stop"]], "end": ["raise_stop"]},
             [["set", 1], "status", "start", "status", ["set", 2], "status", "exit", "status", "exit"]),
            ({"init": "ok", "body": [["until_stop", 3]], "end": ["ret"]}, ["enter", "enter", "exit", "join", "join", "stop", "start"]),
        ]
        seq = {"init": "ok", "body": [["upd"], ["wait_stop"], ["upd"], ["upd"]], "end": ["ret"]}
        seq0 = dict(seq, settings0=1)
        upd4 = {"init": "ok", "body": [["upd"], ["upd"], ["upd"], ["upd"]], "end": ["ret"]}
        for script, hist in [
            (seq, [["set", 1], "start", "get", ["set", 2], ["set", 1], "pend", "stop", "join", "get", "pend"]),     # A | B A
            (seq, [["set", 1], "start", "get", ["set", 1], "pend", "stop", "join", "get", "pend"]),                 # A | A
            (seq0, ["start", "get", ["set", 1], "pend", "stop", "join", "get"]),                                    # initial again
            (seq0, [["set", 2], ["set", 1], "pend", "start", "join"]),                                              # B, initial
            (seq0, ["start", ["set", 2], ["set", 1], ["set", 2], "pend", "stop", "join", "get"]),                   # B A B
            (seq, [["set", 777], "start", "get", ["set", 778], ["set", 777], "pend", "stop", "join", "get"]),       # equal, not identical
            (upd4, [["set", 1], ["set", 1], "pend", "start", "join", "get", ["set", 1], "pend"]),                   # A A, then A after the end
            (dict(upd4, settings0=2), [["set", 2], "pend", "enter", ["set", 2], "pend", "exit", "get"]),
            # None and the other falsy values are settings like any other
            (seq, [["set", 1], "start", "get", ["set", "None"], "pend", "stop", "join", "get"]),                    # A | None
            (seq, [["set", 1], "start", "get", ["set", 2], ["set", "None"], "pend", "stop", "join", "get"]),       # A | B None
            (seq0, [["set", "None"], "pend", "start", "get", ["set", 0], "stop", "join", "get"]),
            (upd4, [["set", "None"], "start", "join", "get", "pend"]),
            (seq, [["set", 0], "start", "get", ["set", "False"], ["set", "empty_str"], "pend", "stop", "join", "get"]),
            (seq, [["set", "empty_tuple"], "start", "get", ["set", "empty_dict"], "pend", "stop", "join", "get"]),
            (seq, [["set", "False"], "start", "get", ["set", 0], "pend", "stop", "join", "get"]),                  # False then 0 (== but different)
        ]:
            fixed.append((script, hist))

        # the real `with proxy:` statement: how run() ends × how the body ends × when the task gets to its end
        ends = [["ret"], ["raise_stop"], ["raise", "ValueError"], ["raise", "KeyboardInterrupt"], ["raise", "BaseBoom"]]
        bodies = [None, "BodyError", "KeyError", "KeyboardInterrupt", "SystemExit"]
        timings = [[], [["wait_stop"]], [["upd"], ["until_stop", 2]]]
        k = 0
        for end in ends:
            for b in bodies:
                for tb in timings:
                    inner = [[], ["is_running", ["set", 1]], [["set", 1], "stop"], ["join"] if not tb or tb[0] != ["wait_stop"] else ["pend"]][k % 4]
                    k += 1
                    fixed.append(({"init": "ok", "body": tb, "end": end}, ["with_enter"] + inner + [["with_exit", b]]))
        for end in ends:                                     # __exit__ called by hand with exception info; with on a started task
            fixed.append(({"init": "ok", "body": [], "end": end}, ["start", ["exit_exc", "BodyError"], "join"]))
            fixed.append(({"init": "ok", "body": [["wait_stop"]], "end": end},
                          ["start", "with_enter", "is_running", ["with_exit", "KeyError"], "stop", "join"]))

        # cleanup code that runs while the wait is being left: waits × handlers; the outcome of run() is the exception that
        # actually leaves it, whatever hangs on its __cause__ / __context__ chain
        k = 0
        for wt in WAITS:
            blocking = wt in ("wait_stop", "signal_wait")
            for hd in HANDLERS:
                for end in (["ret"], ["raise", "ValueError"]) if hd in ("except_swallow", "any_swallow", "finally_ok") else (["ret"],):
                    hist = [["start", "is_running", "stop", "join", "is_running"], ["with_enter", ["with_exit", None]],
                            ["start", "join"]][k % (2 if blocking else 3)]
                    k += 1
                    fixed.append(({"init": "ok", "body": [["guard", wt, hd]], "end": end}, hist))

        def loop(period, policy, hooks=None, status=(), cost=(), bound=3):
            return {"kind": "loop", "init": "ok", "body": [], "end": ["loop"], "period": period, "policy": policy,
                    "hooks": hooks or {}, "status": list(status), "cost": list(cost), "bound": bound}
        pols = ["immediate", "skip", "terminate"]
        k = 0
        for h in HOOKS:                                    # every hook raising either way, at its first and a later call
            for what in ("stop", "other"):
                for idx in ("0", "1"):
                    if idx == "1" and h in ("prepare", "finalize"):
                        continue
                    fixed.append((loop(1.0, pols[k % 3], {h: {idx: what}}, status=[True, True, False], bound=3),
                                  [["set", 1], "start", ["set", 2], "join", "status"]))
                    k += 1
        for pol in pols:                                   # missed-period boundaries: tts = 0, one tick early, exact multiples
            for cost in ([1.0], [0.875], [1.125], [2.0, 0.0], [3.0], [3.125], [0.0, 2.875, 0.0]):
                fixed.append((loop(1.0, pol, cost=cost, status=[False, True], bound=len(cost) + 1),
                              ["start", ["set", 1], "is_running", "join"]))
            fixed.append((loop(0.5, pol, cost=[0.5, 0.5], bound=4), ["enter", ["set", 1], "stop", "exit"]))
            fixed.append((loop(2.0, pol, bound=50), ["start", ["set", 1], ["set", 2], "stop", "join"]))
        for n_fixed, (script, hist) in enumerate(fixed):
            # the hand-picked histories under several schedules, the systematic grids under one (quick) / four (thorough)
            for s in range(ctx.scale(3, 12) if n_fixed < 20 else ctx.scale(1, 4)):
                c = {"script": script, "history": hist, "seed": ctx.rng.randrange(1 << 30),
                     "policy": "weighted" if s % 2 == 0 else "pct", "cp": None, "trace": s % 3 == 0}
                if (len(cases) % 5) == 4:
                    c["release_unwinding"] = ["BodyError", "KeyboardInterrupt", "SystemExit"][len(cases) % 3]
                cases.append(c)
        # a post racing with update_settings(), line-level yield points: change-point sweep + random thread weights
        # values repeat: revert before the task looks (A,B,A), the value in effect / the initial value posted again, A,A
        race = {"init": "ok", "body": [["upd"], ["upd"], ["upd"]], "end": ["ret"]}
        race0 = dict(race, settings0=1)
        races = [
            (race, ["start", ["set", 1], ["set", 2], ["set", 3], "pend", "join", "get"]),
            (race, ["start", ["set", 1], ["set", 2], ["set", 1], "pend", "join", "get"]),
            (race, [["set", 1], "start", ["set", 1], ["set", 2], ["set", 2], "pend", ["set", 1], "join", "pend"]),
            (race0, ["start", ["set", 1], "pend", ["set", 2], ["set", 1], "pend", "join", "get"]),
            (race0, [["set", 2], ["set", 1], "pend", "start", ["set", 777], ["set", 777], ["set", 1], "join", "get"]),
            (race, ["start", ["set", 1], ["set", "None"], ["set", 2], "pend", ["set", "None"], "join", "get"]),
            (race0, ["start", ["set", 0], ["set", "False"], ["set", "empty_str"], "pend", "join", "get"]),
        ]
        k = 0
        for cp in range(60, 300, ctx.scale(8, 2)):
            sc, rh = races[k % len(races)]
            k += 1
            cases.append({"script": sc, "history": rh, "seed": cp, "policy": "pct", "cp": cp, "trace": True})
        # (one change point rarely puts the post between `if fifo` and `fifo.pop()`; random thread weights do: ~4 % of runs)
        for _ in range(ctx.scale(250, 2000)):
            sc, rh = races[k % len(races)]
            k += 1
            cases.append({"script": sc, "history": rh, "seed": ctx.rng.randrange(1 << 30), "policy": "weighted",
                          "cp": None, "trace": True})
        self._evaluate(cases + random_cases, res, ctx)
        return res

    # -- systematic search ------------------------------------------------------------------------------
    def search(self, ctx: Ctx, broken) -> Result:
        res = Result()
        # 1. the disagreeing cases themselves, and the same history under a sweep of change points
        seen = set()
        cases = []
        for b in broken:
            c = b.case
            if not c or "script" not in c:
                continue
            key = _case_key(c)
            if key in seen or len(seen) >= 4:
                continue
            seen.add(key)
            cases.append(c)
            for cp in range(30, 260, 6):
                cases.append(dict(c, policy="pct", cp=cp))
        if cases:
            self._evaluate(cases, res, ctx)
            if res.failures:
                return res
        # 2. all histories up to a small length over a reduced alphabet × representative scripts × change-point sweep
        scripts = [
            {"init": "ok", "body": [["upd"], ["wait_stop"]], "end": ["ret"]},
            {"init": "ok", "body": [["upd"], ["yield"], ["upd"]], "end": ["raise", "ValueError"]},
            {"init": "ok", "body": [["until_stop", 2]], "end": ["raise_stop"]},
            {"init": "ok", "body": [], "end": ["ret"]},
        ]
        alphabet = ["start", "stop", "join", "is_running", "SET", "pend"]
        L = ctx.scale(3, 4)
        for script in scripts:
            batch = []
            for n in range(1, L + 1):
                for hist in itertools.product(alphabet, repeat=n):
                    v = 0
                    h = []
                    pattern = [[1, "None", 1, 2], [1, 1, 2, 2], [0, "None", "False", 2], ["None", 1, 2, "None"]][scripts.index(script) % 4]
                    for o in hist:
                        if o == "SET":
                            v += 1
                            h.append(["set", pattern[(v - 1) % 4]])
                        else:
                            h.append(o)
                    for cp in (None, 60, 90, 120, 150):
                        batch.append({"script": script, "history": h, "seed": 7 + len(batch), "policy": "pct" if cp else "weighted",
                                      "cp": cp, "trace": cp in (90, 150)})
            r2 = Result()
            self._evaluate(batch, r2, ctx, stop_at_first=True)
            res.merge(r2)
            if res.failures:
                return res
        return res

    def replay(self, ctx: Ctx, rp: dict):
        case = rp["case"]
        with _Taps():
            bad = oracle(case, run_case(case))
        want = rp.get("clause")
        hit = [b for b in bad if b[0] == want] or bad
        if not hit:
            return None
        return Failure(signature(hit[0][0]), f"{case}: {hit[0][0]}: {hit[0][1]}", rp)


PROP = C10()
