"""C20 — ADwin parameter names bind one-to-one; batch access equals single access.

Model: lean/QmiModel/Model/Adbasic.lean; theorems: Props/C20.lean; driver: lean/Drv/C20.lean.

Tie (five differential streams against the real code, all batched into one driver call):
  A  random source texts          -> `_parse_single_adbasic_file`     vs `scanFile`
  B  random include paths         -> `_resolve_include_path`          vs `resolveInclude`
  C  random integer lists         -> `_find_sequential_ranges`        vs `findRanges`
  D  random symbol lists (layouts with injected duplicates / conflicts) -> `analyze_parameter_info`, then
     `AdwinProcess.get_par/set_par/get_par_multiple/set_par_multiple/start_with_params` on the real
     `Adwin_Base` driver over a fake ADwin library (typed arrays, access log, call budget)
  F  random explicit configurations (par / fpar / par_array dicts) -> `ProgramInfo.from_config(parse_parameters=False)` + accessors
  E  generated ADbasic programs written to a TemporaryDirectory (nested includes, comments, case variations,
     cycles, missing files) -> `parse_adbasic_program` (open() budget as watchdog) + analysis + accessors

Oracle (independent of the Lean driver, on every implementation trace): the binding is one-to-one
case-insensitively and contains every recognisable definition, or a ParseException names a `#Define` line that
really conflicts (or whose index cannot be converted); the parser terminates (open() budget as watchdog; exhausting it on an
include cycle the parser itself resolved = it never would); batch == one-at-a-time
(registers, returned values, value types) and touches exactly the bound registers.
"""
from __future__ import annotations

import contextlib
import ctypes
import itertools
import logging
import os
import re
import tempfile
from pathlib import Path

from harness.core import Broken, Ctx, Failure, LeanDriver, Prop, Result, diff_streams

OPEN_BUDGET = 200          # open() calls allowed per parse_adbasic_program call == fuel of the model
LIB_BUDGET = 5000          # ADwin library calls allowed per scenario


class Budget(BaseException):
    """Raised by the watchdogs (file-open counter, fake library call counter)."""


# ---------------------------------------------------------------------------
# encoding helpers (line protocol)
# ---------------------------------------------------------------------------

def hx(s: str) -> str:
    b = s.encode("utf-8")
    return b.hex() if b else "-"


def jc(items) -> str:
    items = list(items)
    return ",".join(items) if items else "-"


def num(v) -> str:
    """numeric reading in half units (what the model prints)"""
    import numpy as np
    if isinstance(v, (bool, np.bool_)):
        return f"bool:{v}"
    if isinstance(v, (int, np.integer)):
        return str(2 * int(v))
    if isinstance(v, (float, np.floating)):
        x = float(v) * 2
        if x == int(x):
            return str(int(x))
        return f"x{float(v)!r}"
    return f"?{type(v).__name__}"


def enc_val(v) -> str:
    if isinstance(v, int):
        return f"i{v}"
    x = v * 2
    assert x == int(x), v
    return f"f{int(x)}"


def show_desc(d) -> str:
    n = type(d).__name__
    if n == "ParDesc":
        return f"P{d.par_index}"
    if n == "FParDesc":
        return f"F{d.fpar_index}"
    return f"D{d.data_index}[{d.elem_index}]"


# ---------------------------------------------------------------------------
# fake ADwin library under the real Adwin_Base driver
# ---------------------------------------------------------------------------

class FakeADwinError(Exception):
    pass


class FakeADwinLib:
    """Stands in for `ADwin.ADwin`: 80 Par, 80 FPar, typed Data arrays, call-level access log, call budget."""

    def __init__(self, arrays: dict):
        # arrays: data index -> (type name reported by Data_Type, is_int, length)
        self.par = {i: 100000 + i for i in range(1, 81)}
        self.fpar = {i: float(200000 + i) for i in range(1, 81)}
        self.types = {d: (tn, is_int) for d, (tn, is_int, _n) in arrays.items()}
        self.data = {d: [None] + [(1000 * d + e) if is_int else float(1000 * d + e) for e in range(1, n + 1)]
                     for d, (_tn, is_int, n) in arrays.items()}
        self.log: list[str] = []
        self.calls = 0

    def _tick(self):
        self.calls += 1
        if self.calls > LIB_BUDGET:
            raise Budget("fake ADwin library call budget exhausted")

    def snapshot(self):
        return (dict(self.par), dict(self.fpar), {d: list(v) for d, v in self.data.items()})

    def restore(self, snap):
        self.par, self.fpar, self.data = dict(snap[0]), dict(snap[1]), {d: list(v) for d, v in snap[2].items()}

    def Processor_Type(self):
        return "T12"

    def Process_Status(self, slot):
        self._tick()
        return 0

    def Start_Process(self, slot):
        self._tick()
        self.started = getattr(self, "started", 0) + 1

    def Get_Par(self, i):
        self._tick(); self.log.append(f"gp{i}")
        return self.par[i]

    def Set_Par(self, i, v):
        self._tick(); self.log.append(f"sp{i}")
        if not -2 ** 31 <= v < 2 ** 31:
            raise FakeADwinError("Par value out of range")
        self.par[i] = int(v)

    def Get_FPar_Double(self, i):
        self._tick(); self.log.append(f"gf{i}")
        return self.fpar[i]

    def Set_FPar_Double(self, i, v):
        self._tick(); self.log.append(f"sf{i}")
        self.fpar[i] = float(v)

    def Data_Type(self, d):
        self._tick()
        if d not in self.types:
            return (0, "undefined")
        return (5 if self.types[d][1] else 6, self.types[d][0])

    def Data_Length(self, d):
        self._tick()
        return len(self.data[d]) - 1

    def _span(self, d, first, count):
        if d not in self.data or first < 1 or count < 1 or first + count - 1 > len(self.data[d]) - 1:
            raise FakeADwinError(f"Data_{d}[{first}..{first + count - 1}] does not exist")

    def GetData_Long(self, d, first, count):
        self._tick(); self.log.append(f"gd{d}:{first}:{count}")
        self._span(d, first, count)
        return (ctypes.c_int32 * count)(*[int(x) for x in self.data[d][first:first + count]])

    def GetData_Double(self, d, first, count):
        self._tick(); self.log.append(f"gd{d}:{first}:{count}")
        self._span(d, first, count)
        return (ctypes.c_double * count)(*[float(x) for x in self.data[d][first:first + count]])

    def SetData_Long(self, raw, d, first, count):
        self._tick(); self.log.append(f"sd{d}:{first}:{count}")
        self._span(d, first, count)
        vals = [int(raw[k]) for k in range(count)]
        self.data[d][first:first + count] = vals

    def SetData_Double(self, raw, d, first, count):
        self._tick(); self.log.append(f"sd{d}:{first}:{count}")
        self._span(d, first, count)
        vals = [float(raw[k]) for k in range(count)]
        self.data[d][first:first + count] = vals

    # registers named in the access log, element level
    def touched(self) -> set:
        out = set()
        for a in self.log:
            k, rest = a[1], a[2:]
            if k == "p":
                out.add(f"P{rest}")
            elif k == "f":
                out.add(f"F{rest}")
            else:
                d, f, c = (int(x) for x in rest.split(":"))
                for e in range(f, f + c):
                    out.add(f"D{d}[{e}]")
        return out

    def read_reg(self, spec: str):
        if spec[0] == "P":
            return self.par[int(spec[1:])]
        if spec[0] == "F":
            return self.fpar[int(spec[1:])]
        d, e = spec[1:].split(":")
        return self.data[int(d)][int(e)]


def make_adwin(lib: FakeADwinLib):
    """The real `Adwin_Base` driver (validation, dtype handling) over the fake library."""
    from qmi.instruments.adwin.adwin import Adwin_Base
    a = Adwin_Base.__new__(Adwin_Base)
    a._name = "adwin"
    a._is_open = True
    a._device_no = 1
    a._adwin = lib
    return a


def make_process(param_info, lib: FakeADwinLib):
    from qmi.utils.adwin_manager import AdwinProcess, ProgramInfo
    info = ProgramInfo(file="prog", slot=1, trigger="timer", priority=1, param_info=param_info)
    return AdwinProcess(make_adwin(lib), "prog", info)


# ---------------------------------------------------------------------------
# independent recogniser of definitions (for the oracle only)
# ---------------------------------------------------------------------------

_O_IDX = re.compile(r"(?i:(f?par|data)_)([0-9]+)\Z")
_O_ELEM = re.compile(r"(?i:data_)(.*?)[\x1c-\x1f\s]*\[[\x1c-\x1f\s]*([0-9]+)[\x1c-\x1f\s]*\]\Z", re.S)


def o_defs(symbols):
    """[(sym, space, name, target)] in order; space 'data'|'par'; target = ('D',n) | ('P',n) | ('F',n) | ('E',arrname,k)
    | ('X',) for a definition whose index int() cannot convert (more than 4300 digits: must be rejected).
    Unrecognisable definitions are left out (the parser only warns about them)."""
    out = []
    for s in symbols:
        lab = s.label
        up = lab.upper()
        if up.startswith("DATA_"):
            m = _O_IDX.fullmatch(s.value)
            if m and m.group(1).lower() == "data":
                out.append((s, "data", lab[5:], ("D", int(m.group(2))) if len(m.group(2)) <= 4300 else ("X",)))
        elif up.startswith("PAR_"):
            m = _O_IDX.fullmatch(s.value)
            if m and m.group(1).lower() in ("par", "fpar"):
                if len(m.group(2)) <= 4300:
                    out.append((s, "par", lab[4:], ("P" if m.group(1).lower() == "par" else "F", int(m.group(2)))))
                else:
                    out.append((s, "par", lab[4:], ("X",)))
                continue
            m = _O_ELEM.fullmatch(s.value)
            if m and m.group(1) and not re.search(r"[\x1c-\x1f\s]", m.group(1)):
                out.append((s, "par", lab[4:], ("E", m.group(1), int(m.group(2))) if len(m.group(2)) <= 4300 else ("X",)))
    return out


def o_violation(defs, upto=None):
    """First definition (index into defs) that breaks one-to-one-ness against an earlier one, with a reason."""
    arrays = {}       # upper name -> (name, index)   (from *all* data definitions: the parser makes two passes)
    for (_s, sp, name, tgt) in defs:
        if sp == "data" and tgt[0] == "D":
            arrays.setdefault(name.upper(), tgt[1])
    seen = {"data": [], "par": []}
    for i, (s, sp, name, tgt) in enumerate(defs):
        if tgt[0] == "X":
            return i, "invalid-index"
        if sp == "par" and tgt[0] == "E":
            if tgt[1].upper() not in arrays:
                return i, "unknown-array"
            tgt = ("E", arrays[tgt[1].upper()], tgt[2])
        for (n2, t2) in seen[sp]:
            if n2.upper() == name.upper() and n2 != name:
                return i, "dup-case"
            if n2 == name and t2 != tgt:
                return i, "dup-target"
            if n2 != name and t2 == tgt:
                return i, "dup-ref"
        seen[sp].append((name, tgt))
    return None, None


def oracle_binding(symbols, outcome):
    """The first half of the property, evaluated directly.  `outcome` = ('ok', ParameterInfo) | ('exc', exception).
    Returns (clause, detail) or None."""
    defs = o_defs(symbols)
    if outcome[0] == "ok":
        info = outcome[1]
        for space, d in (("par", info.param), ("data", info.data)):
            keys = list(d.keys())
            ups = [k.upper() for k in keys]
            if len(set(ups)) != len(ups):
                return f"binding:{space}-names-not-distinct-case-insensitively", repr(keys)
            vals = [(type(v).__name__, tuple(v) if isinstance(v, tuple) else v) for v in d.values()]
            if len(set(vals)) != len(vals):
                dup = [k for k, v in zip(keys, vals) if vals.count(v) > 1]
                return f"binding:two-{space}-names-denote-one-register", repr(dup)
        arr_by_up = {k.upper(): v for k, v in info.data.items()}
        for (s, sp, name, tgt) in defs:
            if tgt[0] == "X":
                return "binding:accepted-definition-with-unconvertible-index", f"{s.label}"
            if sp == "data":
                if info.data.get(name) != tgt[1]:
                    return "binding:data-definition-missing-or-wrong", f"{s.label} {s.value}"
            else:
                got = info.param.get(name)
                if tgt[0] == "E":
                    want = f"D{arr_by_up.get(tgt[1].upper())}[{tgt[2]}]"
                else:
                    want = f"{tgt[0]}{tgt[1]}"
                if got is None or show_desc(got) != want:
                    return "binding:par-definition-missing-or-wrong", f"{s.label} {s.value} -> {got}"
        for name, v in info.param.items():
            if type(v).__name__ == "ArrayElemDesc" and v.data_index not in info.data.values():
                return "binding:element-of-unnamed-array", name
        defined = {(sp, name) for (_s, sp, name, _t) in defs}
        for name in info.param:
            if ("par", name) not in defined:
                return "binding:par-entry-without-definition", name
        for name in info.data:
            if ("data", name) not in defined:
                return "binding:data-entry-without-definition", name
        return None
    exc = outcome[1]
    if type(exc).__name__ != "ParseException":
        big = any(len(m) > 4300 for s in symbols for m in re.findall(r"[0-9]+", s.value))
        where = "index-longer-than-4300-digits" if (isinstance(exc, ValueError) and big) else "other"
        return f"reject:escaped-{type(exc).__name__}:{where}", repr(exc)[:200]
    # the error must name a #Define that really conflicts
    hit = [i for i, (s, *_r) in enumerate(defs) if s.filename == exc.filename and s.line_nr == exc.line_nr]
    if not hit:
        return "reject:position-is-not-a-recognised-definition", f"{exc.filename}:{exc.line_nr}"
    # the parser handles all DATA_ definitions first, then all PAR_ definitions
    ordered = [d for d in defs if d[1] == "data"] + [d for d in defs if d[1] == "par"]
    i, why = o_violation(ordered)
    if i is None:
        return "reject:program-is-one-to-one-but-rejected", str(exc)
    s = ordered[i][0]
    if (s.filename, s.line_nr) != (exc.filename, exc.line_nr):
        return "reject:position-is-not-the-first-conflict", f"{exc.filename}:{exc.line_nr} vs {s.filename}:{s.line_nr} ({why})"
    if s.label not in exc.message:
        return "reject:message-does-not-name-the-symbol", exc.message
    return None


# ---------------------------------------------------------------------------
# running the real analysis / accessors; canonical output lines
# ---------------------------------------------------------------------------

_MSG = [
    (re.compile(r"^Duplicate definition of symbol (.*) with different case$", re.S), "dup-case", False),
    (re.compile(r"^Duplicate definition of symbol (.*) for different (?:data array|parameter)$", re.S), "dup-target", False),
    (re.compile(r"^Symbol (.*) is a duplicate reference to (.*)$", re.S), "dup-ref", True),
    (re.compile(r"^Symbol (.*) refers to unknown array (.*)$", re.S), "unknown-array", True),
    (re.compile(r"^Invalid index in definition of symbol (.*)$", re.S), "invalid-index", False),
]


def canon_parse_exc(e, sym=None) -> str:
    """ParseException -> `exc:ParseException <file> <line> <kind> <label> <extra>`.  When the position names a
    symbol, the message is taken apart with that symbol's label (labels may contain blanks-free arbitrary text)."""
    msg = e.message
    head = f"exc:ParseException {hx(e.filename)} {e.line_nr}"
    if sym is not None:
        lab = sym.label
        fixed = {
            f"Duplicate definition of symbol {lab} with different case": "dup-case",
            f"Duplicate definition of symbol {lab} for different data array": "dup-target",
            f"Duplicate definition of symbol {lab} for different parameter": "dup-target",
            f"Invalid index in definition of symbol {lab}": "invalid-index",
        }
        if msg in fixed:
            return f"{head} {fixed[msg]} {hx(lab)} -"
        for mid, kind in ((" is a duplicate reference to ", "dup-ref"), (" refers to unknown array ", "unknown-array")):
            pre = "Symbol " + lab + mid
            if msg.startswith(pre):
                return f"{head} {kind} {hx(lab)} {hx(msg[len(pre):])}"
    for rx, kind, two in _MSG:
        m = rx.match(msg)
        if m:
            return f"{head} {kind} {hx(m.group(1))} {hx(m.group(2)) if two else '-'}"
    return f"{head} unknown-message {hx(msg)} -"


def run_analysis(symbols):
    """-> (canonical line, outcome)"""
    from qmi.utils import adbasic_parser as ap
    try:
        info = ap.analyze_parameter_info(symbols)
    except ap.ParseException as e:
        sym = next((s for s in symbols if s.filename == e.filename and s.line_nr == e.line_nr and s.label in e.message), None)
        return canon_parse_exc(e, sym), ("exc", e)
    except Exception as e:  # noqa
        return f"exc:{type(e).__name__}", ("exc", e)
    ps = sorted(f"{hx(k)}:{show_desc(v)}" for k, v in info.param.items())
    ds = sorted(f"{hx(k)}:{v}" for k, v in info.data.items())
    return f"ok par={jc(ps)} data={jc(ds)}", ("ok", info)


def exc_line(e) -> str:
    return f"exc:{type(e).__name__}"


def reg_valid(desc, arrays) -> bool:
    n = type(desc).__name__
    if n == "ParDesc":
        return 1 <= desc.par_index <= 80
    if n == "FParDesc":
        return 1 <= desc.fpar_index <= 80
    return desc.data_index in arrays and 1 <= desc.elem_index <= arrays[desc.data_index][2]


def reg_covered(desc, arrays) -> bool:
    """Is an access to this register decided by QMI code (AdwinProcess / Adwin_Base validation) rather than by the
    ADwin library?  True for existing registers and for those Adwin_Base refuses itself (Par/FPar outside 1..80,
    Data outside 1..200, element index 0); False only for elements beyond the length of an existing array."""
    n = type(desc).__name__
    if n in ("ParDesc", "FParDesc"):
        return True
    if not 1 <= desc.data_index <= 200 or desc.elem_index < 1:
        return True
    return desc.data_index in arrays and desc.elem_index <= arrays[desc.data_index][2]


def reg_spec(desc) -> str:
    n = type(desc).__name__
    if n == "ParDesc":
        return f"P{desc.par_index}"
    if n == "FParDesc":
        return f"F{desc.fpar_index}"
    return f"D{desc.data_index}:{desc.elem_index}"


def fold(name: str) -> str:
    """the case folding both the parser and AdwinProcess use (since fix 5ae01c1): str.upper()"""
    return name.upper()


def lookup_ci(param: dict, name: str):
    for k, v in param.items():
        if fold(k) == fold(name):
            return v
    return None


def do_op(proc, op):
    """Run one accessor op on the real AdwinProcess. -> (model line, canonical output, raw result)"""
    kind = op[0]
    try:
        if kind == "get":
            v = proc.get_par(op[1])
            return f"get {hx(op[1])}", f"ok {num(v)}", v
        if kind == "set":
            proc.set_par(op[1], op[2])
            return f"set {hx(op[1])} {enc_val(op[2])}", "ok", None
        if kind == "mget":
            line = f"mget {jc(hx(n) for n in op[1])}"
            r = proc.get_par_multiple(list(op[1]))
            return line, "ok " + jc(sorted(f"{hx(k)}={num(v)}" for k, v in r.items())), r
        if kind == "mset":
            line = f"mset {jc(hx(n) + '=' + enc_val(v) for n, v in op[1])}"
            proc.set_par_multiple(dict(op[1]))
            return line, "ok", None
        if kind == "startwp":
            line = f"startwp {jc(hx(n) + '=' + enc_val(v) for n, v in op[1])}"
            captured = {}
            orig = proc.set_par_multiple

            def tap(params):                 # what start_with_params hands to the batch writer
                captured["params"] = list(params.items())
                return orig(params)

            proc.set_par_multiple = tap
            try:
                proc.start_with_params(**dict(op[1]))
            finally:
                del proc.set_par_multiple
            return line, "ok", captured.get("params")
    except Exception as e:  # noqa  (anything the accessor lets escape, incl. errors of the fake library, is an observable outcome)
        line = {"get": lambda: f"get {hx(op[1])}", "set": lambda: f"set {hx(op[1])} {enc_val(op[2])}",
                "mget": lambda: f"mget {jc(hx(n) for n in op[1])}",
                "mset": lambda: f"mset {jc(hx(n) + '=' + enc_val(v) for n, v in op[1])}",
                "startwp": lambda: f"startwp {jc(hx(n) + '=' + enc_val(v) for n, v in op[1])}"}[kind]()
        return line, exc_line(e), e
    raise AssertionError(op)


def domain_of(op, param, arrays):
    """Where a batch op lies relative to the quantifier of the property:
    'in'        all names bound to existing registers, pairwise distinct ignoring case, values of the register's type;
    'repeat'    as 'in' but some parameter is named twice (in different spellings);
    'mgr-error' an unknown name and/or a float for a Par (the two errors AdwinProcess itself raises), everything else as 'in'/'repeat';
    None        anything else (registers that do not exist, float into an integer array, ...)."""
    kind = op[0]
    if kind == "mget":
        names, vals = list(op[1]), None
    elif kind == "mset":
        names, vals = [n for n, _ in op[1]], [v for _, v in op[1]]
    else:
        return None
    bad = False
    for i, n in enumerate(names):
        d = lookup_ci(param, n)
        if d is None:
            bad = True
            continue
        if not reg_valid(d, arrays):
            return None
        if vals is not None:
            t = type(d).__name__
            v = vals[i]
            if isinstance(v, bool) or not isinstance(v, (int, float)):
                return None
            if t == "ParDesc" and not isinstance(v, int):
                bad = True
            if t == "ArrayElemDesc" and arrays[d.data_index][1] and not isinstance(v, int):
                return None
    if bad:
        return "mgr-error"
    if len({fold(n) for n in names}) != len(names):
        return "repeat"
    regs = [show_desc(lookup_ci(param, n)) for n in names]
    if len(set(regs)) != len(regs):
        return "repeat"      # two names of one register: only possible in a table that is not one-to-one (configured by hand)
    return "in"


def in_domain(op, param, arrays):
    return domain_of(op, param, arrays) == "in"


def oracle_batch_outside(proc, lib: FakeADwinLib, op, param, arrays, pre_snap, raw, dom):
    """`batch_get_any_names` and the error halves of `batch_set_eq_single` / `batch_get_eq_single`, evaluated on the real
    accessors.  Leaves `lib` in the post-batch state.  Returns (clause, detail) or None."""
    post = lib.snapshot()
    touched = lib.touched()
    keep_log = lib.log
    cls = class_of(op, param)
    names = list(op[1]) if op[0] == "mget" else [n for n, _ in op[1]]
    try:
        lib.restore(pre_snap)
        lib.log = []
        single, single_exc = {}, None
        try:
            if op[0] == "mget":
                for n in names:
                    single[n] = proc.get_par(n)
            else:
                for n, v in op[1]:
                    proc.set_par(n, v)
        except Exception as e:  # noqa
            single_exc = e
        single_post = lib.snapshot()
        batch_exc = raw if isinstance(raw, BaseException) else None
        if dom == "mgr-error":
            if batch_exc is None:
                return f"batch-{op[0]}:no-error-where-one-at-a-time-raises:{cls}", repr(single_exc)[:120]
            if single_exc is None or type(single_exc) is not type(batch_exc):
                return f"batch-{op[0]}:other-exception-than-one-at-a-time:{cls}", f"{batch_exc!r} vs {single_exc!r}"[:200]
            if post[0] != single_post[0] or post[1] != single_post[1]:
                return f"batch-{op[0]}:error-path-par-fpar-differ-from-one-at-a-time:{cls}", str(op)[:200]
            if post[2] != pre_snap[2]:
                return f"batch-{op[0]}:error-path-array-element-written:{cls}", str(op)[:200]
            return None
        # dom == 'repeat', batch read
        if batch_exc is not None or single_exc is not None:
            return f"batch-{op[0]}:raises-on-repeated-spelling:{cls}", f"{batch_exc!r} / {single_exc!r}"[:200]
        if post != pre_snap:
            return f"batch-get:modifies-registers:{cls}", ""
        for k, v in raw.items():
            if k not in single:
                return f"batch-get:returns-a-name-not-asked-for:{cls}", k
            if num(v) != num(single[k]) or type(v) is not type(single[k]):
                return f"batch-get:returned-value-differs:{cls}", f"{k}: {v!r} vs {single[k]!r}"
        got = {show_desc(lookup_ci(param, k)) for k in raw}
        want = {show_desc(lookup_ci(param, n)) for n in names}
        if got != want:
            return f"batch-get:requested-register-not-returned:{cls}", f"{sorted(want - got)}"
        if touched != want:
            return f"batch-get:touch-set-wrong:{cls}", f"{sorted(touched ^ want)[:4]}"
        return None
    finally:
        lib.log = keep_log
        lib.restore(post)


def oracle_refusal(proc, lib: FakeADwinLib, op, param, arrays, pre_snap, raw):
    """Ops that involve a register Adwin_Base knows not to exist (Par_0, FPar_81, Data_201[..], Data_x[0]): the name
    denotes no hardware register, so the access must be refused (ValueError) — never redirected to another register.
    Returns (clause, detail) or None."""
    names = [op[1]] if op[0] in ("get", "set") else (list(op[1]) if op[0] == "mget" else [n for n, _ in op[1]])
    descs = [lookup_ci(param, n) for n in names]
    missing = [d for d in descs if d is not None and not reg_valid(d, arrays) and reg_covered(d, arrays)]
    if not missing:
        return None
    kind = type(missing[0]).__name__
    cls = {"ParDesc": "par", "FParDesc": "fpar", "ArrayElemDesc": "elem"}[kind]
    if not isinstance(raw, BaseException):
        return f"{op[0]}:access-to-nonexistent-register-not-refused:{cls}", f"{op} -> {show_desc(missing[0])}"
    exists = {show_desc(d) for d in descs if d is not None and reg_valid(d, arrays)}
    stray = lib.touched() - exists
    if stray:
        return f"{op[0]}:nonexistent-register-redirected:{cls}", f"{op} touched {sorted(stray)[:3]}"
    if op[0] in ("get", "set"):
        if not isinstance(raw, (ValueError, TypeError)):
            return f"{op[0]}:nonexistent-register-wrong-exception:{cls}", repr(raw)[:120]
        if lib.log or lib.snapshot() != pre_snap:
            return f"{op[0]}:refused-access-left-a-trace:{cls}", str(lib.log)[:120]
    return None


def oracle_start(proc, lib: FakeADwinLib, kw: list, param, arrays, pre_snap, raw, started_before):
    """`start_with_params(**kw)` is a batch write of *every* program parameter: afterwards each parameter's register holds
    the value given for it under ANY spelling of its name, and 0 only if no spelling of it was given — the same as
    set_par one name at a time, then start.  Two spellings of one name in one call must be refused or resolved to one
    of the values given (never silently to the default).  Leaves `lib` in the post-call state.  (clause, detail) or None."""
    if not all(reg_valid(d, arrays) for d in param.values()):
        return None
    given: dict = {}
    for k, v in kw:
        for name in param:
            if fold(name) == fold(k):
                given.setdefault(name, []).append(v)
    # values must fit the register (0 fits every register)
    for name, vals in given.items():
        t = type(param[name]).__name__
        for v in vals:
            if isinstance(v, bool) or not isinstance(v, (int, float)):
                return None
            if (t == "ParDesc" or (t == "ArrayElemDesc" and arrays[param[name].data_index][1])) and not isinstance(v, int):
                return None
    regs = [show_desc(d) for d in param.values()]
    if len(set(regs)) != len(regs):
        return None                      # a hand-configured table with two names on one register
    post = lib.snapshot()
    touched = lib.touched()
    cls = "+".join(sorted({{"ParDesc": "par", "FParDesc": "fpar", "ArrayElemDesc": "elem"}[type(d).__name__] for d in param.values()}))
    multi = any(len(v) > 1 and len({num(x) for x in v}) > 1 for v in given.values())
    spell = "two-spellings" if any(len(v) > 1 for v in given.values()) else \
            ("other-spelling" if any(k not in param for k, _ in kw) else "source-spelling")
    if isinstance(raw, BaseException):
        if multi:
            return None                  # refusing a call that names one parameter twice with different values is fine
        return f"start:raises-{type(raw).__name__}:{spell}:{cls}", repr(raw)[:160]
    keep = lib.log
    try:
        if getattr(lib, "started", 0) != started_before + 1:
            return f"start:process-not-started:{spell}:{cls}", ""
        for name, d in param.items():
            got = lib.read_reg(reg_spec(d))
            want = [num(v) for v in given.get(name, [0])]
            if num(got) not in want:
                why = "default-written-although-a-value-was-given" if (name in given and num(got) == num(0)) else "register-holds-another-value"
                return f"start:{why}:{spell}:{cls}", f"{name!a} -> {show_desc(d)}: holds {got!r}, given {given.get(name, 'nothing (0 expected)')!r}; call {kw!a}"[:300]
        bound = {show_desc(d) for d in param.values()}
        if touched != bound:
            return f"start:touch-set-wrong:{spell}:{cls}", f"{sorted(touched ^ bound)[:4]}"
        if not multi:
            # the same as one name at a time
            lib.restore(pre_snap)
            lib.log = []
            try:
                for name in param:
                    proc.set_par(name, given.get(name, [0])[0])
            except Exception as e:  # noqa
                return f"start:one-at-a-time-raises-{type(e).__name__}:{spell}:{cls}", repr(e)[:120]
            if lib.snapshot() != post:
                return f"start:registers-differ-from-one-at-a-time:{spell}:{cls}", str(kw)[:200]
        return None
    finally:
        lib.log = keep
        lib.restore(post)


def class_of(op, param):
    """input class used in signatures: which register kinds, and whether array elements are adjacent"""
    names = list(op[1]) if op[0] == "mget" else [n for n, _ in op[1]]
    if op[0] == "startwp":
        names = list(param.keys())
    kinds = set()
    elems: dict = {}
    for n in names:
        d = lookup_ci(param, n)
        if d is None:
            kinds.add("unknown")
            continue
        t = type(d).__name__
        kinds.add({"ParDesc": "par", "FParDesc": "fpar", "ArrayElemDesc": "elem"}[t])
        if t == "ArrayElemDesc":
            elems.setdefault(d.data_index, []).append(d.elem_index)
    adj = any(b - a == 1 for v in elems.values() for a, b in zip(sorted(v), sorted(v)[1:]))
    gap = any(b - a > 1 for v in elems.values() for a, b in zip(sorted(v), sorted(v)[1:]))
    return "+".join(sorted(kinds)) + (":adjacent" if adj else "") + (":gap" if gap else "") + (":multi-array" if len(elems) > 1 else "")


def oracle_batch(proc, lib: FakeADwinLib, op, param, arrays, pre_snap, batch_raw, batch_exc):
    """Second half of the property on the real accessors: redo the op one name at a time from the same device
    state and compare.  Leaves `lib` in the post-batch state.  Returns (clause, detail) or None."""
    post = lib.snapshot()
    touched = lib.touched()
    cls = class_of(op, param)
    if op[0] == "mget":
        names = list(op[1])
    elif op[0] == "mset":
        names = [n for n, _ in op[1]]
    else:
        names = list(param.keys())
    bound = set()
    for n in names:
        d = lookup_ci(param, n)
        bound.add(show_desc(d))
    try:
        if batch_exc is not None:
            return f"batch-{op[0]}:raises-{type(batch_exc).__name__}:{cls}", repr(batch_exc)[:200]
        # one at a time
        lib.restore(pre_snap)
        keep_log = lib.log
        lib.log = []
        single = {}
        try:
            if op[0] == "mget":
                for n in names:
                    single[n] = proc.get_par(n)
            elif op[0] == "mset":
                for n, v in op[1]:
                    proc.set_par(n, v)
            else:
                kw = dict(op[1])
                for n in names:
                    v = next((kw[k] for k in kw if fold(k) == fold(n)), 0)
                    proc.set_par(n, v)
        except Exception as e:  # noqa
            return f"single-{op[0]}:raises-{type(e).__name__}:{cls}", repr(e)[:200]
        single_post = lib.snapshot()
        single_touched = lib.touched()
        lib.log = keep_log
        if single_post != post:
            diff = [f"Par_{i}: batch {post[0][i]} / single {single_post[0][i]}" for i in range(1, 81) if post[0][i] != single_post[0][i]]
            diff += [f"FPar_{i}: batch {post[1][i]} / single {single_post[1][i]}" for i in range(1, 81) if post[1][i] != single_post[1][i]]
            diff += [f"Data_{d}[{e}]: batch {post[2][d][e]} / single {single_post[2][d][e]}"
                     for d in sorted(post[2]) for e in range(1, len(post[2][d])) if post[2][d][e] != single_post[2][d][e]]
            return f"batch-{op[0]}:registers-differ-from-one-at-a-time:{cls}", f"{op}: {'; '.join(diff[:3])}"
        if op[0] == "mget":
            if set(batch_raw.keys()) != set(single.keys()):
                return f"batch-get:returned-names-differ:{cls}", f"{sorted(batch_raw)} vs {sorted(single)}"
            for n in names:
                a, b = batch_raw[n], single[n]
                if num(a) != num(b) or a != b:
                    return f"batch-get:returned-value-differs:{cls}", f"{n}: {a!r} vs {b!r}"
                if type(a) is not type(b):
                    return f"batch-get:returned-type-differs:{cls}", f"{n}: {type(a).__name__} vs {type(b).__name__}"
            if post != pre_snap:
                return f"batch-get:modifies-registers:{cls}", ""
        if touched - bound:
            return f"batch-{op[0]}:touches-unbound-register:{cls}", f"{sorted(touched - bound)[:4]}"
        if bound - touched:
            return f"batch-{op[0]}:misses-bound-register:{cls}", f"{sorted(bound - touched)[:4]}"
        if single_touched != bound:
            return f"single-{op[0]}:touch-set-wrong:{cls}", ""
        if op[0] == "mset" and len({fold(n) for n in names}) == len(names) and len(bound) == len(names):
            # `set_then_get`: reading the same names back (batch) returns what was written
            lib.restore(post)
            keep = lib.log
            lib.log = []
            try:
                back = proc.get_par_multiple(names)
            except Exception as e:  # noqa
                return f"batch-mset:read-back-raises-{type(e).__name__}:{cls}", repr(e)[:120]
            finally:
                lib.log = keep
            for n, v in op[1]:
                if n not in back or num(back[n]) != num(v):
                    return f"batch-mset:read-back-differs-from-written:{cls}", f"{n}: wrote {v!r}, read {back.get(n)!r}"
        return None
    finally:
        lib.restore(post)


# ---------------------------------------------------------------------------
# stream D: symbol lists (layouts) + accessor ops
# ---------------------------------------------------------------------------

_NAME_POOL = ["a", "b", "c", "foo", "bar", "baz", "cnt", "x1", "x2", "gain", "n_rep", "t", "elem_boo", "boo", "k9", "Amp", "Zed"]
_INT_TYPES = ["long", "int32", "short", "byte", "int64"]
_FLT_TYPES = ["float", "float32", "float64"]


def rcase(rng, s: str) -> str:
    m = rng.randrange(4)
    if m == 0:
        return s
    if m == 1:
        return s.upper()
    if m == 2:
        return s.lower()
    return "".join(c.upper() if rng.random() < 0.5 else c.lower() for c in s)


def gen_layout(rng, quickish=True):
    """A list of (label, value) definitions: valid by construction, then (sometimes) broken on purpose.
    Returns (defs, array_types) with array_types: data index -> (type name, is_int)."""
    n_arr = rng.choice([0, 1, 1, 2, 2, 3])
    n_par = rng.randint(1, 12)
    used_names = set()

    def fresh_name():
        for _ in range(50):
            n = rng.choice(_NAME_POOL)
            if rng.random() < 0.4:
                n = n + rng.choice(["", "_", "2", "x", "_b"])
            n = rcase(rng, n)
            if n.upper() not in used_names:
                used_names.add(n.upper())
                return n
        n = f"q{len(used_names)}"
        used_names.add(n.upper())
        return n

    arr_names = {}
    defs = []
    arr_idx = rng.sample(range(1, 9), n_arr)
    saved = set(used_names)
    used_names = set()
    for di in arr_idx:
        an = fresh_name()
        arr_names[di] = an
        defs.append((rcase(rng, "DATA_") + an, rcase(rng, "Data_") + rng.choice(["", "", "0", "00"]) + str(di)))
    used_names = saved
    regs = set()
    for _ in range(n_par):
        k = rng.random()
        if arr_idx and k < 0.55:
            di = rng.choice(arr_idx)
            base = rng.choice([1, 1, 2, 3, 5])
            ei = rng.choice([base, base + 1, base + 2, rng.randint(1, 9)])
            reg = ("E", di, ei)
            val = rcase(rng, "Data_") + rcase(rng, arr_names[di]) + "[" + rng.choice(["", "", "0"]) + str(ei) + "]"
        elif k < 0.8:
            reg = ("P", rng.randint(1, 7))
            val = rcase(rng, "Par_") + rng.choice(["", "", "0"]) + str(reg[1])
        else:
            reg = ("F", rng.randint(1, 7))
            val = rcase(rng, "FPar_") + str(reg[1])
        if reg in regs:
            continue
        regs.add(reg)
        defs.append((rcase(rng, "PAR_") + fresh_name(), val))
    rng.shuffle(defs)
    # deliberate damage
    r = rng.random()
    n_mut = 0 if r < 0.6 else (1 if r < 0.9 else 2)
    for _ in range(n_mut):
        if not defs:
            break
        i = rng.randrange(len(defs))
        lab, val = defs[i]
        pre, _, name = lab.partition("_")
        m = rng.randrange(19)
        if m >= 17:
            # a twin name that differs only by a non-ASCII code point with an ASCII case partner
            # (U+212A KELVIN SIGN.lower() == 'k', 'ſ'.upper() == 'S', 'ß'.upper() == 'SS', 'ı'.upper() == 'I', 'ﬁ'.upper() == 'FI', ...)
            twins = [("ss", "\u00df"), ("k", "\u212a"), ("s", "\u017f"), ("i", "\u0131"), ("fi", "\ufb01"), ("st", "\ufb05"), ("ff", "\ufb00")]
            cands = [(a, b) for a, b in twins if a in name.lower()]
            if cands:
                a, b2 = rng.choice(cands)
                k = name.lower().index(a)
                twin = name[:k] + b2 + name[k + len(a):]
            else:
                twin = name + rng.choice(["\u212a", "\u017f", "\u00df"])
                defs.insert(rng.randint(0, len(defs)), (pre + "_" + name + rng.choice(["k", "s", "ss", "K", "S"]),
                                                        re.sub(r"[0-9]+(?=\]?$)", lambda mm: str(int(mm.group(0)) + 30), val)))
            other = re.sub(r"[0-9]+(?=\]?$)", lambda mm: str(int(mm.group(0)) + rng.choice([0, 10, 11, 20])), val)
            defs.insert(rng.randint(0, len(defs)), (pre + "_" + twin, other))
            continue
        bank = re.fullmatch(r"(?i)(f?)(par_)(0*)([0-9]+)", val)
        if m >= 14 and bank:
            # same name re-defined in the *other register bank with the same index*: Par_n <-> FPar_n
            # (ParDesc(n) == FParDesc(n) as plain tuples, so only a type-aware comparison rejects this)
            other = ("" if bank.group(1) else rcase(rng, "F")) + bank.group(2) + rng.choice(["", bank.group(3), "0"]) + bank.group(4)
            lab2 = lab if m != 16 else pre + "_" + (name.swapcase() if name.swapcase() != name else name + "X")
            new = (lab2 if rng.random() < 0.7 else rcase(rng, pre) + "_" + lab2.partition("_")[2], other)
        elif m >= 14:
            new = (lab, val)
        elif m == 0:      # same name, other case
            new = (pre + "_" + (name.swapcase() if name.swapcase() != name else name + "X"), val)
        elif m >= 12:   # same name in another case bound to another (free) register
            other = re.sub(r"[0-9]+(?=\]?$)", lambda mm: str(int(mm.group(0)) + rng.choice([10, 11, 20])), val)
            new = (pre + "_" + (name.swapcase() if name.swapcase() != name else name + "X"), other)
        elif m == 1:    # same name, other target
            new = (lab, re.sub(r"[0-9]+(?=\]?$)", lambda mm: str(int(mm.group(0)) + rng.randint(1, 2)), val))
        elif m == 2:    # other name, same target
            new = (pre + "_" + name + rng.choice(["_alias", "2", "Z"]), val)
        elif m == 3:    # identical repeat (allowed)
            new = (lab, val)
        elif m == 4:    # same target, different spelling of the index
            new = (pre + "_" + name + "_w", re.sub(r"([0-9]+)(\]?)$", lambda mm: "0" + mm.group(1) + mm.group(2), val))
        elif m == 5:    # unknown array
            new = (rcase(rng, "PAR_") + "lost" + str(rng.randint(0, 9)), "Data_nowhere[" + str(rng.randint(1, 3)) + "]")
        elif m == 6:    # unrecognised value forms (ignored with a warning)
            new = (rng.choice(["PAR_", "DATA_"]) + name + "_u",
                   rng.choice(["17", "Par_", "Par_1x", "Data_[3]", "Data_x", "FPar1", "Par_-1", "Data_a[1", "Data_a[]", "Par_1.0",
                               "Data_a[1]]", "Data_a[1][2]", "xPar_1", "Data_" + name + "[x]"]))
        elif m == 7:    # register outside the device (parser accepts it)
            far = rng.choice(["Par_0", "Par_80", "Par_81", "FPar_0", "FPar_80", "FPar_81", "FPar_200", "Par_99999999999999999999"])
            arrs = [(l, v) for (l, v) in defs if l.upper().startswith("DATA_")]
            if arrs and rng.random() < 0.5:      # element 0 of a named array / an array beyond MAX_DATA
                al, _av = rng.choice(arrs)
                far = "Data_" + al.partition("_")[2] + "[0]"
            elif rng.random() < 0.3:
                di = rng.choice([0, 200, 201, 250])
                defs.insert(0, ("DATA_edge" + str(di), "Data_" + str(di)))
                far = "Data_edge" + str(di) + "[" + str(rng.choice([0, 1, 2])) + "]"
            new = (rcase(rng, "PAR_") + "far" + str(rng.randint(0, 9)), far)
        elif m == 8:    # not a PAR_/DATA_ symbol at all
            new = (rng.choice(["Pi", "PARfoo", "DATA", "PAR", "XPAR_a", "_PAR_a", "FPAR_x"]), rng.choice(["3.14159", "Par_1", "Data_1", val]))
        elif m == 9:    # empty name / underscore-rich names
            new = (rng.choice(["PAR_", "DATA_", "par__", "PAR__a", "Par_a_b_c"]), val)
        elif m == 10:   # the US control character counts as white space for the element pattern only
            new = (lab + "v", val.replace("[", "\x1f[") if "[" in val else val + rng.choice(["\x1f", ""]))
        else:           # a data array referenced twice / an element through a differently cased array name
            new = (rcase(rng, "DATA_") + name + "_again", val) if pre.upper() == "DATA" else (lab + "_c", val.swapcase())
        defs.insert(rng.randint(0, len(defs)), new)
    types = {}
    for di in range(1, 12):
        is_int = rng.random() < 0.5
        types[di] = (rng.choice(_INT_TYPES if is_int else _FLT_TYPES), is_int)
    return defs, types


def gen_value(rng, desc, arrays, wrong_ok=True):
    t = type(desc).__name__
    ival = rng.choice([0, 1, -1, 7, 42, -300, 2 ** 31 - 1, -2 ** 31, rng.randint(-10 ** 6, 10 ** 6)])
    fval = rng.choice([0.5, -1.5, 2.0, 1e6 + 0.5, float(rng.randint(-999, 999)) / 2])
    if t == "ParDesc":
        return fval if (wrong_ok and rng.random() < 0.04) else ival
    if t == "FParDesc":
        return ival if rng.random() < 0.4 else fval
    if arrays.get(desc.data_index, ("", True, 0))[1]:
        return fval if (wrong_ok and rng.random() < 0.05) else ival      # a float for an integer array: Adwin_Base refuses it
    return ival if rng.random() < 0.4 else fval


def gen_ops(rng, param: dict, arrays: dict, n_ops: int):
    """Accessor ops over the names whose registers exist on the fake device."""
    names = [n for n, d in param.items() if reg_covered(d, arrays)]
    ops = []
    if not names:
        return [("get", "nobody")]
    for _ in range(n_ops):
        k = rng.random()
        r = rng.random()
        if r < 0.2:
            sub = list(names)
        elif r < 0.35:       # all elements of one array (ranges with gaps)
            ds = sorted({d.data_index for d in param.values() if type(d).__name__ == "ArrayElemDesc"})
            if ds:
                di = rng.choice(ds)
                sub = [n for n in names if type(param[n]).__name__ == "ArrayElemDesc" and param[n].data_index == di]
            else:
                sub = list(names)
        else:
            sub = [n for n in names if rng.random() < rng.choice([0.3, 0.5, 0.8])]
        rng.shuffle(sub)
        spelled = [rcase(rng, n) if rng.random() < 0.5 else n for n in sub]
        e = rng.random()
        if e < 0.04:
            spelled.insert(rng.randint(0, len(spelled)), "no_such_par")
        elif e < 0.07 and spelled:      # the same parameter twice, spelled differently (outside the property's domain)
            spelled.insert(rng.randint(0, len(spelled)), spelled[rng.randrange(len(spelled))].swapcase())
        if k < 0.35:
            ops.append(("mget", spelled))
        elif k < 0.7:
            pairs, seen = [], set()
            for n in spelled:
                if n in seen:
                    continue
                seen.add(n)
                d = lookup_ci(param, n)
                pairs.append((n, gen_value(rng, d, arrays) if d is not None else 1))
            ops.append(("mset", pairs))
        elif k < 0.8 and spelled:
            ops.append(("get", spelled[0]))
        elif k < 0.9 and spelled:
            d = lookup_ci(param, spelled[0])
            ops.append(("set", spelled[0], gen_value(rng, d, arrays) if d is not None else 1))
        else:
            if all(reg_valid(d, arrays) for d in param.values()):
                kw, seen = [], set()
                twin = {"k": "\u212a", "K": "\u212a", "ss": "\u00df", "SS": "\u00df", "s": "\u017f", "S": "\u017f", "i": "\u0131", "I": "\u0131",
                        "fi": "\ufb01", "FI": "\ufb01", "st": "\ufb05", "ST": "\ufb05"}
                for n in spelled:
                    r2 = rng.random()
                    if r2 < 0.45:            # the caller's own spelling: upper / lower / swapped / random case, a non-ASCII case twin
                        n = rng.choice([n.upper(), n.lower(), n.swapcase(), rcase(rng, n)])
                    elif r2 < 0.55:
                        for a, b2 in twin.items():
                            if a in n:
                                n = n.replace(a, b2, 1)
                                break
                    if n in seen or lookup_ci(param, n) is None:
                        continue
                    seen.add(n)
                    d = lookup_ci(param, n)
                    v = gen_value(rng, d, arrays, wrong_ok=False)
                    kw.append((n, v))
                # unspecified parameters get the int 0: fine for every register type
                ops.append(("startwp", kw))
            else:
                ops.append(("mget", spelled))
    return ops


def arrays_for(param: dict, types: dict) -> dict:
    """fake device arrays: every Data index named by the layout (within the device's 1..200), long enough"""
    arrays = {}
    for d in param.values():
        if type(d).__name__ == "ArrayElemDesc" and 1 <= d.data_index <= 200:
            tn, is_int = types.get(d.data_index, ("long", True))
            cur = arrays.get(d.data_index, (tn, is_int, 0))
            arrays[d.data_index] = (tn, is_int, max(cur[2], min(d.elem_index, 64) + 2))
    return arrays


def regs_of_interest(param: dict, arrays: dict) -> list:
    regs = [f"P{i}" for i in range(1, 9)] + [f"F{i}" for i in range(1, 9)]
    for d, (_tn, _i, n) in sorted(arrays.items()):
        regs += [f"D{d}:{e}" for e in range(1, n + 1)]
    for d in param.values():
        if reg_valid(d, arrays) and reg_spec(d) not in regs:
            regs.append(reg_spec(d))
    return regs


def run_device_ops(param_info, types: dict, ops, res: Result | None, fails: list, scen_replay: dict, count=None):
    """Run accessor ops on the real AdwinProcess; returns (model lines, impl lines). Oracle failures -> `fails`."""
    arrays = arrays_for(param_info.param, types)
    lib = FakeADwinLib(arrays)
    proc = make_process(param_info, lib)
    regs = regs_of_interest(param_info.param, arrays)
    lines, outs = ["devinit"], ["ok"]
    for d, (_tn, is_int, _n) in sorted(arrays.items()):
        lines.append(f"arr {d} {'i' if is_int else 'f'}")
        outs.append("ok")
    # each name, spelled exactly as bound, must denote its own register (AdwinProcess resolves case-insensitively)
    for key, want in param_info.param.items():
        try:
            got = proc._get_par_desc(key)
        except Exception as e:  # noqa
            got = e
        if type(got) is not type(want) or got != want:
            other = next((k for k in param_info.param if k != key and (fold(k) == fold(key) or k.lower() == key.lower())), "?")
            cls = "ascii" if (key + other).isascii() else "non-ascii"
            fails.append((f"resolve:own-spelling-denotes-other-register:{cls}",
                          f"{key!a} is bound to {show_desc(want)} but resolves to {show_desc(got) if not isinstance(got, Exception) else got!r} (entry {other!a})", None))
            break
    for op in ops:
        pre = lib.snapshot()
        lib.log = []
        started_before = getattr(lib, "started", 0)
        line, out, raw = do_op(proc, op)
        lines.append(line)
        outs.append(out)
        lines.append("log")
        outs.append(jc(lib.log))
        lines.append("regs " + jc(regs))
        outs.append(jc(num(lib.read_reg(r)) for r in regs))
        if count:
            count("op_" + op[0])
            if out.startswith("exc:"):
                count("op_error_" + out[4:])
        oop = op
        if op[0] == "startwp":
            bad = oracle_start(proc, lib, list(op[1]), param_info.param, arrays, pre, raw, started_before)
            if count:
                count("start_with_params_judged")
            if bad:
                fails.append((bad[0], bad[1], op))
        if op[0] == "startwp" and isinstance(raw, list):
            # and, as the batch write it hands to set_par_multiple, against one-at-a-time on that table
            oop = ("mset", raw)
        bad = oracle_refusal(proc, lib, oop, param_info.param, arrays, pre, raw)
        if bad:
            fails.append((bad[0], bad[1], op))
        dom = domain_of(oop, param_info.param, arrays) if oop[0] in ("mget", "mset") else None
        if dom == "mgr-error" or (dom == "repeat" and oop[0] == "mget"):
            bad = oracle_batch_outside(proc, lib, oop, param_info.param, arrays, pre, raw, dom)
            if count:
                count("batch_ops_outside_domain_" + dom)
            if bad:
                fails.append((bad[0], bad[1], op))
        elif dom in ("in", "repeat"):      # a batch write with repeated spellings is covered by batch_set_eq_single as it stands
            exc = raw if isinstance(raw, BaseException) else None
            bad = oracle_batch(proc, lib, oop, param_info.param, arrays, pre, raw, exc)
            if count:
                count("batch_ops_in_domain")
                count("batch_class_" + class_of(oop, param_info.param))
            if bad:
                fails.append((bad[0], bad[1], op))
    return lines, outs


def run_layout_scenario(sc: dict, count=None):
    """sc = {'defs': [[label, value]...], 'types': {idx: [name, is_int]}, 'ops': [...] | None, 'ops_seed': int}
    -> (model lines, impl lines, failures[(clause, detail, extra)], info)"""
    from qmi.utils.adbasic_parser import SymbolInfo
    symbols = [SymbolInfo(f"f{i % 2}.bas", i + 1, lab, val) for i, (lab, val) in enumerate(sc["defs"])]
    lines = ["symclear"] + [f"sym {hx(s.filename)} {s.line_nr} {hx(s.label)} {hx(s.value)}" for s in symbols] + ["analyze"]
    outs = ["ok"] * (len(symbols) + 1)
    aline, outcome = run_analysis(symbols)
    outs.append(aline)
    fails = []
    bad = oracle_binding(symbols, outcome)
    if bad:
        fails.append((bad[0], bad[1], None))
    if count:
        count("analysis_" + aline.split(" ")[0] + ("" if not aline.startswith("exc:ParseException") else ":" + aline.split(" ")[3]))
    info = None
    if outcome[0] == "ok":
        info = outcome[1]
        types = {int(k): tuple(v) for k, v in sc["types"].items()}
        ops = sc.get("ops")
        if ops is None:
            import random
            rng = random.Random(sc["ops_seed"])
            arrays = arrays_for(info.param, types)
            ops = gen_ops(rng, info.param, arrays, sc.get("n_ops", 4))
            sc["ops"] = ops
        ops = [tuple(tuple(x) if isinstance(x, list) and x and isinstance(x[0], list) else x for x in op) for op in ops]
        ops = [_norm_op(op) for op in ops]
        l2, o2 = run_device_ops(info, types, ops, None, fails, sc, count)
        lines += l2
        outs += o2
    return lines, outs, fails, info


def _norm_op(op):
    """ops come back from JSON as lists"""
    k = op[0]
    if k in ("mset", "startwp"):
        return (k, [(n, v) for n, v in op[1]])
    if k == "mget":
        return (k, list(op[1]))
    return tuple(op)


# ---------------------------------------------------------------------------
# stream E: programs on disk
# ---------------------------------------------------------------------------

def fmt_define(rng, lab: str, val: str) -> str:
    lead = rng.choice(["", "", "", " ", "  ", "\t", " \t "])
    kw = rng.choice(["#Define", "#Define", "#DEFINE", "#define", "#dEfInE"])
    s1 = rng.choice([" ", " ", "  ", "\t", " \t"])
    s2 = rng.choice([" ", " ", "   ", "\t", "\t\t"])
    tail = rng.choice(["", "", "", " ", "\t", " ' comment", "' c", "  ' it's", " '", "   '#Define PAR_zz Par_9", " \x0c",
                       # comments glued to the value without a blank: one blank-free chunk, apostrophes inside, several apostrophes
                       "'us", "'don't change", "'gain of loop", "\x27\x27", "'a'b'c", "'ms\t", "'x  ", "\t' tab", " \t ' both \t ", "'#", "'" + val,
                       "' Rem old", "  \x27\x27\x27"])
    return lead + kw + s1 + lab + s2 + val + tail


_NOISE = [
    "' a comment line", "", "   ", "Dim Data_10[5] As Long", "Init:", "Event:", "  Par_1 = Par_1 + 1",
    "#Define", "#Define lonely", "#Define a b c", "#DefinePAR_a Par_1", "x #Define PAR_n Par_1", "'#Define PAR_c Par_2",
    "#Define PAR_sp Data_a [1]", "#Define PAR_q 'Par_3", "#Define 'q Par_3", "#Include", "#Include 'x.inc", "#If 1 Then",
    "#Define Pi 3.14159", "#DEFINE Symbol_name Value", "#Define\x1fPAR_us Par_1", "#Define PAR_ab Par_1 \x1f",
    "' sep\x1c#Define PAR_fs Par_31", "' nel\x85#Define PAR_nel Par_32", "' ls\u2028#Define PAR_ls Par_33", "' vt\x0b#Define PAR_vt Par_34",
    "#Define PAR_lead\x1fx Par_35", "\x0c#Define PAR_ff Par_36",
]


def gen_program(rng):
    """A small ADbasic program tree.  Returns dict(files={path: text}, top=path, incdir=path, relative=bool, types=…)."""
    topdir = rng.choice(["", "prog", "prog", "a/b"])
    incdir = rng.choice([topdir, topdir, "lib", ""])
    n_files = rng.choice([1, 2, 2, 3, 3, 4, 5])
    places = [os.path.join(topdir, "main.bas")]
    cand = [os.path.join(topdir, "inc", "b.inc"), os.path.join(topdir, "c.inc"), os.path.join(incdir, "sub", "d.inc"),
            os.path.join(topdir, "inc", "c.inc"), os.path.join(incdir, "sub", "main.bas"),     # same base name as another file
            os.path.join(topdir, "..", "common", "e.inc") if topdir else os.path.join("common", "e.inc"),
            os.path.join(incdir, "sub", "deep", "f.inc"), os.path.join(topdir, ".hid", "g.inc")]
    rng.shuffle(cand)
    places += [os.path.normpath(c) for c in cand[:n_files - 1]]
    defs, types = gen_layout(rng)
    # distribute the definitions over the files
    per = {p: [] for p in places}
    for d in defs:
        per[rng.choice(places)].append(d)
    edges = {p: [] for p in places}
    for i, p in enumerate(places[1:], 1):       # every include file is included by an earlier file: connected, acyclic
        edges[places[rng.randrange(i)]].append(p)
    r = rng.random()
    cyc = None
    if r < 0.07 and len(places) > 1:            # back edge: an include cycle
        j = rng.randrange(1, len(places))
        edges[places[j]].append(places[rng.randrange(j)])
        cyc = "back-edge"
    elif r < 0.10:
        edges[places[0]].append(places[0])      # a file that includes itself
        cyc = "self"
    elif r < 0.25 and len(places) > 2:          # diamond: a file included twice
        edges[places[1]].append(places[-1])
    files = {}
    for p in places:
        lines = []
        for (lab, val) in per[p]:
            lines.append(fmt_define(rng, lab, val))
        for q in edges[p]:
            lines.insert(rng.randint(0, len(lines)), fmt_include(rng, p, q, incdir))
        for _ in range(rng.randint(0, 5)):
            lines.insert(rng.randint(0, len(lines)), rng.choice(_NOISE))
        e = rng.random()
        if e < 0.10:
            lines.insert(rng.randint(0, len(lines)), rng.choice(["#Include ADwinGoldII.inc", "#include adwinpro_all.inc ' system",
                                                                   "#Include \\abs\\x.inc", "#Include /", "#Include C:\\ADwin\\x.inc"]))
        elif e < 0.14:
            lines.insert(rng.randint(0, len(lines)), rng.choice(["#Include .\\c20q_missing.inc", "#Include sub\\c20q_missing.inc",
                                                                   "#Include ..\\..\\..\\..\\c20q_up.inc", "#Include .\\inc\\", "#Include sub//"]))
        nl = rng.choice(["\n", "\n", "\n", "\r\n", "\r"])
        text = nl.join(lines) + rng.choice(["", nl, nl + nl])
        files[p] = text
    sc = {"files": files, "top": places[0], "incdir": incdir, "relative": rng.random() < 0.5, "types": {str(k): list(v) for k, v in types.items()},
          "cyc": cyc}
    # twins: a file of the same name next to the top-level program and in a sub-directory, the latter reached by a
    # dot-relative include written inside an included file of that sub-directory (relative to the INCLUDING file)
    subs = [q for q in places[1:] if os.path.dirname(q) != os.path.dirname(places[0])]
    if subs and rng.random() < 0.35:
        q = rng.choice(subs)
        tw = rng.choice(["common.inc", "defs.inc", os.path.basename(places[0])])
        top_tw = os.path.normpath(os.path.join(os.path.dirname(places[0]), tw))
        sub_tw = os.path.normpath(os.path.join(os.path.dirname(q), tw))
        if sub_tw not in files and top_tw != sub_tw:
            reg_a = rng.choice(["Par_60", "FPar_60", "Par_61"])
            reg_b = rng.choice([reg_a, reg_a, "Par_62", "FPar_61"])        # often the same register under another name
            if top_tw not in files:
                files[top_tw] = fmt_define(rng, "PAR_tw_offset", reg_a) + "\n"
            files[sub_tw] = fmt_define(rng, rng.choice(["PAR_tw_gain", "PAR_tw_offset", "PAR_TW_Offset"]), reg_b) + "\n"
            sep = rng.choice(["\\", "/"])
            files[q] = rng.choice(["#Include ." + sep + tw, "#include ." + sep + "." + sep + tw + "  ' neighbour"]) + "\n" + files[q]
            if rng.random() < 0.6 and top_tw != places[0]:
                files[places[0]] = "#Include ." + sep + tw + "\n" + files[places[0]]
            sc["files"] = files
    r = rng.random()
    if r < 0.3:       # the same file reached under two spellings of its path (include dir / top file not normalised)
        sc["incdir_raw"] = rng.choice(["./" + incdir if incdir else ".", incdir + "/" if incdir else "./", (incdir + "/../" + os.path.basename(incdir)) if incdir else "./."])
        if rng.random() < 0.5:
            sc["top_raw"] = "./" + places[0]
    return sc


def fmt_include(rng, src: str, dst: str, incdir: str) -> str:
    """An #Include line in `src` that reaches `dst`, in one of the two styles the resolver knows."""
    rel_inc = os.path.relpath(dst, incdir or ".")
    comps_inc = rel_inc.split("/")
    if len(comps_inc) >= 2 and not any(c.startswith(".") for c in comps_inc) and rng.random() < 0.5:
        path = rel_inc
    else:
        path = os.path.relpath(dst, os.path.dirname(src) or ".")
        if not path.startswith("."):
            path = "./" + path
        if rng.random() < 0.2:
            path = path.replace("/", "/./", 1)
    sep = rng.choice(["\\", "\\", "/"])
    path = path.replace("/", sep)
    if rng.random() < 0.1:
        path = path.replace(sep, sep + sep, 1)
    lead = rng.choice(["", "", " ", "\t"])
    kw = rng.choice(["#Include", "#Include", "#INCLUDE", "#include"])
    tail = rng.choice(["", "", " ", "  ' this include file will also be parsed", "'x", "'don't move", "\x27\x27", "\t' tab", "'a b'c ", " '"])
    return lead + kw + rng.choice([" ", "  ", "\t"]) + path + tail


@contextlib.contextmanager
def parser_taps(opened: list, edges: list):
    """Watchdog + observation points on the real parser, injected by module attribute (no repo edit)."""
    from qmi.utils import adbasic_parser as ap
    import builtins
    real_resolve = ap._resolve_include_path

    def counting_open(file, *a, **kw):
        if len(opened) >= OPEN_BUDGET:
            raise Budget("open() budget exhausted")
        opened.append(file)
        return builtins.open(file, *a, **kw)

    def tapped_resolve(include_path, source_file, include_dir):
        r = real_resolve(include_path, source_file, include_dir)
        edges.append((source_file, include_path, r))
        return r

    ap.open = counting_open
    ap._resolve_include_path = tapped_resolve
    try:
        yield
    finally:
        del ap.open
        ap._resolve_include_path = real_resolve


def has_cycle(top: str, edges: list) -> list | None:
    """A cycle among the include edges the parser itself resolved, reachable from `top` (by path string, which is
    what the work-list holds): each visit of a file re-queues all its includes, so a cycle means no termination."""
    g: dict = {}
    for s, _p, r in edges:
        if r:
            g.setdefault(s, set()).add(r)
    state, stack = {}, []

    def dfs(u):
        state[u] = 1
        stack.append(u)
        for v in sorted(g.get(u, ())):
            if state.get(v) == 1:
                return stack[stack.index(v):] + [v]
            if v not in state:
                c = dfs(v)
                if c:
                    return c
        stack.pop()
        state[u] = 2
        return None

    return dfs(top)


_O_BLANK = re.compile(r"[ \t\f\v\r\n]+")


def o_tokens(line: str):
    """Tokenizer written from the ADbasic comment rule, not from the parser's regular expressions: an apostrophe starts a
    comment that runs to the end of the line (glued to the preceding token or not, whatever follows); what precedes it is
    code, a sequence of blank-delimited tokens.  Returns (tokens, judged): `judged` is False when the apostrophe sits
    before the third token starts (inside or before the symbol name) -- the parser takes such an apostrophe as part of
    the name, which this oracle neither demands nor forbids."""
    cut = line.find("'")
    code = line if cut < 0 else line[:cut]
    toks = [t for t in _O_BLANK.split(code) if t]
    judged = True
    if cut >= 0 and toks and toks[0].lower().startswith("#define"):
        m = re.match(r"[ \t\f\v]*\S+[ \t\f\v]+\S+[ \t\f\v]+(?=\S)", line)      # where the third token starts
        if m is None or cut < m.end():
            judged = False
    return toks, judged


def o_scan(text_lines):
    """-> (defs {line_nr: (label, value)}, unjudged line numbers, includes [path]) by the comment rule"""
    defs, unjudged, incs = {}, set(), []
    for i, ln in enumerate(text_lines, 1):
        toks, judged = o_tokens(ln)
        if not toks:
            continue
        kw = toks[0].lower()
        if kw.startswith("#define") and not judged:
            unjudged.add(i)
        elif kw == "#define" and len(toks) == 3:
            defs[i] = (toks[1], toks[2])
        elif kw == "#include" and len(toks) == 2:
            incs.append(toks[1])
    return defs, unjudged, incs


def o_check_scan(text_lines, symbols, name: str):
    """every #Define line of the source is reported with exactly its name and value, and nothing else is reported"""
    defs, unjudged, _incs = o_scan(text_lines)
    got = {s.line_nr: (s.label, s.value) for s in symbols}
    for i, (lab, val) in sorted(defs.items()):
        if i not in got:
            return "scan:define-line-not-reported", f"{name}:{i}: {text_lines[i - 1]!a}"
        if got[i] != (lab, val):
            cls = "comment-glued-to-value" if "'" in got[i][1] else "other"
            return (f"scan:define-line-reported-with-other-name-or-value:{cls}",
                    f"{name}:{i}: {text_lines[i - 1]!a} reported as {got[i]!a}, the source says {(lab, val)!a}")
    for i in sorted(got):
        if i not in defs and i not in unjudged:
            line = text_lines[i - 1] if 1 <= i <= len(text_lines) else "<the file has no such line>"
            return "scan:reported-definition-that-is-not-in-the-source", f"{name}:{i}: {line!a} reported as {got[i]!a}"
    return None



def o_resolve(include_path: str, including_file: str, include_dir: str):
    """The documented resolution rule, written independently of the parser: a bare file name is a system include
    (ignored), an absolute path is ignored, a path with a component starting with '.' is relative to the directory of the
    file that contains the #Include line, anything else is relative to the include directory."""
    comps = include_path.replace("\\", "/").split("/")
    if len(comps) <= 1 or comps[0] == "":
        return None
    if any(c.startswith(".") for c in comps):
        return os.path.normpath(os.path.join(os.path.dirname(including_file), *comps))
    return os.path.join(include_dir, *comps)


def o_closure(top: str, incdir: str, base) -> tuple:
    """Files the program consists of according to the rule above (normalised absolute paths), in discovery order, and the
    first include whose target is not a regular file (None if every one is)."""
    seen, order, todo, missing = set(), [], [top], None
    while todo and len(order) < 500:
        f = todo.pop(0)
        key = os.path.normpath(os.path.join(base, f))
        if key in seen:
            continue
        if f.endswith("/") or not os.path.isfile(key):
            missing = missing or f
            continue
        seen.add(key)
        order.append(key)
        with open(key, "r") as fh:
            for incp in o_scan(fh.read().splitlines())[2]:
                r = o_resolve(incp, f, incdir)
                if r:
                    todo.append(r)
    return order, missing


def run_program_scenario(sc: dict, root: Path, count=None):
    """Write the tree under `root`, run the real parser + analysis + ops. -> (lines, outs, fails, info)"""
    from qmi.utils import adbasic_parser as ap
    root.mkdir(parents=True, exist_ok=True)
    cwd = root / "w" / "cwd"
    cwd.mkdir(parents=True, exist_ok=True)
    relative = sc["relative"]

    def name_of(rel: str) -> str:       # the path string handed to the parser / used as key of the model's file map
        return os.path.normpath(rel) if relative else os.path.normpath(str(cwd / rel))

    for rel, text in sc["files"].items():
        p = Path(os.path.normpath(str(cwd / rel)))
        p.parent.mkdir(parents=True, exist_ok=True)
        with open(p, "w", encoding="utf-8", newline="") as f:
            f.write(text)
    top = sc["top"] if relative else str(cwd / sc["top"])
    incdir = sc["incdir"] if relative else (str(cwd / sc["incdir"]) if sc["incdir"] else str(cwd))
    if sc.get("top_raw"):
        top = sc["top_raw"] if relative else str(cwd) + "/" + sc["top_raw"]
    if sc.get("incdir_raw"):        # another spelling of the same directory ("./lib", "lib/", "lib/../lib")
        incdir = sc["incdir_raw"] if relative else str(cwd) + "/" + sc["incdir_raw"]
    lines = ["reset"] + [f"file {hx(name_of(rel))} {hx(text)}" for rel, text in sc["files"].items()]
    outs = ["ok"] * len(lines)
    lines.append(f"parse {OPEN_BUDGET} {hx(top)} {hx(incdir)}")
    opened, edges = [], []
    fails = []
    symbols = None
    old = os.getcwd()
    try:
        if relative:
            os.chdir(cwd)
        with parser_taps(opened, edges):
            try:
                symbols = ap.parse_adbasic_program(top, incdir)
                outs.append(f"ok {len(symbols)} " + jc(f"{hx(s.filename)}:{s.line_nr}:{hx(s.label)}:{hx(s.value)}" for s in symbols))
            except Budget:
                outs.append("out-of-fuel")
                cyc = has_cycle(top, edges)
                if cyc:
                    kind = "file-includes-itself" if len(cyc) == 2 else "include-cycle"
                    fails.append((f"parse:never-terminates:{kind}", "cycle " + " -> ".join(os.path.relpath(c, "." if relative else cwd) for c in cyc), None))
                else:
                    fails.append(("harness:open-budget-too-small", f"{len(opened)} opens without an include cycle", None))
            except OSError as e:
                outs.append("exc:OSError")
                _want, missing = o_closure(top, incdir, Path(os.getcwd()) if relative else Path("/"))
                if missing is None:
                    fails.append(("parse:raises-OSError-although-every-included-file-exists", f"{type(e).__name__}: {getattr(e, 'filename', None)!r}"[:200], None))
            except Exception as e:  # noqa
                outs.append(exc_line(e))
                fails.append((f"parse:escaped-{type(e).__name__}", repr(e)[:200], None))
    finally:
        os.chdir(old)
    if count:
        count("parse_" + outs[-1].split(" ")[0])
        count("files_opened", len(opened))
        count("include_edges_resolved", sum(1 for e in edges if e[2]))
        count("includes_ignored", sum(1 for e in edges if not e[2]))
    info = None
    if symbols is not None:
        # the files that were parsed must be exactly the files the program consists of, by the documented include rule
        # (dot-relative includes are relative to the INCLUDING file) -- resolved here independently of the parser
        base = cwd if relative else Path("/")
        parsed = {os.path.normpath(os.path.join(base, o)) for o in opened}
        want, missing = o_closure(top, incdir, base)
        if missing is None:
            for w in want:
                if w not in parsed:
                    fails.append(("parse:included-file-not-parsed", f"{os.path.relpath(w, cwd)} (parsed: {sorted(os.path.relpath(x, cwd) for x in parsed)})", None))
                    break
            else:
                extra = sorted(parsed - set(want))
                if extra:
                    fails.append(("parse:file-parsed-that-the-program-does-not-include", os.path.relpath(extra[0], cwd), None))
        for (src, incp, r) in edges:     # and what the parser itself resolved to an existing file must have been parsed too
            if fails:
                break
            if r and os.path.isfile(os.path.join(base, r)) and os.path.normpath(os.path.join(base, r)) not in parsed:
                fails.append(("parse:included-file-not-parsed", f"{incp!r} in {os.path.relpath(os.path.join(base, src), cwd)}", None))
        # and every #Define line of a parsed file must be reported with its name and value -- judged by the independent
        # tokenizer (comment rule), file by file in the order the parser opened them
        by_source, seen_files = [], set()
        for o in opened:
            key = os.path.normpath(os.path.join(base, o))
            if key in seen_files:
                continue
            seen_files.add(key)
            try:
                with open(key, "r") as f:
                    src_lines = f.read().splitlines()
            except OSError:
                continue
            mine = [sy for sy in symbols if sy.filename == o]
            bad = o_check_scan(src_lines, mine, os.path.relpath(key, cwd))
            if bad and not fails:
                fails.append((bad[0], bad[1], None))
            defs_o, unjudged_o, _i = o_scan(src_lines)
            rep = {sy.line_nr: sy for sy in mine}
            for i in range(1, len(src_lines) + 1):
                if i in defs_o:
                    by_source.append(ap.SymbolInfo(o, i, defs_o[i][0], defs_o[i][1]))
                elif i in unjudged_o and i in rep:
                    by_source.append(rep[i])
        # positions reported by the scanner must be real #Define lines of that file
        for s in symbols:
            try:
                with open(os.path.join(cwd, s.filename) if relative else s.filename, "r") as f:
                    src_lines = f.read().splitlines()
                ln = src_lines[s.line_nr - 1]
            except Exception as e:  # noqa
                fails.append(("scan:position-unreadable", f"{s} {e!r}", None))
                break
            if "#define" not in ln.lower() or s.label not in ln or s.value not in ln:
                fails.append(("scan:position-is-not-that-define-line", f"{s} / {ln!r}", None))
                break
        lines.append("analyze")
        aline, outcome = run_analysis(symbols)
        outs.append(aline)
        if count:
            count("analysis_" + aline.split(" ")[0] + ("" if not aline.startswith("exc:ParseException") else ":" + aline.split(" ")[3]))
        bad = oracle_binding(symbols, outcome)
        if bad:
            fails.append((bad[0], bad[1], None))
        else:
            # the same judgement against the definitions as the SOURCE states them (independent tokenizer): every #Define
            # line of a parsed file is in the binding, or the program is rejected with file and line of a real conflict
            bad = oracle_binding(by_source, outcome)
            if bad:
                fails.append((bad[0] + ":by-source-text", bad[1], None))
        if outcome[0] == "ok":
            info = outcome[1]
            types = {int(k): tuple(v) for k, v in sc["types"].items()}
            ops = sc.get("ops")
            if ops is None:
                import random
                rng = random.Random(sc.get("ops_seed", 0))
                ops = gen_ops(rng, info.param, arrays_for(info.param, types), sc.get("n_ops", 3))
                sc["ops"] = ops
            ops = [_norm_op(op) for op in ops]
            l2, o2 = run_device_ops(info, types, ops, None, fails, sc, count)
            lines += l2
            outs += o2
            # the route the manager takes: ProgramInfo.from_config(parse_parameters=True)
            if sc["top"].endswith(".bas") and sc["incdir"] == os.path.dirname(sc["top"]) and not sc.get("top_raw"):
                from qmi.utils.adwin_manager import CfgAdwinProgram, ProgramInfo
                cfg = CfgAdwinProgram(file=os.path.basename(sc["top"])[:-4], slot=1, trigger="Timer", priority=1, parse_parameters=True)
                try:
                    if relative:
                        os.chdir(cwd)
                    pi = ProgramInfo.from_config(cfg, incdir)
                    if pi.param_info != info:
                        fails.append(("manager:from_config-binding-differs", repr(pi.param_info)[:200], None))
                    if count:
                        count("from_config_checked")
                finally:
                    os.chdir(old)
    return lines, outs, fails, info


# ---------------------------------------------------------------------------
# stream F: ProgramInfo.from_config with explicitly configured parameters
# ---------------------------------------------------------------------------

def gen_config(rng):
    pool = ["foo", "bar", "baz", "gain", "k1", "elem_boo", "cnt"]
    used_regs = set()

    def nm():
        n = rng.choice(pool)
        return rcase(rng, n) if rng.random() < 0.35 else n

    par, fpar, arr = {}, {}, {}
    for _ in range(rng.randint(0, 4)):
        par[nm()] = rng.choice([1, 2, 3, 80, 81, 0])
    for _ in range(rng.randint(0, 3)):
        fpar[nm()] = rng.choice([1, 2, 3, 80])
    for _ in range(rng.randint(0, 4)):
        arr[nm()] = [rng.choice([2, 3]), rng.choice([1, 2, 3, 5])]
    if rng.random() < 0.6:      # mostly: make the three sections disjoint in exact spelling, so the table is built
        seen = set()
        for dct in (par, fpar, arr):
            for k in list(dct):
                if k in seen:
                    del dct[k]
                seen.add(k)
    types = {str(d): (["long", True] if rng.random() < 0.5 else ["float64", False]) for d in range(1, 12)}
    return {"par": par, "fpar": fpar, "par_array": arr, "types": types, "ops_seed": rng.randrange(1 << 30), "n_ops": 3}


def run_config_scenario(sc: dict, count=None):
    from qmi.utils.adwin_manager import CfgAdwinProgram, ProgramInfo
    from qmi.core.exceptions import QMI_ConfigurationException
    line = "cfg " + jc(f"{hx(n)}={i}" for n, i in sc["par"].items()) + " " + jc(f"{hx(n)}={i}" for n, i in sc["fpar"].items()) + \
           " " + jc(f"{hx(n)}={d}:{e}" for n, (d, e) in sc["par_array"].items())
    cfg = CfgAdwinProgram(file="prog", slot=1, trigger="Timer", priority=1, parse_parameters=False,
                          par=dict(sc["par"]), fpar=dict(sc["fpar"]), data={}, par_array={k: tuple(v) for k, v in sc["par_array"].items()})
    fails = []
    lines, outs = [line], []
    try:
        pi = ProgramInfo.from_config(cfg, "somedir")
    except QMI_ConfigurationException as e:
        m = re.search(r"parameter name '(.*)' in ADwin program", str(e))
        outs.append("exc:QMI_ConfigurationException " + (hx(m.group(1)) if m else "?" + hx(str(e))))
        if count:
            count("F_config_rejected")
        return lines, outs, fails
    except Exception as e:  # noqa
        outs.append(exc_line(e))
        fails.append((f"config:escaped-{type(e).__name__}", repr(e)[:160], None))
        return lines, outs, fails
    info = pi.param_info
    outs.append("ok par=" + jc(sorted(f"{hx(k)}:{show_desc(v)}" for k, v in info.param.items())))
    if count:
        count("F_config_accepted")
    # what the configuration says must be in the table, exactly
    want = {**{n: f"P{i}" for n, i in sc["par"].items()}, **{n: f"F{i}" for n, i in sc["fpar"].items()},
            **{n: f"D{d}[{e}]" for n, (d, e) in sc["par_array"].items()}}
    if {k: show_desc(v) for k, v in info.param.items()} != want:
        fails.append(("config:table-differs-from-configuration", str(want)[:160], None))
    types = {int(k): tuple(v) for k, v in sc["types"].items()}
    ops = sc.get("ops")
    if ops is None:
        import random
        ops = gen_ops(random.Random(sc["ops_seed"]), info.param, arrays_for(info.param, types), sc.get("n_ops", 3))
        sc["ops"] = ops
    l2, o2 = run_device_ops(info, types, [_norm_op(o) for o in ops], None, fails, sc, count)
    # tables configured by hand: name the class apart
    fails = [((sig + ":configured-table") if sig.startswith("resolve:") else sig, d, x) for (sig, d, x) in fails]
    return lines + l2, outs + o2, fails


# ---------------------------------------------------------------------------
# small streams A, B, C
# ---------------------------------------------------------------------------

def gen_text(rng) -> str:
    n = rng.randint(0, 8)
    lines = []
    for _ in range(n):
        k = rng.random()
        if k < 0.45:
            lab = rng.choice(["PAR_a", "DATA_b", "x", "PAR_a'b", "'q", "P", "PAR_\x1fz", "a#b"])
            val = rng.choice(["Par_1", "Data_2", "DATA_b[3]", "7", "v\x1f", "a[1]", "b#c", "Par_12'us", "DATA_b[2]'don't", "Par_3'gain of loop"])
            lines.append(fmt_define(rng, lab, val))
        elif k < 0.6:
            lines.append(rng.choice(["", " ", "\t"]) + rng.choice(["#Include", "#include", "#INCLUDE"]) + rng.choice([" ", "\t", "  ", ""]) +
                         rng.choice([".\\a.inc", "lib/b.inc", "x.inc", "..\\c.inc", "'q.inc", "a'b.inc", ""]) + rng.choice(["", " ", " ' c", "'c", " x"]))
        elif k < 0.8:
            lines.append(rng.choice(_NOISE))
        else:
            alphabet = "#DdEeFfIiNnCcLlUu PAR_ab1'\t\x0b\x0c\x1c\x1f[]"
            lines.append("".join(rng.choice(alphabet) for _ in range(rng.randint(0, 24))))
    nl = [rng.choice(["\n", "\n", "\r\n", "\r", "\x0b", "\x0c", "\x1c", "\x1d", "\x1e", "\x85", "\u2028", "\u2029", "\n\r", "\r\r\n"]) for _ in lines]
    return "".join(l + s for l, s in zip(lines, nl))[: None if rng.random() < 0.7 else -1]


def gen_resolve(rng):
    comp = lambda: rng.choice(["a", "inc", "..", ".", "", ".hid", "..x", "b.inc", "sub", "x y", "C:"])
    n = rng.choice([1, 2, 2, 3, 3, 4, 5])
    seps = [rng.choice(["\\", "/"]) for _ in range(n)]
    inc = "".join(comp() + s for s in seps)[: None if rng.random() < 0.2 else -1]
    if rng.random() < 0.1:
        inc = rng.choice(["/", "\\", "", "x.inc", "//a/b", "\\\\srv\\x.inc", "a//b", "./", "..", "a/"])
    src = rng.choice(["main.bas", "prog/main.bas", "/t/prog/main.bas", "a/b/../c/m.bas", "./m.bas", "//x/m.bas", "///x/y/m.bas", "p//q.bas", "/m.bas", "p/", ""])
    d = rng.choice(["", "lib", "/t/lib", "lib/", "a/../lib", "/", "."])
    return inc, src, d


def oracle_ranges(seq, out):
    """`ranges_partition` evaluated directly on the real function's answer."""
    if any(a > b for a, b in out):
        return "ranges:start-after-end"
    covered = set()
    for a, b in out:
        covered |= set(range(a, b + 1))
    if covered != set(seq):
        return "ranges:union-differs-from-input"
    for (a, b), (c, d) in zip(out, out[1:]):
        if c <= b:
            return "ranges:overlap-or-unsorted"
        if c == b + 1:
            return "ranges:adjacent-runs-not-merged"
    return None


# ---------------------------------------------------------------------------
# fixed corpus (always run first): the include cycle of DESIGN §7(n) (repaired by 48b63c7; kept as regression input) and other corner programs
# ---------------------------------------------------------------------------

def corpus_programs():
    t = {str(d): ["long", True] for d in range(1, 12)}
    yield {"files": {"a.bas": "#Define PAR_one Par_1\n#Include .\\inc\\b.inc\n",
                     "inc/b.inc": "#Define PAR_two Par_2\n#Include ..\\a.bas\n"},
           "top": "a.bas", "incdir": "", "relative": True, "types": t, "cyc": "back-edge", "n_ops": 0}
    yield {"files": {"prog/main.bas": "#Include .\\main.bas ' itself\n#Define PAR_x Par_1\n"},
           "top": "prog/main.bas", "incdir": "prog", "relative": False, "types": t, "cyc": "self", "n_ops": 0}
    yield {"files": {"prog/main.bas": "' test\r\n#Include ADwinPro_All.inc\r\n#Include .\\t.inc  ' parsed\r\n#Define Pi 3.14159\r\n"
                                      "#Define PAR_one Par_1\r\n#Define PAR_float FPar_1\r\n#Define DATA_params Data_10\r\n"
                                      "#Define PAR_elem_one DATA_params[1]\r\n#Define PAR_elem_three DATA_params[3]\r\n",
                     "prog/t.inc": "#Define PAR_two Par_2\n#Define PAR_elem_two data_PARAMS[2]\n#Define DATA_more Data_11\n#Define PAR_m1 Data_more[4]\n"},
           "top": "prog/main.bas", "incdir": "prog", "relative": False, "types": t, "cyc": None, "n_ops": 6, "ops_seed": 1}
    yield {"files": {"prog/main.bas": "#Include sub\\d.inc\n#Include .\\inc\\b.inc\n#Define PAR_a Par_1\n",
                     "prog/sub/d.inc": "#Include .\\..\\inc\\b.inc\n#Define PAR_b Par_2\n",
                     "prog/inc/b.inc": "#Define PAR_c FPar_3\n"},
           "top": "prog/main.bas", "incdir": "prog", "relative": True, "types": t, "cyc": None, "n_ops": 3, "ops_seed": 2}


def corpus_programs_2():
    t = {str(d): ["long", True] for d in range(1, 12)}
    # same name bound to Par_7 in the main file and to FPar_7 in an include file
    yield {"files": {"prog/main.bas": "#Include .\\defs.inc\n#Define PAR_rate Par_7\n",
                     "prog/defs.inc": "' include\n\n#Define PAR_rate FPar_7\n"},
           "top": "prog/main.bas", "incdir": "prog", "relative": False, "types": t, "cyc": None, "n_ops": 0}
    yield {"files": {"main.bas": "#Define PAR_rate FPar_7 ' float\r\n#Include sub\\d.inc\r\n",
                     "sub/d.inc": "#define par_rate par_7\n"},
           "top": "main.bas", "incdir": "", "relative": True, "types": t, "cyc": None, "n_ops": 0}


def corpus_programs_3():
    t = {str(d): ["long", True] for d in range(1, 12)}
    # one file reached under two spellings of its path: "./prog/sub/d.inc" (include dir) and "prog/sub/d.inc" (normalised)
    yield {"files": {"prog/main.bas": "#Include sub\\d.inc\n#Include .\\sub\\d.inc\n#Include .\\main.bas\n#Define PAR_a Par_1\n",
                     "prog/sub/d.inc": "#Define PAR_b Par_2\n#Include ..\\main.bas\n"},
           "top": "prog/main.bas", "top_raw": "./prog/main.bas", "incdir": "prog", "incdir_raw": "./prog", "relative": True,
           "types": t, "cyc": "back-edge", "n_ops": 2, "ops_seed": 7}
    yield {"files": {"prog/main.bas": "#Include sub\\d.inc\n#Include .\\sub\\d.inc\n#Define PAR_a Par_1\n",
                     "prog/sub/d.inc": "#Define PAR_b Par_2\n"},
           "top": "prog/main.bas", "incdir": "prog", "incdir_raw": "prog/../prog/", "relative": False,
           "types": t, "cyc": None, "n_ops": 2, "ops_seed": 8}


def corpus_programs_4():
    t = {str(d): ["long", True] for d in range(1, 12)}
    # an include file in a sub-directory includes `.\\common.inc`: its own neighbour, not the top-level program's
    yield {"files": {"prog/main.bas": "#Include .\\common.inc\n#Include .\\drivers\\d.inc\n#Define PAR_top Par_1\n",
                     "prog/common.inc": "#Define PAR_offset Par_3\n",
                     "prog/drivers/d.inc": "#Include .\\common.inc\n#Define PAR_drv Par_2\n",
                     "prog/drivers/common.inc": "#Define PAR_gain Par_3\n"},
           "top": "prog/main.bas", "incdir": "prog", "relative": False, "types": t, "cyc": None, "n_ops": 0}
    # the same, valid: the sub-directory's file adds names; dot-dot include back up; include-dir style from a sub-directory
    yield {"files": {"prog/main.bas": "#Include .\\drivers\\d.inc\n#Define PAR_top Par_1\n",
                     "prog/common.inc": "#Define PAR_offset Par_3\n",
                     "prog/drivers/d.inc": "#Include .\\common.inc\n#Include ..\\common.inc\n#Include drivers\\deep\\e.inc\n#Define PAR_drv Par_2\n",
                     "prog/drivers/common.inc": "#Define PAR_gain Par_4\n#Include .\\deep\\e.inc\n",
                     "prog/drivers/deep/e.inc": "#Define PAR_deep FPar_5\n#Include ..\\..\\common.inc\n#Include ..\\common.inc\n"},
           "top": "prog/main.bas", "incdir": "prog", "relative": True, "types": t, "cyc": "back-edge", "n_ops": 3, "ops_seed": 9}
    # no file of that name next to the top-level program: a resolver that uses the wrong base directory cannot open it
    yield {"files": {"main.bas": "#Include .\\lib\\a.inc\n",
                     "lib/a.inc": "#Include .\\b.inc\n#Define PAR_a Par_1\n",
                     "lib/b.inc": "#Include ..\\lib\\sub\\c.inc\n#Define PAR_b Par_2\n",
                     "lib/sub/c.inc": "#Define PAR_c Par_3\n#Define PAR_a par_01\n"},
           "top": "main.bas", "incdir": "", "relative": True, "types": t, "cyc": None, "n_ops": 2, "ops_seed": 10}


def corpus_programs_5():
    t = {str(d): ["long", True] for d in range(1, 12)}
    # comments glued to the value; a second name on the same register / a re-definition in an include file must be rejected
    yield {"files": {"prog/main.bas": "#Define PAR_t_wait Par_12'us\n#Define PAR_other Par_12 ' alias of t_wait\n"},
           "top": "prog/main.bas", "incdir": "prog", "relative": False, "types": t, "cyc": None, "n_ops": 0}
    yield {"files": {"prog/main.bas": "#Define DATA_timing Data_4\n#Define PAR_slow DATA_timing[2]'don't change\n#Include .\\i.inc'glued\n",
                     "prog/i.inc": "#Define PAR_slow DATA_timing[3]''\n"},
           "top": "prog/main.bas", "incdir": "prog", "relative": True, "types": t, "cyc": None, "n_ops": 0}
    yield {"files": {"prog/main.bas": "#Define DATA_timing Data_4'arr\n#Define PAR_a DATA_timing[1]'x y'z\n#Define PAR_b Par_3'gain of loop\n"
                                      "\t#define\tPAR_c\tFPar_2\t'tab\n#Define PAR_d Par_4'\n#Define PAR_e Par_5 Rem not a comment\n#Include sub\\j.inc\t'c\n",
                     "prog/sub/j.inc": "#Define PAR_f DATA_TIMING[2]'#Define PAR_g Par_9\n"},
           "top": "prog/main.bas", "incdir": "prog", "relative": False, "types": t, "cyc": None, "n_ops": 3, "ops_seed": 11}


def corpus_layouts():
    t = {str(d): (["long", True] if d % 2 == 0 else ["float64", False]) for d in range(1, 12)}
    big = "1" * 4301
    yield {"defs": [["PAR_big", "Par_" + big]], "types": t, "n_ops": 0, "ops_seed": 0}
    yield {"defs": [["DATA_big", "Data_" + "0" * 4300 + "7"]], "types": t, "n_ops": 0, "ops_seed": 0}
    yield {"defs": [["DATA_a", "Data_3"], ["PAR_e", "Data_a[" + big + "]"]], "types": t, "n_ops": 0, "ops_seed": 0}
    yield {"defs": [["DATA_ok", "Data_" + "0" * 4299 + "7"], ["PAR_z", "Par_" + "0" * 4299 + "5"]], "types": t, "n_ops": 2, "ops_seed": 0}
    # start_with_params with keywords spelled in another letter case than the source (documented as allowed), omitted
    # parameters (zero-fill), a non-ASCII case twin, and two spellings of one name in one call
    yield {"defs": [["PAR_T_Hold", "FPar_3"], ["PAR_n_rep", "Par_2"], ["DATA_cfg", "Data_4"], ["PAR_Gain", "Data_cfg[1]"], ["PAR_offs", "Data_cfg[2]"],
                    ["PAR_k", "Par_5"]],
           "types": {**t, "4": ["float64", False]},
           "ops": [["startwp", [["t_hold", 1.5], ["N_REP", 7]]], ["mget", ["T_Hold", "n_rep", "Gain", "offs", "k"]],
                   ["startwp", [["T_Hold", 2.5], ["gain", 0.5], ["OFFS", -3], ["\u212a", 9]]], ["mget", ["t_hold", "GAIN", "offs", "K"]],
                   ["startwp", []], ["mget", ["T_HOLD", "n_rep", "gain", "offs", "k"]],
                   ["startwp", [["t_hold", 4.0], ["T_HOLD", 4.0], ["n_rep", 1]]], ["startwp", [["n_rep", 3], ["N_rep", 4]]],
                   ["mset", [["t_hold", 1.0], ["T_HOLD", 2.0]]], ["mget", ["t_hold", "T_Hold"]]]}
    # the limits Adwin_Base enforces: Par/FPar 1..80, Data 1..200, element >= 1
    edge = [["DATA_hi", "Data_200"], ["DATA_over", "Data_201"], ["DATA_zero", "Data_0"], ["PAR_p1", "Par_1"], ["PAR_p80", "Par_80"],
            ["PAR_p81", "Par_81"], ["PAR_p0", "Par_0"], ["PAR_f80", "FPar_80"], ["PAR_f81", "FPar_81"], ["PAR_f0", "FPar_0"],
            ["PAR_h0", "Data_hi[0]"], ["PAR_h1", "Data_hi[1]"], ["PAR_h2", "Data_hi[2]"], ["PAR_h4", "Data_hi[4]"],
            ["PAR_o1", "Data_over[1]"], ["PAR_z1", "Data_zero[1]"]]
    tt = dict(t); tt["200"] = ["long", True]
    yield {"defs": edge, "types": tt, "ops": [
        ["get", "p80"], ["get", "p81"], ["get", "p0"], ["get", "f80"], ["get", "f81"], ["get", "f0"], ["get", "h0"], ["get", "h1"],
        ["get", "o1"], ["get", "z1"], ["set", "p81", 1], ["set", "p81", 1.5], ["set", "f0", 2.5], ["set", "h0", 3], ["set", "o1", 3],
        ["set", "h1", 2.5], ["set", "h1", 7],
        ["mget", ["h1", "h2", "p80", "f80"]], ["mget", ["h0", "h1"]], ["mget", ["h1", "h0", "p1"]], ["mget", ["p1", "p81", "h1"]],
        ["mget", ["o1", "h1"]], ["mget", ["h1", "o1"]], ["mget", ["z1"]],
        ["mset", [["h1", 1], ["h2", 2], ["p80", 80], ["f80", 0.5]]], ["mset", [["h0", 1], ["h1", 2]]], ["mset", [["p1", 5], ["h1", 6], ["p0", 7]]],
        ["mset", [["h1", 1], ["h2", 2.5]]], ["mset", [["h4", 2.5], ["h1", 9]]], ["mset", [["h1", 4], ["o1", 5]]], ["mset", [["f81", 1], ["h2", 8]]],
        ["mget", ["h1", "h2", "h4", "p1", "p80", "f80"]]]}
    tt2 = dict(t); tt2["200"] = ["float64", False]
    yield {"defs": edge, "types": tt2, "ops": [["mset", [["h1", 1], ["h2", 2.5], ["h4", -3]]], ["mget", ["h4", "h2", "h1"]], ["mset", [["h2", 1], ["h0", 2.5]]]]}
    # non-ASCII code points with an ASCII case partner: the parser folds with upper(), the manager with lower()
    yield {"defs": [["PAR_\u212a", "Par_1"], ["PAR_k", "Par_2"]], "types": t,
           "ops": [["get", "k"], ["get", "\u212a"], ["mget", ["k"]], ["set", "k", 5], ["mset", [["K", 7]]]]}
    yield {"defs": [["PAR_gain\u00df", "Par_1"], ["PAR_gainSS", "Par_2"]], "types": t, "n_ops": 0, "ops_seed": 0}
    yield {"defs": [["PAR_\u017fet", "Par_1"], ["PAR_set", "FPar_2"], ["DATA_\ufb01t", "Data_2"], ["PAR_e", "Data_FIT[2]"]], "types": t, "n_ops": 0, "ops_seed": 0}
    yield {"defs": [["DATA_\u0131dx", "Data_2"], ["DATA_Idx", "Data_3"]], "types": t, "n_ops": 0, "ops_seed": 0}
    yield {"defs": [["PAR_\u017f", "Par_1"], ["PAR_x\ufb05", "Par_2"], ["PAR_\u00df\u0131", "FPar_3"]], "types": t, "n_ops": 5, "ops_seed": 6}
    # one name in both register banks with the same index (ParDesc(3) == FParDesc(3) as tuples): must be rejected
    yield {"defs": [["PAR_gain", "Par_3"], ["PAR_other", "Par_1"], ["PAR_gain", "FPar_3"]], "types": t, "n_ops": 0, "ops_seed": 0}
    yield {"defs": [["PAR_offset", "FPar_12"], ["PAR_other", "Par_1"], ["par_offset", "PAR_012"]], "types": t, "n_ops": 0, "ops_seed": 0}
    yield {"defs": [["PAR_gain", "Par_3"], ["PAR_Gain", "FPar_3"]], "types": t, "n_ops": 0, "ops_seed": 0}
    # the legitimate neighbour: two names, same index, different banks
    yield {"defs": [["PAR_gain", "Par_3"], ["PAR_fgain", "FPar_3"], ["PAR_gain", "par_03"]], "types": t, "n_ops": 4, "ops_seed": 5}
    yield {"defs": [["DATA_arr", "Data_2"]] + [[f"PAR_e{i}", f"Data_arr[{i}]"] for i in (1, 2, 3, 5, 6, 8)] +
                   [["PAR_p1", "Par_1"], ["PAR_p2", "Par_2"], ["PAR_f1", "FPar_1"]], "types": t, "n_ops": 8, "ops_seed": 3}
    yield {"defs": [["DATA_a", "Data_4"], ["DATA_b", "Data_5"]] + [[f"PAR_a{i}", f"Data_a[{i}]"] for i in (1, 2, 4)] +
                   [[f"PAR_b{i}", f"Data_B[{i}]"] for i in (2, 3)], "types": t, "n_ops": 8, "ops_seed": 4}


# ---------------------------------------------------------------------------
# the Prop
# ---------------------------------------------------------------------------

def shrink_layout(sc: dict, sig: str) -> dict:
    """Greedy deletion (ops, names inside the op, definitions) keeping the same oracle clause."""
    def fails(c):
        try:
            _l, _o, f, _i = run_layout_scenario(c)
        except Exception:  # noqa
            return False
        return any(x[0] == sig for x in f)

    cur = {**sc, "ops": [list(o) for o in (sc.get("ops") or [])]}
    if not fails(dict(cur, ops=[_norm_op(o) for o in cur["ops"]])):
        return sc
    changed = True
    while changed:
        changed = False
        for key in ("ops", "defs"):
            i = 0
            while i < len(cur[key]):
                cand = dict(cur)
                cand[key] = cur[key][:i] + cur[key][i + 1:]
                if fails(dict(cand, ops=[_norm_op(o) for o in cand["ops"]])):
                    cur = cand
                    changed = True
                else:
                    i += 1
        for oi, op in enumerate(cur["ops"]):
            if op[0] in ("mget", "mset", "startwp"):
                j = 0
                while j < len(op[1]):
                    new_op = [op[0], list(op[1][:j]) + list(op[1][j + 1:])]
                    cand = dict(cur)
                    cand["ops"] = cur["ops"][:oi] + [new_op] + cur["ops"][oi + 1:]
                    if fails(dict(cand, ops=[_norm_op(o) for o in cand["ops"]])):
                        cur = cand
                        op = new_op
                        changed = True
                    else:
                        j += 1
    return cur


def shrink_program(sc: dict, sig: str, root: Path) -> dict:
    """Greedy deletion of accessor ops (and of names inside them) keeping the same oracle clause."""
    if not sc.get("ops"):
        return sc
    n = [0]

    def fails(c):
        n[0] += 1
        try:
            _l, _o, f, _i = run_program_scenario(dict(c), root / f"k{n[0]}")
        except Exception:  # noqa
            return False
        return any(x[0] == sig for x in f)

    cur = dict(sc, ops=[list(o) for o in sc["ops"]])
    if not fails(cur):
        return sc
    changed = True
    while changed and n[0] < 200:
        changed = False
        i = 0
        while i < len(cur["ops"]):
            cand = dict(cur, ops=cur["ops"][:i] + cur["ops"][i + 1:])
            if fails(cand):
                cur, changed = cand, True
            else:
                i += 1
        for oi, op in enumerate(cur["ops"]):
            if op[0] in ("mget", "mset", "startwp"):
                j = 0
                while j < len(op[1]):
                    new_op = [op[0], list(op[1][:j]) + list(op[1][j + 1:])]
                    cand = dict(cur, ops=cur["ops"][:oi] + [new_op] + cur["ops"][oi + 1:])
                    if fails(cand):
                        cur, op, changed = cand, new_op, True
                    else:
                        j += 1
    return cur


class C20(Prop):
    id = "C20"
    lean_modules = ["QmiModel.Props.C20"]
    driver = "drv_c20"
    modelled_not_verified = [
        "CPython `re` semantics of the six patterns (re_define, re_include, Par_/FPar_/Data_ index, Data_x[i]) — written out as "
        "functions in the model and differentially checked here; str.upper()/lower() are modelled on ASCII plus the eleven non-ASCII "
        "code points that have an ASCII case partner (ß ı ſ K-sign, ligatures ﬀ..ﬆ) and differentially checked; other non-ASCII letters "
        "(é/É …) are outside the modelled alphabet",
        "text-mode universal newlines, str.splitlines, posixpath.join/dirname/normpath (os.path on this platform), int() with the "
        "4300-digit limit (ValueError -> ParseException in _parse_index) — written out in the model, differentially checked",
        "the file system: a finite map from normalised path to text; open() resolution approximated by normpath (no symlinks); every "
        "OSError subclass is one error value",
        "the ADwin library under Adwin_Base: a total register file (Par, FPar, Data × element) that stores values as given; the harness "
        "uses the real Adwin_Base driver over a fake ADwin library with 80 Par / 80 FPar / typed Data arrays. Adwin_Base's argument "
        "validation (index ranges, first element >= 1, integer dtype of a merged range) IS in the model and diffed; array lengths, "
        "32-bit wrap-around and float32 rounding are the library's (ops stay within array lengths and int32)",
        "numpy dtype unification in `np.array(values)`: modelled as 'float dtype iff some value is a float'; int->float64 conversion on "
        "store is compared numerically",
        "repr(param_desc) is injective on descriptors (model keys ref_to_name by the descriptor itself)",
    ]

    # -- correspondence ---------------------------------------------------
    def correspondence(self, ctx: Ctx) -> Result:
        logging.getLogger("qmi.utils.adbasic_parser").setLevel(logging.CRITICAL)
        from qmi.utils import adbasic_parser as ap
        from qmi.utils.adwin_manager import AdwinProcess
        res = Result(rule="A: random texts; B: random include paths; C: random integer lists; D: symbol lists = one-to-one layout "
                          "(≤3 arrays, ≤12 parameters on few registers so that runs/gaps/collisions are frequent) with 0–2 injected "
                          "duplicates/conflicts/odd forms, then 4 accessor ops over random subsets with random letter case; "
                          "E: the same layouts spread over 1–5 files with nested/diamond/cyclic/missing includes and formatting noise. "
                          "non-trivial = D/E scenario with ≥2 definitions (or a conflict) ; distinct by full scenario content")
        rng = ctx.rng
        all_lines: list[str] = []
        all_outs: list[str] = []
        spans = []      # (start, length, stream, case)

        def add(stream, case, lines, outs):
            assert len(lines) == len(outs), (stream, len(lines), len(outs))
            spans.append((len(all_lines), len(lines), stream, case))
            all_lines.extend(lines)
            all_outs.extend(outs)

        def report(fails, case, kind):
            for (sig, detail, _x) in fails:
                if sig.startswith("harness:"):
                    res.broken.append(Broken("correspondence", sig, detail, case=case))
                    continue
                if sum(1 for f in res.failures if f.signature == sig) >= 1:
                    continue
                clause = ":".join(sig.split(":")[:2])      # same clause on other input classes: two examples are enough
                if sum(1 for f in res.failures if ":".join(f.signature.split(":")[:2]) == clause) >= 2:
                    continue
                small = case
                if kind == "layout":
                    small = shrink_layout(case, sig)
                elif kind == "program" and sig.startswith(("batch-", "single-")):
                    small = shrink_program(case, sig, tmp / f"shrink{len(res.failures)}")
                res.failures.append(Failure(sig, f"{sig}: {detail} [{kind}]", {"kind": kind, "scenario": small, "clause": sig}))

        with tempfile.TemporaryDirectory(prefix="c20_") as tmp:
            tmp = Path(os.path.realpath(tmp))
            # --- fixed corpus
            for i, sc in enumerate(list(corpus_programs()) + list(corpus_programs_2()) + list(corpus_programs_3()) + list(corpus_programs_4()) + list(corpus_programs_5())):
                sc = dict(sc)
                lines, outs, fails, _ = run_program_scenario(sc, tmp / f"c{i}", res.count)
                add("E", {"kind": "program", "scenario": sc}, lines, outs)
                res.note_case(("corpusE", i))
                report(fails, sc, "program")
            for i, sc in enumerate(corpus_layouts()):
                sc = dict(sc)
                lines, outs, fails, _ = run_layout_scenario(sc, res.count)
                add("D", {"kind": "layout", "scenario": sc}, lines, outs)
                res.note_case(("corpusD", i))
                report(fails, sc, "layout")

            # --- A: scanner
            scan_file = tmp / "scan.bas"
            for i in range(ctx.scale(4000, 30000)):
                text = gen_text(rng)
                with open(scan_file, "w", encoding="utf-8", newline="") as f:
                    f.write(text)
                syms, incs = ap._parse_single_adbasic_file(str(scan_file))
                out = f"syms={jc(f'{hx(s.filename)}:{s.line_nr}:{hx(s.label)}:{hx(s.value)}' for s in syms)} incs={jc(hx(p) for p in incs)}"
                add("A", {"kind": "scan", "text": text}, [f"scan {hx(str(scan_file))} {hx(text)}"], [out])
                with open(scan_file, "r") as f:
                    bad = o_check_scan(f.read().splitlines(), syms, "scan.bas")
                if bad and not any(fl.signature == bad[0] for fl in res.failures):
                    res.failures.append(Failure(bad[0], f"{bad[0]}: {bad[1]}", {"kind": "scan", "text": text, "clause": bad[0]}))
                res.note_case(("A", text), nontrivial=False)
                res.count("A_scan_texts")
                res.count("A_defines_found", len(syms))
                res.count("A_includes_found", len(incs))
            # --- B: include resolution
            for i in range(ctx.scale(5000, 40000)):
                inc, src, d = gen_resolve(rng)
                r = ap._resolve_include_path(inc, src, d)
                add("B", {"kind": "resolve", "args": [inc, src, d]}, [f"resolve {hx(inc)} {hx(src)} {hx(d)}"], ["none" if r is None else f"some {hx(r)}"])
                res.note_case(("B", inc, src, d), nontrivial=False)
                res.count("B_resolve_" + ("ignored" if r is None else ("normalised" if any(c.startswith('.') for c in inc.replace('\\', '/').split('/')) else "incdir")))
            # --- C: ranges
            for i in range(ctx.scale(5000, 50000)):
                n = rng.choice([0, 1, 2, 3, 4, 6, 9, 14])
                hi = rng.choice([3, 6, 10, 20, 1000])
                seq = [rng.randint(0, hi) for _ in range(n)]
                if rng.random() < 0.5:
                    seq = list(dict.fromkeys(seq))
                out = AdwinProcess._find_sequential_ranges(list(seq))
                add("C", {"kind": "ranges", "seq": seq}, [f"ranges {jc(str(x) for x in seq)}"], [jc(f"{a}-{b}" for a, b in out)])
                res.note_case(("C", tuple(seq)), nontrivial=False)
                res.count("C_range_lists")
                res.count("C_runs_found", len(out))
                c = oracle_ranges(seq, out)
                if c and not any(f.signature == c for f in res.failures):
                    res.failures.append(Failure(c, f"_find_sequential_ranges({seq}) = {out}: {c}", {"kind": "ranges", "seq": seq, "clause": c}))
            # --- F: configured tables
            for i in range(ctx.scale(1500, 15000)):
                sc = gen_config(rng)
                lines, outs, fails = run_config_scenario(sc, res.count)
                add("F", {"kind": "config", "scenario": sc}, lines, outs)
                res.note_case(("F", repr(sc["par"]), repr(sc["fpar"]), repr(sc["par_array"]), repr(sc.get("ops"))), nontrivial=True)
                res.count("F_configs")
                report(fails, sc, "config")
            # --- D: layouts
            nD = ctx.scale(8000, 80000)
            for i in range(nD):
                defs, types = gen_layout(rng)
                sc = {"defs": [list(d) for d in defs], "types": {str(k): list(v) for k, v in types.items()},
                      "ops_seed": rng.randrange(1 << 30), "n_ops": 4}
                lines, outs, fails, info = run_layout_scenario(sc, res.count)
                add("D", {"kind": "layout", "scenario": sc}, lines, outs)
                res.note_case(("D", repr(sc["defs"]), repr(sc.get("ops"))), nontrivial=len(defs) >= 2)
                res.count("D_layouts")
                res.count("D_definitions", len(defs))
                if info is not None:
                    res.count("D_bound_parameters", len(info.param))
                if i < 2:
                    res.sample({"stream": "D", "defs": sc["defs"][:8], "ops": [list(o) for o in (sc.get("ops") or [])][:3], "impl": outs[-3:]})
                report(fails, sc, "layout")
            # --- E: programs on disk
            nE = ctx.scale(1500, 15000)
            for i in range(nE):
                sc = gen_program(rng)
                sc["ops_seed"] = rng.randrange(1 << 30)
                sc["n_ops"] = 3
                lines, outs, fails, info = run_program_scenario(sc, tmp / f"e{i}", res.count)
                add("E", {"kind": "program", "scenario": sc}, lines, outs)
                res.note_case(("E", repr(sorted(sc["files"].items())), sc["top"], sc["incdir"], sc["relative"]), nontrivial=True)
                res.count("E_programs")
                res.count("E_files", len(sc["files"]))
                res.count("E_cyclic" if sc["cyc"] else "E_acyclic")
                if i < 2:
                    res.sample({"stream": "E", "files": sc["files"], "top": sc["top"], "incdir": sc["incdir"], "impl_parse": outs[len(sc['files']) + 1][:300]})
                report(fails, sc, "program")

        model = LeanDriver(self.driver).run(all_lines)
        res.traces_validated += len(spans)
        res.count("driver_lines", len(all_lines))
        k = diff_streams(all_lines, all_outs, model)
        seen_streams = set()
        while k is not None:
            for (start, ln, stream, case) in spans:
                if start <= k < start + ln:
                    if stream not in seen_streams:
                        seen_streams.add(stream)
                        res.broken.append(Broken("correspondence", f"Adbasic model vs implementation (stream {stream})",
                                                 f"line {k - start}: op={all_lines[k][:300]!r} impl={all_outs[k][:300]!r} model={model[k][:300]!r}",
                                                 case=case))
                    nxt = start + ln
                    break
            else:
                break
            k2 = diff_streams(all_lines[nxt:], all_outs[nxt:], model[nxt:])
            k = None if k2 is None or len(seen_streams) >= 5 else nxt + k2
        return res

    # -- search -------------------------------------------------------------
    def search(self, ctx: Ctx, broken) -> Result:
        logging.getLogger("qmi.utils.adbasic_parser").setLevel(logging.CRITICAL)
        res = Result()
        with tempfile.TemporaryDirectory(prefix="c20s_") as tmp:
            tmp = Path(os.path.realpath(tmp))
            # 1. the disagreeing cases themselves
            for bi, b in enumerate(broken):
                c = b.case
                if not c:
                    continue
                f = self._eval_case(c, tmp / f"b{bi}")
                res.note_case(("case", repr(c)[:200]))
                if f:
                    res.failures.append(f)
            if res.failures:
                return res
            # 2. systematic sweeps
            self._sweep(ctx, res, tmp)
        return res

    def _eval_case(self, c: dict, root: Path):
        kind = c.get("kind")
        if kind == "layout":
            sc = dict(c["scenario"])
            _l, _o, fails, _ = run_layout_scenario(sc)
            for (sig, detail, _x) in fails:
                small = shrink_layout(sc, sig)
                return Failure(sig, f"{sig}: {detail}", {"kind": "layout", "scenario": small, "clause": sig})
        elif kind == "program":
            sc = dict(c["scenario"])
            _l, _o, fails, _ = run_program_scenario(sc, root)
            for (sig, detail, _x) in fails:
                if not sig.startswith("harness:"):
                    return Failure(sig, f"{sig}: {detail}", {"kind": "program", "scenario": sc, "clause": sig})
        elif kind == "scan":
            from qmi.utils import adbasic_parser as ap
            root.mkdir(parents=True, exist_ok=True)
            fpath = root / "replay_scan.bas"
            with open(fpath, "w", encoding="utf-8", newline="") as f:
                f.write(c["text"])
            syms, _incs = ap._parse_single_adbasic_file(str(fpath))
            with open(fpath, "r") as f:
                bad = o_check_scan(f.read().splitlines(), syms, "scan.bas")
            if bad:
                return Failure(bad[0], f"{bad[0]}: {bad[1]}", {"kind": "scan", "text": c["text"], "clause": bad[0]})
        elif kind == "config":
            sc = dict(c["scenario"])
            _l, _o, fails = run_config_scenario(sc)
            for (sig, detail, _x) in fails:
                return Failure(sig, f"{sig}: {detail}", {"kind": "config", "scenario": sc, "clause": sig})
        elif kind == "ranges":
            from qmi.utils.adwin_manager import AdwinProcess
            out = AdwinProcess._find_sequential_ranges(list(c["seq"]))
            cl = oracle_ranges(c["seq"], out)
            if cl:
                return Failure(cl, f"_find_sequential_ranges({c['seq']}) = {out}", {"kind": "ranges", "seq": c["seq"], "clause": cl})
        return None

    def _sweep(self, ctx: Ctx, res: Result, tmp: Path):
        from qmi.utils.adwin_manager import AdwinProcess
        # (a) every integer list over {0..5} up to length 5
        for n in range(0, 6):
            for seq in itertools.product(range(6), repeat=n):
                out = AdwinProcess._find_sequential_ranges(list(seq))
                cl = oracle_ranges(seq, out)
                res.note_case(("sw-ranges", seq), nontrivial=False)
                if cl:
                    res.failures.append(Failure(cl, f"_find_sequential_ranges({list(seq)}) = {out}", {"kind": "ranges", "seq": list(seq), "clause": cl}))
                    return
        # (b) every pair / triple of definitions from a small alphabet: one-to-one-ness and rejection position
        labs = ["PAR_a", "PAR_A", "par_a", "PAR_b", "DATA_a", "DATA_A", "DATA_b", "PAR_"]
        vals = ["Par_1", "par_01", "Par_2", "FPar_1", "Data_1", "Data_2", "Data_a[1]", "DATA_A[1]", "Data_b[1]", "Data_a[2]", "Data_q[1]", "junk"]
        alpha = [(l, v) for l in labs for v in vals]
        t = {str(d): ["long", True] for d in range(1, 12)}
        for n in (1, 2):
            for combo in itertools.product(alpha, repeat=n):
                for pre in ([], [("DATA_a", "Data_1")], [("DATA_a", "Data_1"), ("DATA_b", "Data_2")]):
                    sc = {"defs": [list(x) for x in pre] + [list(x) for x in combo], "types": t, "ops": []}
                    _l, _o, fails, _ = run_layout_scenario(sc)
                    res.note_case(("sw-defs", combo, len(pre)), nontrivial=False)
                    if fails:
                        sig, detail, _x = fails[0]
                        res.failures.append(Failure(sig, f"{sig}: {detail}", {"kind": "layout", "scenario": sc, "clause": sig}))
                        return
        # (c) one array with elements 1..5 + 2 Par + 1 FPar: every subset, batch get and batch set
        defs = [["DATA_arr", "Data_2"]] + [[f"PAR_e{i}", f"Data_arr[{i}]"] for i in range(1, 6)] + \
               [["PAR_p1", "Par_1"], ["PAR_p2", "Par_2"], ["PAR_f1", "FPar_1"], ["DATA_o", "Data_3"], ["PAR_o1", "Data_o[1]"], ["PAR_o2", "Data_o[2]"]]
        names = [d[0][4:] for d in defs if d[0].startswith("PAR_")]
        for is_int in (True, False):
            t2 = {str(d): ["long" if is_int else "float", is_int] for d in range(1, 12)}
            for r in range(1, len(names) + 1):
                for sub in itertools.combinations(names, r):
                    for order in (list(sub), list(reversed(sub))):
                        ops = [["mset", [[n, 10 + i] for i, n in enumerate(order)]], ["mget", list(order)]]
                        sc = {"defs": defs, "types": t2, "ops": ops}
                        _l, _o, fails, _ = run_layout_scenario(sc)
                        res.note_case(("sw-subset", sub, is_int), nontrivial=False)
                        if fails:
                            sig, detail, _x = fails[0]
                            small = shrink_layout(sc, sig)
                            res.failures.append(Failure(sig, f"{sig}: {detail}", {"kind": "layout", "scenario": small, "clause": sig}))
                            return
        # (d) more random programs with a different stream
        import random
        rng = random.Random(f"C20-search-{ctx.seed}")
        for i in range(ctx.scale(400, 3000)):
            sc = gen_program(rng)
            sc["ops_seed"] = rng.randrange(1 << 30)
            _l, _o, fails, _ = run_program_scenario(sc, tmp / f"s{i}")
            res.note_case(("sw-prog", i), nontrivial=False)
            for (sig, detail, _x) in fails:
                if sig.startswith("harness:"):
                    continue
                from harness.core import known_match
                if known_match(self.id, sig) is None:
                    res.failures.append(Failure(sig, f"{sig}: {detail}", {"kind": "program", "scenario": sc, "clause": sig}))
                    return

    # -- replay -------------------------------------------------------------
    def replay(self, ctx: Ctx, rp: dict):
        logging.getLogger("qmi.utils.adbasic_parser").setLevel(logging.CRITICAL)
        with tempfile.TemporaryDirectory(prefix="c20r_") as tmp:
            tmp = Path(os.path.realpath(tmp))
            if rp.get("kind") in ("ranges", "scan"):
                f = self._eval_case(rp, tmp / "r")
                return f
            sc = dict(rp["scenario"])
            if rp["kind"] == "layout":
                _l, _o, fails, _ = run_layout_scenario(sc)
            elif rp["kind"] == "config":
                _l, _o, fails = run_config_scenario(sc)
            else:
                _l, _o, fails, _ = run_program_scenario(sc, tmp / "r")
            want = rp.get("clause")
            for (sig, detail, _x) in fails:
                if want is None or sig == want:
                    return Failure(sig, f"{sig}: {detail}", rp)
            for (sig, detail, _x) in fails:
                if not sig.startswith("harness:"):
                    return Failure(sig, f"{sig}: {detail}", rp)
        return None


PROP = C20()
