"""C04 — object lock: one owner at a time, and only the owner gets through.

Model: lean/QmiModel/Model/Lock.lean (+ LockBase.lean, generated Gen/LockFsm.lean); theorems: Props/C04.lean.
Tie:   (1) translator: the real `_RpcThread._handle_lock_rpc_request` / `_handle_method_rpc_request` are *executed*
           on a stub thread object for every cell of the finite abstraction and written out as a Lean table;
       (2) op-history correspondence against real RPC objects in real QMI_Context instances connected over loopback
           TCP (sequential histories; every call bounded; contexts always stopped);
       (3) the property oracle (an ideal lock with globally unique automatic tokens) on every implementation trace.
"""
from __future__ import annotations

import hashlib
import inspect
import itertools
import logging
import threading
import time
import traceback
from typing import Optional

from harness import core
from harness.core import Broken, Ctx, Failure, LeanDriver, Prop, Result, diff_streams

GEN_FILE = core.LEAN / "QmiModel" / "Gen" / "LockFsm.lean"
GEN_TOKEN_FILE = core.LEAN / "QmiModel" / "Gen" / "TokenProg.lean"

_EXC = {"UnboundLocalError": "unboundLocalError", "ValueError": "valueError", "TypeError": "typeError",
        "AttributeError": "attributeError", "AssertionError": "assertionError", "NameError": "nameError",
        "KeyError": "keyError"}
_ACTS = ["ACQUIRE", "RELEASE", "FORCE_RELEASE", "QUERY"]
_ACT_LEAN = {"ACQUIRE": "acquire", "RELEASE": "release", "FORCE_RELEASE": "forceRelease", "QUERY": "query"}


class TranslatorError(Exception):
    pass


# ---------------------------------------------------------------------------
# translator: execute the real handlers on a stub thread object, cell by cell
# ---------------------------------------------------------------------------

def _mk_stub(rpc, srv_name: str, owner):
    """An `_RpcThread` that never became a thread: only the fields the two handlers read."""
    class _Obj:
        def __init__(self):
            self._name = "obj"
            self.count = 0

        def get_name(self):
            return self._name

        @rpc.rpc_method
        def bump(self):
            self.count += 1
            return self.count

    class _Cx:
        name = srv_name

    stub = object.__new__(rpc._RpcThread)
    stub._context = _Cx()
    stub._rpc_object = _Obj()
    stub._locking_token = owner
    return stub


def _token_variants(rpc, rng):
    """(T, U) pairs: U differs from T in the context name only / the token string only / both; random strings."""
    def rs():
        return "".join(rng.choice("abcxyz$_01") for _ in range(rng.randint(1, 6)))
    out = []
    for kind in ("ctx", "tok", "both", "ctx", "tok", "both"):
        c, t = rs(), rs()
        c2, t2 = c, t
        while c2 == c:
            c2 = rs()
        while t2 == t:
            t2 = rs()
        T = rpc.QMI_LockTokenDescriptor(c, t)
        U = rpc.QMI_LockTokenDescriptor(c2 if kind in ("ctx", "both") else c, t2 if kind in ("tok", "both") else t)
        out.append((kind, T, U))
    return out


def _classify_exc(e: BaseException) -> str:
    return "crash:" + type(e).__name__


def _run_lock_cell(rpc, msg, act_name: str, locked: bool, rel: str, T, U, srv_name: str) -> str:
    """Execute the real `_handle_lock_rpc_request` once; return the abstract cell as text `st/rep` or `crash:<Exc>`."""
    owner = T if locked else None
    # an *equal but not identical* copy, so that an identity comparison would show up as a different outcome
    req = {"none": None, "same": rpc.QMI_LockTokenDescriptor(str(T.context_id), str(T.token)), "other": U}[rel]
    stub = _mk_stub(rpc, srv_name, owner)
    src = msg.QMI_MessageHandlerAddress("cliX", "$future_1")
    dst = msg.QMI_MessageHandlerAddress(srv_name, "obj")
    request = rpc.QMI_LockRpcRequestMessage(src, dst, req, rpc.QMI_LockRpcAction[act_name])
    try:
        reply = rpc._RpcThread._handle_lock_rpc_request(stub, request)
    except BaseException as e:  # noqa — whatever escapes here escapes `_RpcThread.run` as well
        if isinstance(e, (KeyboardInterrupt, SystemExit)):
            raise
        return _classify_exc(e)
    if type(reply) is not rpc.QMI_LockRpcReplyMessage:
        raise TranslatorError(f"lock handler returned {type(reply).__name__}, not QMI_LockRpcReplyMessage")
    if (reply.request_id != request.request_id or reply.destination_address != src or reply.source_address != dst):
        raise TranslatorError(f"lock reply is not addressed to the requester ({act_name}, locked={locked}, rel={rel})")
    denied = rpc.QMI_LockTokenDescriptor(srv_name, rpc.ACCESS_DENIED_TOKEN_PLACEHOLDER)
    lockedph = rpc.QMI_LockTokenDescriptor(srv_name, rpc.OBJECT_LOCKED_TOKEN_PLACEHOLDER)
    new = stub._locking_token
    if new is None:
        st = "unlocked"
    elif owner is not None and new == owner:
        st = "keep"
    elif req is not None and new == req:
        st = "setReq"
    else:
        raise TranslatorError(f"new lock state {new!r} is neither None, the old owner nor the request token "
                              f"({act_name}, locked={locked}, rel={rel})")
    rt = reply.lock_token
    if rt is None:
        rep = "none"
    elif rt == denied:
        rep = "denied"
    elif rt == lockedph:
        rep = "lockedPh"
    elif owner is not None and rt == owner:
        rep = "owner"
    elif req is not None and rt == req:
        rep = "req"
    else:
        raise TranslatorError(f"reply token {rt!r} has an unknown origin ({act_name}, locked={locked}, rel={rel})")
    return f"{st}/{rep}"


def _run_guard_cell(rpc, msg, locked: bool, rel: str, T, U, srv_name: str) -> str:
    """Execute the real `_handle_method_rpc_request` once on the stub; `exec` / `refused` / `crash:<Exc>`."""
    owner = T if locked else None
    req = {"none": None, "same": rpc.QMI_LockTokenDescriptor(str(T.context_id), str(T.token)), "other": U}[rel]
    stub = _mk_stub(rpc, srv_name, owner)
    src = msg.QMI_MessageHandlerAddress("cliX", "$future_1")
    dst = msg.QMI_MessageHandlerAddress(srv_name, "obj")
    request = rpc.QMI_MethodRpcRequestMessage(src, dst, "bump", (), {}, req)
    try:
        reply = rpc._RpcThread._handle_method_rpc_request(stub, request)
    except BaseException as e:  # noqa
        if isinstance(e, (KeyboardInterrupt, SystemExit)):
            raise
        return _classify_exc(e)
    if type(reply) is not rpc.QMI_MethodRpcReplyMessage:
        raise TranslatorError(f"method handler returned {type(reply).__name__}")
    if (reply.request_id != request.request_id or reply.destination_address != src or reply.source_address != dst):
        raise TranslatorError("method reply is not addressed to the requester")
    if stub._locking_token != owner:
        raise TranslatorError("method dispatch changed the lock state")
    ran = stub._rpc_object.count
    S = rpc.QMI_RpcFutureState
    if reply.state == S.RESULT_IS_VALUE and ran == 1 and reply.result == 1:
        return "exec"
    if reply.state == S.OBJECT_IS_LOCKED and ran == 0 and reply.result is None:
        return "refused"
    raise TranslatorError(f"method dispatch cell locked={locked} rel={rel}: state={reply.state} body_ran={ran} "
                          f"result={reply.result!r} is neither a clean execution nor a clean refusal")


def build_tables(rng) -> dict:
    """Run every cell with several token values; raise TranslatorError if the outcome depends on more than the relation."""
    import qmi.core.rpc as rpc
    import qmi.core.messaging as msg
    acts = [a.name for a in rpc.QMI_LockRpcAction]
    if sorted(acts) != sorted(_ACTS):
        raise TranslatorError(f"QMI_LockRpcAction members changed: {acts}")
    if not (issubclass(rpc.QMI_LockTokenDescriptor, tuple) and rpc.QMI_LockTokenDescriptor._fields == ("context_id", "token")):
        raise TranslatorError("QMI_LockTokenDescriptor is no longer the (context_id, token) pair")
    logger = logging.getLogger("qmi.core.rpc")
    old_level = logger.level
    logger.setLevel(logging.CRITICAL + 1)
    try:
        lock_tbl, guard_tbl = {}, {}
        variants = _token_variants(rpc, rng)
        for srv_name in ("srv", variants[0][1].context_id):      # also a server whose name equals the token's context
            for (kind, T, U) in variants:
                for act in _ACTS:
                    for locked in (False, True):
                        for rel in ("none", "same", "other"):
                            cell = _run_lock_cell(rpc, msg, act, locked, rel, T, U, srv_name)
                            # unlocked: there is no owner, `same` and `other` both mean "some token"
                            key = (act, locked, "other" if (not locked and rel == "same") else rel)
                            prev = lock_tbl.setdefault(key, (cell, kind))
                            if prev[0] != cell:
                                raise TranslatorError(
                                    f"lock cell {key} depends on the token *values*, not only on ==/is None: "
                                    f"{prev[0]} (U differs in {prev[1]}) vs {cell} (U differs in {kind}; T={tuple(T)}, U={tuple(U)})")
                for locked in (False, True):
                    for rel in ("none", "same", "other"):
                        cell = _run_guard_cell(rpc, msg, locked, rel, T, U, srv_name)
                        key = (locked, "other" if (not locked and rel == "same") else rel)
                        prev = guard_tbl.setdefault(key, (cell, kind))
                        if prev[0] != cell:
                            raise TranslatorError(
                                f"dispatch-guard cell {key} depends on the token *values*: {prev[0]} (U differs in {prev[1]}) "
                                f"vs {cell} (U differs in {kind}; T={tuple(T)}, U={tuple(U)})")
    finally:
        logger.setLevel(old_level)
    src = inspect.getsource(rpc._RpcThread._handle_lock_rpc_request) + inspect.getsource(rpc._RpcThread._handle_method_rpc_request)
    return {
        "lock": {k: v[0] for k, v in lock_tbl.items()},
        "guard": {k: v[0] for k, v in guard_tbl.items()},
        "denied": rpc.ACCESS_DENIED_TOKEN_PLACEHOLDER,
        "lockedph": rpc.OBJECT_LOCKED_TOKEN_PLACEHOLDER,
        "sha": hashlib.sha256(src.encode()).hexdigest()[:16],
    }


def build_queue_facts() -> dict:
    """AST of `_RpcThread` (qmi/core/rpc.py): how the request queue is constructed and used.  The model has an unbounded FIFO
    (every delivered request is eventually handled, in order); anything else must fail the obligation or fail loudly here."""
    import ast
    tree = ast.parse((core.REPO / "qmi" / "core" / "rpc.py").read_text())
    consts = {}
    for node in tree.body:
        if isinstance(node, ast.Assign) and len(node.targets) == 1 and isinstance(node.targets[0], ast.Name) \
                and isinstance(node.value, ast.Constant) and isinstance(node.value.value, int):
            consts[node.targets[0].id] = node.value.value
    cls = next((n for n in tree.body if isinstance(n, ast.ClassDef) and n.name == "_RpcThread"), None)
    if cls is None:
        raise TranslatorError("class _RpcThread not found")
    for node in cls.body:
        if isinstance(node, ast.Assign) and len(node.targets) == 1 and isinstance(node.targets[0], ast.Name) \
                and isinstance(node.value, ast.Constant) and isinstance(node.value.value, int):
            consts["_RpcThread." + node.targets[0].id] = node.value.value
    sites, appends, pops, other = [], 0, 0, []
    for fn in cls.body:
        if not isinstance(fn, ast.FunctionDef):
            continue
        for st in ast.walk(fn):
            tgts = st.targets if isinstance(st, ast.Assign) else [st.target] if isinstance(st, (ast.AnnAssign, ast.AugAssign)) else []
            for tg in tgts:
                if _is_self_attr(tg, "_fifo"):
                    sites.append((fn.name, st))
            if isinstance(st, ast.Call) and isinstance(st.func, ast.Attribute) and _is_self_attr(st.func.value, "_fifo"):
                if st.func.attr == "append" and fn.name == "push_rpc_request" and len(st.args) == 1:
                    appends += 1
                elif st.func.attr == "popleft" and not st.args:
                    pops += 1
                else:
                    other.append(f"{fn.name}: _fifo.{st.func.attr}")
    if len(sites) != 1 or sites[0][0] != "__init__":
        raise TranslatorError(f"_fifo must be assigned exactly once, in _RpcThread.__init__; found {[(f, s_.lineno) for f, s_ in sites]}")
    v = sites[0][1].value
    if not (isinstance(v, ast.Call) and isinstance(v.func, ast.Name) and v.func.id == "deque"):
        raise TranslatorError(f"line {v.lineno}: the request queue is not a collections.deque: {ast.unparse(v)}")
    bound = None
    args = list(v.args[1:2]) + [k.value for k in v.keywords if k.arg == "maxlen"]
    if len(v.args) > 2 or any(k.arg not in ("maxlen",) for k in v.keywords) or (v.args and not (isinstance(v.args[0], (ast.List, ast.Tuple)) and not v.args[0].elts)):
        raise TranslatorError(f"line {v.lineno}: deque construction not understood: {ast.unparse(v)}")
    if args:
        a = args[0]
        if isinstance(a, ast.Constant) and a.value is None:
            bound = None
        elif isinstance(a, ast.Constant) and isinstance(a.value, int):
            bound = a.value
        elif isinstance(a, ast.Name) and a.id in consts:
            bound = consts[a.id]
        elif isinstance(a, ast.Attribute) and isinstance(a.value, ast.Name) and a.value.id in ("self", "_RpcThread") and ("_RpcThread." + a.attr) in consts:
            bound = consts["_RpcThread." + a.attr]
        else:
            raise TranslatorError(f"line {v.lineno}: maxlen of the request queue is not a literal or a known constant: {ast.unparse(a)}")
    if appends != 1 or pops < 1 or other:
        raise TranslatorError(f"request queue is not used as append/popleft FIFO: appends in push_rpc_request={appends}, popleft={pops}, other uses={other}")
    return {"bound": bound, "consts": {k: v_ for k, v_ in consts.items() if k.upper().startswith("MAX") or "MAX_" in k.upper()}}


def _lean_str(s: str) -> str:
    if not all(32 <= ord(c) < 127 and c not in '"\\' for c in s):
        raise TranslatorError(f"placeholder string {s!r} is not plain ASCII")
    return '"' + s + '"'


def _lean_cell(cell: str) -> str:
    if cell.startswith("crash:"):
        return f".crash .{_EXC.get(cell[6:], 'other')}"
    st, rep = cell.split("/")
    return f".ok .{st} .{rep}"


def _lean_gcell(cell: str) -> str:
    if cell.startswith("crash:"):
        return f".crash .{_EXC.get(cell[6:], 'other')}"
    return "." + cell


def render_gen(t: dict) -> str:
    L = []
    L.append("import QmiModel.Model.LockBase")
    L.append("/-!")
    L.append("# GENERATED by harness/props/c04.py:translate() — do not edit")
    L.append("")
    L.append("Outcome of executing the real `_RpcThread._handle_lock_rpc_request` and `_handle_method_rpc_request`")
    L.append("(qmi/core/rpc.py) on a stub thread object, for every cell of")
    L.append("action × locked? × (request token vs owner).  When the object is unlocked there is no owner, so")
    L.append("`same` cannot occur; the entry repeats `other`.")
    L.append("-/")
    L.append("namespace QmiModel.Gen.LockFsm")
    L.append("open QmiModel.Lock")
    L.append("")
    L.append("def table : Act → Bool → Rel → Cell")
    for act in _ACTS:
        for locked in (False, True):
            for rel in ("none", "same", "other"):
                key = (act, locked, "other" if (not locked and rel == "same") else rel)
                cell = t["lock"][key]
                note = f"   -- {cell[6:]}" if cell.startswith("crash:") else ""
                L.append(f"  | .{_ACT_LEAN[act]}, {'true' if locked else 'false'}, .{rel} => {_lean_cell(cell)}{note}")
    L.append("")
    L.append("def guard : Bool → Rel → GCell")
    for locked in (False, True):
        for rel in ("none", "same", "other"):
            key = (locked, "other" if (not locked and rel == "same") else rel)
            L.append(f"  | {'true' if locked else 'false'}, .{rel} => {_lean_gcell(t['guard'][key])}")
    L.append("")
    q = t.get("queue", {"bound": None, "consts": {}})
    L.append("/-- `maxlen` of the worker's request queue `_RpcThread._fifo` (a `collections.deque` filled by `append` in")
    L.append("`push_rpc_request`, emptied by `popleft`), from the AST; `none` = unbounded."
             + (f"  MAX_* constants of rpc.py: {q['consts']}" if q["consts"] else "") + " -/")
    L.append(f"def workerQueueBound : Option Nat := {'none' if q['bound'] is None else 'some ' + str(q['bound'])}")
    L.append("")
    L.append(f"def deniedPlaceholder : String := {_lean_str(t['denied'])}")
    L.append(f"def lockedPlaceholder : String := {_lean_str(t['lockedph'])}")
    L.append("")
    L.append("end QmiModel.Gen.LockFsm")
    return "\n".join(L) + "\n"


# ---------------------------------------------------------------------------
# translator 2: statement list of QMI_Context.make_unique_token from its AST -> Gen/TokenProg.lean
# ---------------------------------------------------------------------------

def _is_self_attr(node, attr: str) -> bool:
    import ast
    return (isinstance(node, ast.Attribute) and node.attr == attr and isinstance(node.value, ast.Name) and node.value.id == "self")


def build_token_prog() -> dict:
    """Reads the *current* source of make_unique_token; every statement must be one the model knows."""
    import ast
    src = (core.REPO / "qmi" / "core" / "context.py").read_text()
    fn = None
    for node in ast.walk(ast.parse(src)):
        if isinstance(node, ast.ClassDef) and node.name == "QMI_Context":
            for m in node.body:
                if isinstance(m, ast.FunctionDef) and m.name == "make_unique_token":
                    fn = m
    if fn is None:
        raise TranslatorError("QMI_Context.make_unique_token not found")
    argnames = [a.arg for a in fn.args.args]
    if argnames != ["self", "prefix"]:
        raise TranslatorError(f"make_unique_token arguments changed: {argnames}")
    prog = []
    shape = None

    def stmt(st, inside_lock: bool):
        nonlocal shape
        if isinstance(st, ast.Expr) and isinstance(st.value, ast.Constant) and isinstance(st.value.value, str):
            return                                                       # docstring
        if isinstance(st, ast.With):
            if len(st.items) != 1 or st.items[0].optional_vars is not None or not _is_self_attr(st.items[0].context_expr, "_unique_counters_lock"):
                raise TranslatorError(f"line {st.lineno}: `with` on something else than self._unique_counters_lock")
            prog.append("acquire")
            for b in st.body:
                stmt(b, True)
            prog.append("release")
            return
        if isinstance(st, ast.Assign) and len(st.targets) == 1:
            tg, v = st.targets[0], st.value
            # nr = self._unique_counters.get(prefix, 0) + 1
            if (isinstance(tg, ast.Name) and tg.id == "nr" and isinstance(v, ast.BinOp) and isinstance(v.op, ast.Add)
                    and isinstance(v.right, ast.Constant) and v.right.value == 1 and isinstance(v.left, ast.Call)
                    and isinstance(v.left.func, ast.Attribute) and v.left.func.attr == "get"
                    and _is_self_attr(v.left.func.value, "_unique_counters") and len(v.left.args) == 2
                    and isinstance(v.left.args[0], ast.Name) and v.left.args[0].id == "prefix"
                    and isinstance(v.left.args[1], ast.Constant) and v.left.args[1].value == 0 and not v.left.keywords):
                prog.append("read")
                return
            # self._unique_counters[prefix] = nr
            if (isinstance(tg, ast.Subscript) and _is_self_attr(tg.value, "_unique_counters") and isinstance(tg.slice, ast.Name)
                    and tg.slice.id == "prefix" and isinstance(v, ast.Name) and v.id == "nr"):
                prog.append("write")
                return
        if isinstance(st, ast.Return) and isinstance(st.value, ast.Call) and isinstance(st.value.func, ast.Name) \
                and st.value.func.id == "QMI_LockTokenDescriptor" and len(st.value.args) == 2 and not st.value.keywords \
                and _is_self_attr(st.value.args[0], "name"):
            parts = []

            def mentions_nr(e):
                return any(isinstance(x, ast.Name) and x.id == "nr" for x in ast.walk(e))

            def how(e, spec=""):
                txt = (ast.unparse(e) + (":" + spec if spec else ""))
                return "".join(ch if (32 <= ord(ch) < 127 and ch not in '"\\') else "?" for ch in txt)[:80]

            def field(e, spec="", conv=None):
                """one value put into the string, with its format spec"""
                plain = spec in ("", "s") and conv in (None, "s")
                if isinstance(e, ast.Name) and e.id == "prefix" and plain:
                    parts.append(".pfx")
                elif _is_self_attr(e, "_instance_id") and plain:
                    parts.append(".instanceId")
                elif isinstance(e, ast.Constant) and isinstance(e.value, str) and plain:
                    if e.value:
                        parts.append(".lit " + _lean_str(e.value))
                elif isinstance(e, ast.Name) and e.id == "nr" and spec in ("", "d") and conv in (None, "s", "r"):
                    parts.append(".counter")                                   # "{}".format(nr), f"{nr}", "%d" % nr
                elif (isinstance(e, ast.Call) and isinstance(e.func, ast.Name) and e.func.id in ("str", "repr") and len(e.args) == 1
                      and isinstance(e.args[0], ast.Name) and e.args[0].id == "nr" and not e.keywords and plain):
                    parts.append(".counter")
                elif mentions_nr(e):
                    parts.append(".counterOther " + _lean_str(how(e, spec)))    # rendered some other way: for the obligation to judge
                else:
                    raise TranslatorError(f"line {e.lineno}: unknown part of the token string: {ast.unparse(e)}")

            def flat(e):
                import string as _string
                if isinstance(e, ast.BinOp) and isinstance(e.op, ast.Add):
                    flat(e.left)
                    flat(e.right)
                elif isinstance(e, ast.JoinedStr):                              # f"...{x:spec}..."
                    for v in e.values:
                        if isinstance(v, ast.Constant):
                            field(v)
                        else:
                            spec = "".join(x.value for x in v.format_spec.values if isinstance(x, ast.Constant)) if v.format_spec else ""
                            field(v.value, spec, {-1: None, 115: "s", 114: "r", 97: "a"}.get(v.conversion))
                elif (isinstance(e, ast.Call) and isinstance(e.func, ast.Attribute) and e.func.attr == "format"
                      and isinstance(e.func.value, ast.Constant) and isinstance(e.func.value.value, str) and not e.keywords):
                    auto = 0
                    for (lit, name, spec, conv) in _string.Formatter().parse(e.func.value.value):   # "..{}..{:04x}".format(a, b)
                        if lit:
                            field(ast.Constant(value=lit, lineno=e.lineno))
                        if name is None:
                            continue
                        if name == "":
                            idx, auto = auto, auto + 1
                        elif name.isdigit():
                            idx = int(name)
                        else:
                            raise TranslatorError(f"line {e.lineno}: format field {name!r} not understood")
                        if idx >= len(e.args):
                            raise TranslatorError(f"line {e.lineno}: format field {idx} has no argument")
                        field(e.args[idx], spec or "", conv)
                else:
                    field(e)
            flat(st.value.args[1])
            shape = parts
            prog.append("ret")
            return
        raise TranslatorError(f"make_unique_token line {st.lineno}: statement not understood: {ast.unparse(st)[:120]}")

    for st in fn.body:
        stmt(st, False)
    if shape is None:
        raise TranslatorError("make_unique_token has no recognised return statement")
    return {"prog": prog, "shape": shape}


_OS_ENTROPY = {("os", "urandom"), ("secrets", "token_bytes"), ("secrets", "token_hex"), ("secrets", "token_urlsafe"),
               ("secrets", "randbits"), ("uuid", "uuid4"), ("os", "getrandom")}
_NEUTRAL_CALLS = {"str", "format", "hex", "int", "repr", "bytes", "bytearray"}
_NEUTRAL_METHODS = {"hex", "format", "decode", "encode", "upper", "lower", "zfill", "rjust", "ljust", "join"}


def build_instance_id_sources() -> list:
    """Classify where QMI_Context._instance_id comes from.  Exactly one assignment, in __init__; every call in its value must be
    one the classifier knows (OS entropy / global PRNG / clock / pid / id()), else TranslatorError."""
    import ast
    tree = ast.parse((core.REPO / "qmi" / "core" / "context.py").read_text())
    alias = {}            # local name -> dotted module path or (module, attr)
    for node in ast.walk(tree):
        if isinstance(node, ast.Import):
            for a in node.names:
                alias[(a.asname or a.name).split(".")[0] if a.asname is None else a.asname] = (a.name if a.asname else a.name.split(".")[0],)
        elif isinstance(node, ast.ImportFrom) and node.module:
            for a in node.names:
                alias[a.asname or a.name] = (node.module, a.name)
    sites = []
    for cls in ast.walk(tree):
        if not isinstance(cls, ast.ClassDef):
            continue
        for fn in ast.walk(cls):
            if not isinstance(fn, (ast.FunctionDef, ast.AsyncFunctionDef)):
                continue
            for st in ast.walk(fn):
                targets = st.targets if isinstance(st, ast.Assign) else [st.target] if isinstance(st, (ast.AugAssign, ast.AnnAssign)) else []
                for tg in targets:
                    for sub in ast.walk(tg):
                        if isinstance(sub, ast.Attribute) and sub.attr == "_instance_id":
                            sites.append((cls.name, fn.name, st))
    for node in ast.walk(tree):
        if isinstance(node, ast.Call) and isinstance(node.func, ast.Name) and node.func.id == "setattr" and len(node.args) >= 2 \
                and isinstance(node.args[1], ast.Constant) and node.args[1].value == "_instance_id":
            raise TranslatorError(f"line {node.lineno}: _instance_id is written through setattr()")
    if len(sites) != 1 or sites[0][:2] != ("QMI_Context", "__init__") or not isinstance(sites[0][2], (ast.Assign, ast.AnnAssign)):
        raise TranslatorError(f"_instance_id must be assigned exactly once, in QMI_Context.__init__; found {[(c, f, s.lineno) for c, f, s in sites]}")
    value = sites[0][2].value
    if value is None:
        raise TranslatorError("_instance_id is declared without a value")

    def dotted(e):
        if isinstance(e, ast.Name):
            return alias.get(e.id, (e.id,)) if e.id in alias else ("<local>", e.id)
        if isinstance(e, ast.Attribute):
            base = dotted(e.value)
            return None if base is None else base + (e.attr,)
        if isinstance(e, ast.Call):                       # e.g. random.SystemRandom().getrandbits
            base = dotted(e.func)
            return None if base is None else base + ("()",)
        return None

    def const_int(args, default):
        if args and isinstance(args[0], ast.Constant) and isinstance(args[0].value, int):
            return args[0].value
        if not args:
            return default
        raise TranslatorError(f"line {value.lineno}: size argument of the entropy call is not a literal")

    src = []

    def visit(e):
        if isinstance(e, ast.Call):
            d = dotted(e.func)
            handled = False
            if isinstance(e.func, ast.Attribute) and e.func.attr in _NEUTRAL_METHODS and (d is None or "()" in d or d[0] == "<local>"):
                handled = True                             # "{:012x}".format(...), (...).hex(), x.encode()
            elif d is not None:
                mod, name = d[0], d[-1]
                if d[:2] == ("random", "SystemRandom") and len(d) >= 4:
                    n = const_int(e.args, 0)
                    src.append(f".osEntropy {n // 8 if name == 'getrandbits' else n}")
                    handled = True
                elif d == ("random", "SystemRandom"):
                    handled = True                         # the generator object itself; the draw is classified above
                elif (mod, name) in _OS_ENTROPY and len(d) == 2:
                    n = {"uuid4": 15, "randbits": None}.get(name, None)
                    if name == "uuid4":
                        src.append(".osEntropy 15")
                    elif name == "randbits":
                        src.append(f".osEntropy {const_int(e.args, 0) // 8}")
                    else:
                        src.append(f".osEntropy {const_int(e.args, 32)}")
                    handled = True
                elif mod in ("random", "numpy") or d[:2] == ("numpy", "random"):
                    src.append(".globalPrng")
                    handled = True
                elif mod in ("time", "datetime") or d == ("uuid", "uuid1"):
                    src.append(".clock")
                    handled = True
                elif d in (("os", "getpid"), ("os", "getppid"), ("threading", "get_ident"), ("threading", "get_native_id")):
                    src.append(".pid")
                    handled = True
                elif d == ("<local>", "id"):
                    src.append(".objectId")
                    handled = True
                elif d[0] == "<local>" and len(d) == 2 and d[1] in _NEUTRAL_CALLS:
                    handled = True
                elif name in _NEUTRAL_METHODS and isinstance(e.func, ast.Attribute):
                    handled = True                         # "{:012x}".format(...), (...).hex()
            if not handled:
                raise TranslatorError(f"line {e.lineno}: the value of _instance_id calls something the classifier does not know: {ast.unparse(e.func)}")
            for a in list(e.args) + [k.value for k in e.keywords]:
                visit(a)
            if isinstance(e.func, ast.Attribute):
                visit(e.func.value)
            return
        if isinstance(e, ast.Attribute):
            if isinstance(e.value, ast.Name) and e.value.id == "self":
                src.append(".clientState")
                return
            d = dotted(e)
            if d is not None and "()" not in d and d[0] != "<local>":
                return                                    # a module attribute on the way to a call (handled there)
            visit(e.value)                                # e.g. uuid.uuid4().hex
            return
        if isinstance(e, ast.Name):
            if e.id in alias or e.id in ("self",):
                return
            src.append(".clientState")                     # some other local / global value
            return
        for ch in ast.iter_child_nodes(e):
            if isinstance(ch, ast.expr):
                visit(ch)

    visit(value)
    if not src:
        src.append(".clientState")                          # a constant
    return src


def render_token_gen(t: dict) -> str:
    return ("import QmiModel.Model.TokenProg\n/-!\n# GENERATED by harness/props/c04.py:translate() — do not edit\n\n"
            "Statement list of `QMI_Context.make_unique_token` (qmi/core/context.py) read from its AST: the\n"
            "`with self._unique_counters_lock:` block is `acquire … release`; `shape` is the token string expression.\n-/\n"
            "namespace QmiModel.Gen.TokenProg\nopen QmiModel.TokenProg\n"
            f"def prog : List Instr := [{', '.join('.' + p for p in t['prog'])}]\n"
            f"def shape : List TokPart := [{', '.join(t['shape'])}]\n"
            "/-- sources of `QMI_Context._instance_id` (its single assignment, in `__init__`) -/\n"
            f"def idSources : List IdSource := [{', '.join(t['id_sources'])}]\n"
            "end QmiModel.Gen.TokenProg\n")


# ---------------------------------------------------------------------------
# running histories on the real code
# ---------------------------------------------------------------------------
#
# history = {"srv": name, "ctxs": [client context names], "proxies": [context index per proxy; 0 = owning context],
#            "ops": [["lock", p, custom|None], ["unlock", p, custom|None], ["force", p], ["islocked", p],
#                    ["call", p, "b"|"n"], ["burn", ctxidx]]}

HARD_WAIT = 5.0       # a reply that takes longer than this is a hang (never reached on the unchanged tree)
HARD_WAIT_AFTER = 0.25# ... and once HARD_BUDGET such hangs were seen in a run, nobody is waited for longer than this
HARD_BUDGET = 2
GRACE = 0.02          # how long a caller is left waiting after the object's worker thread was seen dead
AFTER_DEATH_OPS = 1   # ops still issued after the worker died (they must all go unanswered)
RESERVED = ("__ACCESS_DENIED__", "__OBJECT_LOCKED__")

_state = {"world": None, "obj_class": None, "obj_class_mod": None}


def _obj_class():
    import qmi.core.rpc as rpc
    if _state["obj_class"] is None or _state["obj_class_mod"] is not rpc:
        class C04TestObject(rpc.QMI_RpcObject):
            registry: dict = {}

            def __init__(self, context, name):
                super().__init__(context, name)
                self.count = 0
                self.entered = threading.Event()       # a `hold()` call is inside the body (the worker is parked)
                self.release = threading.Event()       # set by the harness to let it go
                C04TestObject.registry[(id(context), name)] = self

            @rpc.rpc_method
            def hold(self):
                self.count += 1
                n = self.count
                self.entered.set()
                self.release.wait(30.0)
                return n

            @rpc.rpc_method
            def bump(self):
                self.count += 1
                return self.count

            @rpc.rpc_method
            def __enter__(self):            # `with proxy:` is two ordinary RPC calls, subject to the lock like any other
                self.count += 1
                return self.count

            @rpc.rpc_method
            def __exit__(self, *args):
                self.count += 1
                return self.count

        _state["obj_class"] = C04TestObject
        _state["obj_class_mod"] = rpc
    return _state["obj_class"]


class _Instrumented:
    """Outside instrumentation, installed for the duration of a run (no edit to the tree under test):
    * `QMI_RpcFuture.wait(None)` becomes a bounded wait that gives up early once the target's worker thread is dead;
    * `threading.excepthook` records what killed a worker thread (instead of printing it);
    * `QMI_Context.make_unique_token` is wrapped to log every automatically generated token per context instance;
    * logging of qmi.* is silenced."""

    def __init__(self, silence: bool = True):
        self.silence = silence       # False: the logging configuration under test stays in force

    def __enter__(self):
        import qmi.core.rpc as rpc
        import qmi.core.context as qctx
        self.rpc, self.qctx = rpc, qctx
        self.orig_wait = rpc.QMI_RpcFuture.wait
        self.orig_hook = threading.excepthook
        self.orig_mut = qctx.QMI_Context.make_unique_token
        self.thread_deaths = {}
        self.hard_timeouts = 0
        orig_wait, orig_mut = self.orig_wait, self.orig_mut
        NO_RESULT = rpc.QMI_RpcFutureState.NO_RESULT_YET

        def bounded_wait(fut, timeout=None):
            if timeout is not None:
                return orig_wait(fut, timeout)
            cv = getattr(fut, "_cv", None)
            if cv is None or not hasattr(fut, "_state"):
                return orig_wait(fut, HARD_WAIT)
            world = _state["world"]
            deadline = time.monotonic() + (HARD_WAIT if self.hard_timeouts < HARD_BUDGET else HARD_WAIT_AFTER)
            dead_since = None
            with cv:
                while fut._state == NO_RESULT:
                    now = time.monotonic()
                    if now > deadline:
                        self.hard_timeouts += 1
                        break
                    w = world.worker_of(fut.rpc_object_address) if world is not None else None
                    if w is not None and not w.is_alive():
                        if dead_since is None:
                            dead_since = now
                        elif now - dead_since > GRACE:
                            break
                        cv.wait(0.004)
                    else:
                        cv.wait(0.02)
            if fut._state == NO_RESULT:
                return orig_wait(fut, 0.0)      # raises QMI_RpcTimeoutException and unregisters the future
            return orig_wait(fut, None)

        def hook(args):
            self.thread_deaths[args.thread] = args.exc_type.__name__ if args.exc_type else "?"

        def logged_mut(cx, prefix="$lock_"):
            tok = orig_mut(cx, prefix) if prefix != "$lock_" else orig_mut(cx)
            world = _state["world"]
            if world is not None and prefix == "$lock_":
                world.auto_log.append((world.ctx_index(cx), tok))
            return tok

        rpc.QMI_RpcFuture.wait = bounded_wait
        threading.excepthook = hook
        qctx.QMI_Context.make_unique_token = logged_mut
        self.prev_disable = logging.root.manager.disable
        if self.silence:
            logging.disable(logging.CRITICAL)
        _state["instr"] = self
        return self

    def __exit__(self, *a):
        self.rpc.QMI_RpcFuture.wait = self.orig_wait
        threading.excepthook = self.orig_hook
        self.qctx.QMI_Context.make_unique_token = self.orig_mut
        logging.disable(self.prev_disable)
        _state["instr"] = None
        _state["world"] = None
        return False


def _show_tok(t) -> str:
    if t is None:
        return "-"
    try:
        return f"{t.context_id}/{t.token}"
    except AttributeError:
        return "?" + repr(t)


ALIGN_SEED = 1234


class _aligned_process_state:
    """Everything a client program can bring into the same state twice is brought into the same state while a context is
    constructed: the global `random` generator (and numpy's, if imported) is re-seeded, the wall clock and the pid are
    frozen.  Two runs of one script that starts with `random.seed(1234)` look like this to QMI_Context.__init__.  Whatever
    makes context instances distinguishable must survive it."""

    def __init__(self, k):
        self.k = k

    def __enter__(self):
        import os as _os
        import random as _random
        import sys as _sys
        import time as _time
        if self.k is None:
            return self
        self.saved = (_random.getstate(), _time.time, _time.time_ns, _os.getpid)
        _random.seed(self.k)
        np = _sys.modules.get("numpy")
        self.np_state = None
        if np is not None:
            try:
                self.np_state = np.random.get_state()
                np.random.seed(self.k)
            except Exception:
                self.np_state = None
        _time.time = lambda: 1700000000.0
        _time.time_ns = lambda: 1700000000 * 10 ** 9
        _os.getpid = lambda: 4242
        return self

    def __exit__(self, *a):
        import os as _os
        import random as _random
        import sys as _sys
        import time as _time
        if self.k is None:
            return False
        _random.setstate(self.saved[0])
        _time.time, _time.time_ns, _os.getpid = self.saved[1], self.saved[2], self.saved[3]
        if self.np_state is not None:
            _sys.modules["numpy"].random.set_state(self.np_state)
        return False


class _World:
    def __init__(self, hist: dict):
        self.hist = hist
        self.contexts = []
        self.proxies = []
        self.burners = {}
        self.auto_log = []
        self.workers = {}
        self.owner_proxy = {}
        self.pctx = list(hist["proxies"])
        self.obj = None

    def ctx_index(self, cx) -> int:
        for i, c in enumerate(self.contexts):
            if c is cx:
                return i
        return -1

    def worker_of(self, address):
        return self.workers.get(getattr(address, "object_id", None))

    def _make_object(self, name):
        import qmi.core.rpc as rpc
        before = set(threading.enumerate())
        self.owner_proxy[name] = self.srv.make_rpc_object(name, _obj_class())
        new = [t for t in threading.enumerate() if t not in before and isinstance(t, rpc._RpcThread)]
        if len(new) != 1:
            raise RuntimeError(f"expected exactly one new _RpcThread for {name}, saw {len(new)}")
        self.workers[name] = new[0]
        if name == "obj":
            self.obj = _obj_class().registry[(id(self.srv), "obj")]

    def start(self):
        from qmi.core.config_defs import CfgQmi, CfgContext
        from qmi.core.context import QMI_Context
        from qmi.core.messaging import QMI_MessageHandlerAddress
        h = self.hist
        srvn = h["srv"]
        _state["world"] = self
        self.align = h.get("align", ALIGN_SEED)
        with _aligned_process_state(self.align):
            self.srv = QMI_Context(srvn, CfgQmi(contexts={srvn: CfgContext(tcp_server_port=0)}))
        self.contexts.append(self.srv)
        self.srv.start()
        self._make_object("obj")
        self._make_object("other")
        self.obj = _obj_class().registry[(id(self.srv), "obj")]
        self.obj_addr = QMI_MessageHandlerAddress(srvn, "obj")
        port = self.srv.get_tcp_server_port()
        for nm in h["ctxs"]:
            with _aligned_process_state(self.align):
                c = QMI_Context(nm)
            self.contexts.append(c)
            c.start()
            c.connect_to_peer(srvn, f"127.0.0.1:{port}")
        for ci in h["proxies"]:
            self.proxies.append(self.contexts[ci].get_rpc_object_by_name(f"{srvn}.obj"))

    def stop(self):
        _state["world"] = None
        # the harness's own clean-up must not depend on the logging configuration under test (a wedged log filter would
        # block the INFO lines of context.stop() for ever), nor on a worker that is alive but stuck (context.stop() joins it)
        prev_disable = logging.root.manager.disable
        logging.disable(logging.CRITICAL)
        try:
            stuck = [nm for nm, t in self.workers.items() if t.is_alive()] if getattr(self, "stuck", False) else []
            for c in reversed(self.contexts):
                try:
                    if c is getattr(self, "srv", None) and stuck:
                        # leave the owning context alone (daemon threads); only cut its connections so that clients can go
                        try:
                            c._message_router.stop()
                        except Exception:
                            pass
                        continue
                    if getattr(c, "_active", True):
                        c.stop()
                except Exception:
                    pass
        finally:
            logging.disable(prev_disable)
        reg = _obj_class().registry
        reg.pop((id(self.srv), "obj"), None)
        reg.pop((id(self.srv), "other"), None)

    # -- one operation -------------------------------------------------------------------------
    def do_op(self, op) -> str:
        from qmi.core.exceptions import QMI_RpcTimeoutException, QMI_RuntimeException
        kind = op[0]
        try:
            if kind == "recreate":          # the owning context removes the object and creates it again under the same name
                self.srv.remove_rpc_object(self.owner_proxy["obj"])
                self._make_object("obj")
                return "ok"
            if kind == "pause":             # time passes (the stepped clock of the logging slice is advanced; nothing else happens)
                hook = _state.get("pause_hook")
                if hook is not None:
                    hook()
                return "ok"
            if kind == "setcounter":        # stands for (value - counter) further make_unique_token() calls in that context
                cx = self.contexts[op[1]]
                with cx._unique_counters_lock:
                    if cx._unique_counters.get("$lock_", 0) > op[2]:
                        return "bad-op"
                    cx._unique_counters["$lock_"] = op[2]
                return "ok"
            if kind == "stopctx":           # a client context disconnects
                self.contexts[op[1]].stop()
                return "ok"
            if kind == "newctx":
                from qmi.core.context import QMI_Context
                with _aligned_process_state(self.align):
                    c = QMI_Context(op[1])
                self.contexts.append(c)
                c.start()
                c.connect_to_peer(self.hist["srv"], f"127.0.0.1:{self.srv.get_tcp_server_port()}")
                return str(len(self.contexts) - 1)
            if kind == "newproxy":
                self.proxies.append(self.contexts[op[1]].get_rpc_object_by_name(f"{self.hist['srv']}.obj"))
                self.pctx.append(op[1])
                return str(len(self.proxies) - 1)
            if kind == "burn":
                ci = op[1]
                if ci not in self.burners:
                    self.burners[ci] = self.contexts[ci].get_rpc_object_by_name(f"{self.hist['srv']}.other")
                self.burners[ci].lock()
                return "ok"
            px = self.proxies[op[1]]
            if kind == "locktimeout":       # lock(timeout > 0): polls every 100 ms (real time here); one token, denied throughout
                r = px.lock(timeout=op[2] / 1000.0)
            elif kind == "lock":
                r = px.lock(lock_token=op[2])
            elif kind == "unlock":
                r = px.unlock(lock_token=op[2])
            elif kind == "force":
                r = px.force_unlock()
                return "ok" if r is None else f"val:{r!r}"
            elif kind == "islocked":
                r = px.is_locked()
            elif kind == "call":
                if op[2] == "n":
                    r = px.rpc_nonblocking.bump().wait()
                elif op[2] == "w":          # the context-manager form: RPC __enter__, then RPC __exit__
                    with px as entered:
                        if entered is not px:
                            return "val:with-returned-something-else"
                    r = self.obj.count
                else:
                    r = px.bump()
                return f"ran {r}"
            else:
                raise ValueError(f"bad op {op!r}")
            return "true" if r is True else "false" if r is False else f"val:{r!r}"
        except QMI_RpcTimeoutException:
            return "hang"
        except QMI_RuntimeException as e:
            if kind == "call" and type(e) is QMI_RuntimeException and "locked" in str(e):
                return "locked"
            return f"exc:{type(e).__name__}"
        except Exception as e:  # noqa
            return f"exc:{type(e).__name__}"

    def probe(self) -> str:
        """Liveness: a raw QUERY from the owning context (token None), bounded."""
        import qmi.core.rpc as rpc
        from qmi.core.exceptions import QMI_RpcTimeoutException
        fut = rpc.QMI_RpcFuture(self.srv, self.obj_addr, None)
        fut.send_lock_rpc_request_message(rpc.QMI_LockRpcAction.QUERY)
        try:
            fut.wait()
        except QMI_RpcTimeoutException:
            w = self.workers["obj"]
            if w.is_alive():
                self.stuck = True
                return "stuck"
            return "dead:" + _state["instr"].thread_deaths.get(w, "?")
        except Exception as e:  # noqa
            return f"exc:{type(e).__name__}"
        return f"alive {self.obj.count}"

    def owner(self):
        return self.workers["obj"]._locking_token

    def toks(self, p):
        px = self.proxies[p]
        return (px._lock_token, px.rpc_nonblocking._lock_token)


def _op_line(op) -> str:
    k = op[0]
    if k in ("lock", "unlock"):
        return f"{k} {op[1]} " + ("-" if op[2] is None else "=" + op[2])
    if k == "call":
        return f"call {op[1]} {op[2]}"
    if k == "recreate":
        return "recreate"
    if k == "setcounter":
        return f"burnto {op[1]} {op[2]}"
    if k == "locktimeout":              # to the model: one token made, every attempt denied or the first one granted
        return f"lock {op[1]} -"
    if k == "pause":
        return "probe"
    return f"{k} {op[1]}"


def run_history(hist: dict):
    """Run one history on the real code (inside `_Instrumented`).  Returns (driver lines, impl outputs, trace)."""
    w = _World(hist)
    lines, outs, trace = [], [], []
    try:
        w.start()
        # `_instance_id` (the per-instance part of automatic tokens) is read from the real context and handed to the model;
        # a tree without it is run with an empty one (the token format then differs: broken correspondence, oracle decides)
        nonce = [getattr(c, "_instance_id", "") or "-" for c in w.contexts]
        lines.append(f"init {hist['srv']} {nonce[0]}")
        outs.append("ok")
        for i, nm in enumerate(hist["ctxs"]):
            lines.append(f"ctx {nm} {nonce[i + 1]}")
            outs.append(str(i + 1))
        for i, ci in enumerate(hist["proxies"]):
            lines.append(f"proxy {ci}")
            outs.append(str(i))
        dead_ops = 0
        for op in hist["ops"]:
            owner_before = w.owner()
            count_before = w.obj.count
            n_auto = len(w.auto_log)
            out = w.do_op(op)
            pr = w.probe()
            owner_after = w.owner()
            if op[0] == "newctx":
                lines += [f"ctx {op[1]} " + (getattr(w.contexts[-1], "_instance_id", "") or "-"), "probe", "owner"]
            elif op[0] == "newproxy":
                lines += [f"proxy {op[1]}", "probe", "owner"]
            elif op[0] == "call" and op[2] == "w":
                # model: two blocking calls if the first one got through, else one refused call
                if out.startswith("ran "):
                    lines += [f"call {op[1]} b", f"call {op[1]} b", "probe", "owner"]
                    outs += [f"ran {count_before + 1}"]
                else:
                    lines += [f"call {op[1]} b", "probe", "owner"]
            else:
                lines += [_op_line(op), "probe", "owner"]
            outs += [out, pr, _show_tok(owner_after)]
            ev = {"op": list(op), "out": out, "probe": pr, "owner_before": owner_before, "owner_after": owner_after,
                  "count_before": count_before, "count_after": w.obj.count, "auto": list(w.auto_log[n_auto:])}
            if op[0] in ("newctx", "newproxy") and not out.isdigit():
                # the context could not connect / the proxy could not be made (bounded wait expired, exception): the history
                # ends here, the oracle reports it
                trace.append(ev)
                break
            if op[0] == "pause":
                lines.pop(-3)                            # no model step for the passing of time: only `probe`, `owner`
                outs.pop(-3)
            if op[0] not in ("burn", "recreate", "stopctx", "newctx", "newproxy", "setcounter", "pause") and op[1] < len(w.proxies):
                t = w.toks(op[1])
                ev["toks"] = t
                lines.append(f"tok {op[1]}")
                outs.append(_show_tok(t[0]) + " " + _show_tok(t[1]))
                if (op[0] == "lock" and op[2] is None) or op[0] == "locktimeout":
                    ci = w.pctx[op[1]]
                    lines.append(f"counter {ci}")
                    outs.append(str(w.contexts[ci]._unique_counters.get("$lock_", 0)))
            trace.append(ev)
            if out == "hang" and pr.startswith("alive"):
                break                                    # an unanswered request with a live worker: everything after it is a consequence
            if not pr.startswith("alive"):
                dead_ops += 1
                if dead_ops > AFTER_DEATH_OPS:
                    break
    finally:
        w.stop()
    return lines, outs, trace


# ---------------------------------------------------------------------------
# the property oracle — the statement of C04 evaluated directly on an implementation trace
# ---------------------------------------------------------------------------
#
# Ideal lock: an *ownership period* starts when a lock() is granted on a free object and ends with a release.  Its
# grant is either automatic (unique per lock() call, by definition) or custom = (context NAME, string) — sharing a
# custom token between same-named contexts is the documented, deliberate way to share a lock.  A proxy is *entitled*
# in a period when one of its lock() calls was granted in that period.  The true lock state is read from
# `_RpcThread._locking_token` (the state named by the property's anchors); results of lock()/unlock()/is_locked(),
# whether the body ran (counter on the test object) and the liveness probe come from the real calls.

def _ckind(custom) -> str:
    if custom is None:
        return "auto"
    return f"custom[{custom}]" if custom in RESERVED else "custom"


def oracle(hist: dict, trace: list):
    """Returns a list of (signature, detail, op index).  Token collisions are reported without stopping; the first
    behavioural failure ends the evaluation (everything after it is a consequence)."""
    names = [hist["srv"]] + list(hist["ctxs"])
    pctx = list(hist["proxies"])
    for ev in trace:                       # contexts / proxies created during the history
        if ev["op"][0] == "newctx":
            names.append(ev["op"][1])
        elif ev["op"][0] == "newproxy":
            pctx.append(ev["op"][1])
    fails = []

    def ctxrel(ci, cj):
        if ci == cj:
            return "same-context"
        return "same-name-different-context" if names[ci] == names[cj] else "different-name"

    # automatic tokens of different proxies / context instances always differ
    seen = {}
    k = 0
    collided = set()
    for i, ev in enumerate(trace):
        for (ci, tok) in ev["auto"]:
            key = tuple(tok) if isinstance(tok, tuple) else repr(tok)
            if key in seen:
                cj, j = seen[key]
                sig = f"auto-token-collision:{ctxrel(ci, cj)}"
                if sig not in collided:
                    collided.add(sig)
                    fails.append((sig, f"op {i}: context #{ci} ({names[ci]}) generated {tuple(tok)} already generated by "
                                       f"context #{cj} ({names[cj]}) at op {j}", i))
            else:
                seen[key] = (ci, i)
            k += 1

    period = None            # {"grant": (...), "starter": p, "entitled": set()}
    supplied = {p: set() for p in range(len(pctx) + 8)}
    serial = 0
    for i, ev in enumerate(trace):
        op, out, kind = ev["op"], ev["out"], ev["op"][0]
        ideal_locked = period is not None
        st = "locked" if ideal_locked else "unlocked"
        okind = kind + ("-" + op[2] if kind == "call" else "")

        def F(sig, detail):
            fails.append((sig, f"op {i} {op}: {detail}", i))
            return fails

        if out == "hang":
            return F(f"request-unanswered:{okind}:{st}", f"no reply within the bounded wait (probe: {ev['probe']})")
        if kind == "lock" and op[2] in RESERVED and out == "exc:QMI_UsageException":
            # the reply placeholders are refused as custom tokens before anything is sent: nothing may change
            if ev["owner_before"] != ev["owner_after"] or ev["count_after"] != ev["count_before"] or not ev["probe"].startswith("alive"):
                return F(f"refused-reserved-token-changed-state:{okind}:{st}", f"owner {ev['owner_before']} -> {ev['owner_after']}, probe {ev['probe']}")
            continue
        if out.startswith("exc:") or out.startswith("val:"):
            return F(f"unexpected-result:{okind}:{st}:{out}", f"returned/raised {out}")
        if not ev["probe"].startswith("alive"):
            return F(f"object-disabled:{okind}:{st}", f"the request was answered ({out}) but the object no longer serves: {ev['probe']}")
        before, after = ev["owner_before"], ev["owner_after"]
        if kind == "recreate":
            # a new object under the old name: unlocked, nothing executed yet; whatever a proxy remembers is stale
            if after is not None or ev["count_after"] != 0:
                return F("recreated-object-not-fresh", f"owner {after}, counter {ev['count_after']}")
            period = None
            continue
        if kind in ("newctx", "newproxy") and not out.isdigit():
            return F(f"request-unanswered:{kind}:{st}" if out == "hang" else f"unexpected-result:{kind}:{st}:{out}",
                     f"a client could not {'connect' if kind == 'newctx' else 'obtain a proxy'}: {out}")
        if kind == "pause":
            if before != after:
                return F("lock-changed-by-passing-time", f"owner {before} -> {after}")
            continue
        if kind in ("stopctx", "newctx", "newproxy", "setcounter"):
            if before != after:
                which = {"stopctx": "lock-changed-by-disconnect", "newctx": "lock-changed-by-connect", "newproxy": "lock-changed-by-new-proxy",
                         "setcounter": "lock-changed-by-token-generation"}[kind]
                return F(which, f"owner {before} -> {after}")
            if ev["count_after"] != ev["count_before"]:
                return F(f"side-effect-without-call:{okind}", "counter changed")
            continue
        ran = ev["count_after"] - ev["count_before"]
        if kind != "call" and ran != 0:
            return F(f"side-effect-without-call:{okind}", f"method body ran {ran} time(s) during a {kind} request")
        if kind == "burn":
            if before != after:
                return F("lock-changed-by-other-object", f"owner {before} -> {after}")
            continue
        p = op[1]
        ci = pctx[p]
        if kind == "locktimeout":
            op = ["lock", op[1], None]
            kind = "lock"
        if kind == "lock":
            custom = op[2]
            serial += 1
            grant = ("auto", serial) if custom is None else ("custom", names[ci], custom)
            if custom is not None:
                supplied[p].add(custom)
            if out == "true":
                if ideal_locked and period["grant"] != grant:
                    sc = pctx[period["starter"]]
                    if custom == RESERVED[0] and names[ci] == names[0]:
                        # one root cause whatever the owner is: the denial *is* the caller's own token
                        return F(f"lock-denied-but-reported-granted:custom[{custom}]:caller-context-named-like-owning-context",
                                 f"lock() returned True although the request was denied (owner token stays {after}); "
                                 f"the proxy now remembers {ev['toks'][0]}")
                    return F(f"lock-granted-while-locked:{_ckind(custom)}-vs-{period['kind']}:{ctxrel(ci, sc)}",
                             f"lock() returned True although the object is locked by proxy {period['starter']} "
                             f"(context #{sc} {names[sc]}) with a different grant; owner token {before}, this proxy now holds {ev['toks'][0]}")
                if after is None or after != ev["toks"][0] or ev["toks"][0] != ev["toks"][1]:
                    return F(f"lock-granted-but-not-owner:{_ckind(custom)}",
                             f"lock() returned True, owner token is {after}, proxy remembers {ev['toks']}")
                if not ideal_locked:
                    period = {"grant": grant, "kind": _ckind(custom), "starter": p, "entitled": {p}}
                else:
                    period["entitled"].add(p)
            else:
                if not ideal_locked:
                    return F(f"lock-denied-while-unlocked:{_ckind(custom)}", "lock() returned False on a free object")
                if after != before:
                    return F("denied-lock-changed-owner", f"owner {before} -> {after}")
        elif kind == "unlock":
            custom = op[2]
            released = before is not None and after is None
            if released:
                g = period["grant"] if period else None
                allowed = period is not None and (
                    (custom is None and p in period["entitled"])
                    or (custom is not None and g == ("custom", names[ci], custom))
                    or (custom is None and g[0] == "custom" and g[1] == names[ci] and g[2] in supplied[p]))
                if not allowed:
                    who = "never-entitled" if period is None or p not in period["entitled"] else "entitled"
                    rel = ctxrel(ci, pctx[period["starter"]]) if period else "?"
                    return F(f"released-by-non-owner:{_ckind(custom)}-vs-{period['kind'] if period else '?'}:{who}:{rel}",
                             f"unlock by proxy {p} (token {ev.get('toks')} after) released the lock held with {before}"
                             + (f" by proxy {period['starter']}" if period else ""))
                period = None
            elif before is not None and after != before:
                return F("unlock-changed-owner", f"owner {before} -> {after}")
            elif before is None and after is not None:
                return F("unlock-locked-the-object", f"owner None -> {after}")
            if (out == "true") != (after is None):
                return F(f"unlock-result-untruthful:{out}:{'unlocked' if after is None else 'locked'}",
                         f"unlock() returned {out}, object is {'unlocked' if after is None else 'locked by ' + str(after)}")
        elif kind == "force":
            if after is not None:
                return F("force-unlock-ineffective", f"still locked by {after}")
            period = None
        elif kind == "islocked":
            if after != before:
                return F("query-changed-owner", f"owner {before} -> {after}")
            if (out == "true") != (before is not None):
                rel = "by-entitled" if (period and p in period["entitled"]) else "by-other"
                return F(f"is_locked-untruthful:{st}:{rel}", f"is_locked() returned {out}, owner token is {before}")
        elif kind == "call":
            if after != before:
                return F("call-changed-owner", f"owner {before} -> {after}")
            entitled = period is not None and p in period["entitled"]
            grey = (period is not None and period["grant"][0] == "custom" and period["grant"][1] == names[ci]
                    and period["grant"][2] in supplied[p])
            if out.startswith("ran "):
                if ran != (2 if op[2] == "w" else 1) or out != f"ran {ev['count_after']}":
                    return F(f"call-result-inconsistent:{okind}", f"reply {out}, body ran {ran} time(s), counter {ev['count_after']}")
                if ideal_locked and not entitled and not grey:
                    sc = pctx[period["starter"]]
                    return F(f"foreign-call-executed:{okind}:{period['kind']}:{ctxrel(ci, sc)}",
                             f"method body ran for proxy {p} (token {ev['toks']}) while the object is locked by proxy "
                             f"{period['starter']} with {before}")
            elif out == "locked":
                if ran != 0:
                    return F(f"refused-call-executed:{okind}", f"reply 'locked' but the body ran {ran} time(s)")
                if not ideal_locked:
                    return F(f"call-refused-while-unlocked:{okind}", "refused although the object is free")
                if entitled:
                    return F(f"owner-call-refused:{okind}:{period['kind']}", f"the lock holder's own call was refused (token {ev['toks']}, owner {before})")
            else:
                return F(f"unexpected-result:{okind}:{st}:{out}", f"unexpected outcome {out}")
        # the true lock state must follow the ideal one
        if (period is not None) != (after is not None):
            return F(f"lock-state-diverged:{okind}:{st}", f"ideal {'locked' if period else 'unlocked'}, owner token {after}")
    return fails


# ---------------------------------------------------------------------------
# generators
# ---------------------------------------------------------------------------

_CUSTOMS = ["x"] * 45 + ["y"] * 28 + [""] * 8 + ["tok-9"] * 10 + ["__ACCESS_DENIED__"] * 5 + ["__OBJECT_LOCKED__"] * 4


def gen_history(rng, max_ops: int) -> dict:
    srv = "srv" if rng.random() < 0.8 else "lab"
    r = rng.random()
    if r < 0.15:
        ctxs = [rng.choice(["cli", "gui"])]
    elif r < 0.55:
        ctxs = rng.sample(["cli", "gui", "cal"], rng.randint(2, 3))
    else:
        dup = rng.choice(["cli", "gui"])
        ctxs = [dup, dup] + ([rng.choice(["cli", "gui", "cal"])] if rng.random() < 0.5 else [])
        rng.shuffle(ctxs)
    nctx = len(ctxs) + 1
    nprox = rng.randint(1, 4)
    proxies = [rng.randrange(nctx) if rng.random() < 0.8 else 0 for _ in range(nprox)]
    if nprox >= 2 and rng.random() < 0.6:            # make sure clients are used
        proxies[0], proxies[1] = 1, min(2, nctx - 1)
    n = rng.randint(1, max_ops) if rng.random() < 0.4 else rng.randint(max(1, max_ops // 2), max_ops)
    ops = []
    names = [srv] + list(ctxs)            # grows with "newctx"
    pctx = list(proxies)                  # grows with "newproxy"
    stopped = set()
    while len(ops) < n:
        usable = [q for q in range(len(pctx)) if pctx[q] not in stopped]
        if not usable:                                  # everybody disconnected: a proxy in the owning context
            ops.append(["newproxy", 0])
            pctx.append(0)
            continue
        p = rng.choice(usable)
        k = rng.random() * 100
        if k < 25:
            ops.append(["lock", p, rng.choice(_CUSTOMS) if rng.random() < 0.4 else None])
        elif k < 42:
            ops.append(["unlock", p, rng.choice(_CUSTOMS) if rng.random() < 0.35 else None])
        elif k < 49:
            ops.append(["force", p])
        elif k < 60:
            ops.append(["islocked", p])
        elif k < 90:
            ops.append(["call", p, rng.choice(["n", "n", "n", "w", "b", "b", "b", "b", "b"])])
        elif k < 94:
            ops.append(["burn", rng.choice([c for c in range(len(names)) if c not in stopped])])
        elif k < 95:
            ops.append(["recreate"])
        elif k < 98:
            live = [c for c in range(1, len(names)) if c not in stopped]
            if live:
                c = rng.choice(live)
                ops.append(["stopctx", c])
                stopped.add(c)
                if rng.random() < 0.7:                  # somebody comes back under the same (or another) name
                    ops.append(["newctx", names[c] if rng.random() < 0.7 else rng.choice(["cli", "gui", "cal"])])
                    names.append(ops[-1][1])
                    ops.append(["newproxy", len(names) - 1])
                    pctx.append(len(names) - 1)
        else:
            if len(names) < 6:
                ops.append(["newctx", rng.choice(names[1:] + ["cli", "cal"])])
                names.append(ops[-1][1])
            c = rng.choice([c for c in range(len(names)) if c not in stopped])
            ops.append(["newproxy", c])
            pctx.append(c)
    h = {"srv": srv, "ctxs": ctxs, "proxies": proxies, "ops": ops}
    if rng.random() < 0.25:
        h["align"] = None                 # a quarter of the histories without re-seeding (contexts built from whatever state there is)
    return h


def corpus_histories() -> list:
    """Fixed corpus, run first on every seed: documented scenarios, related names, boundary values, the same operation
    twice, unusual orders, removal / re-creation, disconnect."""
    H = []

    def add(name, srv, ctxs, proxies, ops):
        H.append({"srv": srv, "ctxs": ctxs, "proxies": proxies, "ops": ops, "cell": "corpus/" + name})
    # rpc.py docstring, example 1: two proxies in the same context share a custom token
    add("doc-example-1", "my_context", [], [0, 0],
        [["lock", 0, "thisismineallmine"], ["islocked", 1], ["call", 1, "b"], ["unlock", 1, "thisismineallmine"], ["islocked", 1]])
    # rpc.py docstring, example 2: lock with a custom token, disconnect, a same-named context unlocks
    add("doc-example-2", "c1", ["c2"], [1],
        [["islocked", 0], ["lock", 0, "block"], ["islocked", 0], ["stopctx", 1], ["newctx", "c2"], ["newproxy", 2],
         ["islocked", 1], ["unlock", 1, None], ["unlock", 1, "block"], ["islocked", 1]])
    # the owner disconnects holding an automatic token: nobody can unlock, force_unlock is the way out
    add("owner-gone", "srv", ["cli"], [1, 0],
        [["lock", 0, None], ["stopctx", 1], ["islocked", 1], ["call", 1, "b"], ["newctx", "cli"], ["newproxy", 2], ["lock", 2, None],
         ["unlock", 2, None], ["call", 2, "n"], ["force", 2], ["islocked", 1], ["lock", 2, None], ["call", 2, "b"]])
    # removal and re-creation under the same name: stale automatic / custom tokens
    add("recreate-stale-auto", "srv", ["cli", "gui"], [1, 2],
        [["lock", 0, None], ["call", 0, "b"], ["recreate"], ["islocked", 1], ["call", 0, "b"], ["call", 1, "n"], ["lock", 1, None],
         ["call", 0, "b"], ["unlock", 0, None], ["islocked", 0], ["call", 1, "b"], ["recreate"], ["recreate"], ["unlock", 1, None]])
    add("recreate-stale-custom", "srv", ["cli", "cli"], [1, 2, 0],
        [["lock", 0, "x"], ["recreate"], ["call", 0, "b"], ["lock", 1, "x"], ["call", 0, "n"], ["unlock", 0, None], ["islocked", 2],
         ["lock", 2, "x"], ["recreate"], ["force", 2]])
    # the same operation twice; unusual orders
    add("twice", "srv", ["cli"], [1, 0],
        [["unlock", 0, None], ["unlock", 0, None], ["force", 0], ["force", 1], ["islocked", 0], ["islocked", 0], ["lock", 0, None],
         ["lock", 0, None], ["lock", 0, "x"], ["lock", 1, "x"], ["call", 0, "b"], ["call", 0, "b"], ["unlock", 0, None], ["unlock", 0, None],
         ["lock", 1, "x"], ["lock", 1, "x"], ["lock", 0, "x"], ["unlock", 1, "x"], ["unlock", 1, "x"], ["force", 0], ["force", 0]])
    # related names: prefix / suffix / case of context names and of custom tokens, near-placeholders
    add("related-context-names", "srv", ["cli", "cli2", "Cli", "cli_"], [1, 2, 3, 4],
        [["lock", 0, "x"], ["lock", 1, "x"], ["lock", 2, "x"], ["lock", 3, "x"], ["unlock", 1, "x"], ["unlock", 3, "x"], ["call", 2, "b"],
         ["unlock", 0, "x"], ["lock", 1, None], ["lock", 0, None], ["call", 0, "b"], ["unlock", 1, None], ["lock", 2, None]])
    add("related-tokens", "srv", ["cli"], [1, 1, 0],
        [["lock", 0, "x"], ["lock", 1, "X"], ["lock", 1, "xx"], ["lock", 1, "x_"], ["unlock", 1, "X"], ["unlock", 1, ""], ["unlock", 1, "x"],
         ["lock", 0, "$lock"], ["lock", 1, "$lock_"], ["unlock", 1, "$lock_"], ["unlock", 0, "$lock"],
         ["lock", 0, "__ACCESS_DENIED_"], ["lock", 2, "__ACCESS_DENIED___"], ["lock", 2, "__ACCESS_DENIED__"], ["lock", 2, "__OBJECT_LOCKED__"],
         ["lock", 2, "__OBJECT_LOCKED__x"], ["unlock", 2, "__ACCESS_DENIED__"], ["unlock", 0, "__ACCESS_DENIED_"], ["lock", 2, "__ACCESS_DENIED__"],
         ["lock", 2, "__access_denied__"], ["call", 2, "b"], ["unlock", 2, "__OBJECT_LOCKED__"], ["unlock", 2, None]])
    # boundary of the counter: 9 -> 10 -> 11 (width of the decimal part of the token changes)
    add("counter-9-10-11", "srv", ["cli"], [1, 1],
        [["burn", 1]] * 8 + [["lock", 0, None], ["unlock", 0, None], ["lock", 1, None], ["call", 0, "b"], ["lock", 0, None], ["unlock", 1, None],
                             ["lock", 0, None], ["call", 0, "n"], ["call", 1, "b"]])
    # `with proxy:` while free, while held by oneself, while held by somebody else
    add("with-form", "srv", ["cli"], [1, 0],
        [["call", 0, "w"], ["lock", 0, None], ["call", 0, "w"], ["call", 1, "w"], ["call", 1, "b"], ["unlock", 0, None], ["call", 1, "w"]])
    # long runs: the holder took token number 1; a proxy of the same context instance makes lock attempt number 1 + D for every
    # D at which a counter rendering could wrap (the D - 1 attempts in between are stood for by presetting the live counter)
    for D in (2 ** 8, 2 ** 16, 2 ** 24, 2 ** 32, 2 ** 64, 10 ** 4, 10 ** 6, 10 ** 9):
        add(f"counter-distance-{D}", "srv", ["cli"], [1, 1, 0],
            [["lock", 0, None], ["setcounter", 1, D], ["lock", 1, None], ["call", 1, "b"], ["unlock", 1, None], ["islocked", 2], ["call", 0, "n"],
             ["unlock", 0, None], ["setcounter", 1, 2 * D], ["lock", 1, None], ["lock", 0, None], ["call", 0, "b"]])
    # connection histories: the number of connected clients goes down and up again while one client stays; every order of
    # (two leave, two arrive); the stayer walks through the lock protocol between the events, newcomers probe on arrival
    import itertools as _it
    k = 0
    for perm in _it.permutations(["stop-x", "stop-y", "new-1", "new-2"]):
        for stayer in (1, 2, 3):
            k += 1
            others = [c for c in (1, 2, 3) if c != stayer]
            ctxs = ["cli", "cli", "gui"]
            proxies = [1, 2, 3]                       # proxy i-1 lives in context i
            ops = [["lock", others[0] - 1, None], ["unlock", others[0] - 1, None]]
            nctx, nprox = 4, 3
            steps = iter([[["lock", stayer - 1, None], ["call", stayer - 1, "b"]], [["islocked", stayer - 1], ["call", stayer - 1, "n"]],
                          [["unlock", stayer - 1, None], ["lock", stayer - 1, "x"]], [["call", stayer - 1, "w"], ["unlock", stayer - 1, "x"], ["lock", stayer - 1, None]]])
            for ev in perm:
                if ev.startswith("stop"):
                    ops.append(["stopctx", others[0 if ev == "stop-x" else 1]])
                else:
                    ops += [["newctx", "cli" if ev == "new-1" else "gui"], ["newproxy", nctx], ["islocked", nprox], ["call", nprox, "b"], ["lock", nprox, None],
                            ["unlock", nprox, None]]
                    nctx, nprox = nctx + 1, nprox + 1
                ops += next(steps)
            H.append({"srv": "srv", "ctxs": ctxs, "proxies": proxies, "ops": ops, "cell": f"corpus/connections-{k}", "conn": True})
    # only the owning context
    add("owning-context-only", "lab", [], [0, 0, 0],
        [["call", 0, "b"], ["lock", 1, None], ["call", 0, "n"], ["call", 1, "n"], ["lock", 2, None], ["force", 0], ["lock", 2, "lab"],
         ["unlock", 1, "lab"], ["islocked", 2]])
    return H


def sweep_histories() -> list:
    """Every (lock state, action, token relation) cell, reached through real proxies.

    contexts: 0 srv (owning), 1 'cli', 2 'cli' (same name, other instance), 3 'gui'
    proxies : 0 holder (ctx 1), 1 same-context other proxy (ctx 1), 2 same-named context (ctx 2),
              3 different name (ctx 3), 4 owning context (ctx 0), 5 stale-token proxy (ctx 3)"""
    base = {"srv": "srv", "ctxs": ["cli", "cli", "gui"], "proxies": [1, 1, 2, 3, 0, 3]}
    stale = [["lock", 5, None], ["force", 4]]                 # proxy 5 remembers a token that owns nothing
    states = {
        "unlocked": [],
        "locked-auto": [["lock", 0, None]],
        "locked-custom": [["lock", 0, "x"]],
    }
    out = []
    # regression cases of the (repaired, 93903ab) same-name token collision: a stale token of one client used to equal
    # the fresh token of a same-named client
    for tail_op, nm in ((["call", 2, "b"], "stale-call-b"), (["call", 2, "n"], "stale-call-n"), (["unlock", 2, None], "stale-unlock")):
        out.append({**base, "ops": [["lock", 2, None], ["force", 4], ["lock", 0, None], tail_op, ["islocked", 3]],
                    "cell": f"same-name/{nm}"})
    for sname, prefix in states.items():
        for actor in range(6):
            acts = [["lock", actor, None], ["lock", actor, "x"], ["lock", actor, "y"],
                    ["unlock", actor, None], ["unlock", actor, "x"], ["unlock", actor, "y"],
                    ["force", actor], ["islocked", actor], ["call", actor, "b"], ["call", actor, "n"]]
            for a in acts:
                # after the action: see who gets through and what everybody is told
                tail = [["islocked", 3], ["call", 0, "b"], ["call", actor, "n"], ["call", 3, "b"], ["unlock", 0, None], ["islocked", 4]]
                out.append({**base, "ops": stale + prefix + [a] + tail, "cell": f"{sname}/{a[0]}:{a[2] if len(a) > 2 else ''}/actor{actor}"})
    return out


def shrink(hist: dict, sig: str) -> dict:
    """Greedy deletion of operations while the same signature is still produced (re-running the real code)."""
    def still(h):
        try:
            _, _, tr = run_history(h)
        except Exception:
            return False
        return any(s == sig for (s, _, _) in oracle(h, tr))
    ops = list(hist["ops"])
    changed = True
    budget = 40 if sig.startswith(("request-unanswered", "object-disabled", "scenario-aborted")) else 120     # runs with a hang are slow
    while changed and budget > 0:
        changed = False
        i = len(ops) - 1
        while i >= 0 and budget > 0:
            cand = ops[:i] + ops[i + 1:]
            budget -= 1
            if cand and still({**hist, "ops": cand}):
                ops = cand
                changed = True
            i -= 1
    return {k: v for k, v in {**hist, "ops": ops}.items() if k != "cell"}


def _jsonable_trace(trace):
    out = []
    for ev in trace:
        out.append({"op": ev["op"], "out": ev["out"], "probe": ev["probe"], "owner_after": _show_tok(ev["owner_after"]),
                    "toks": [_show_tok(t) for t in ev.get("toks", ())]})
    return out


# ---------------------------------------------------------------------------
# schedule family: concurrent lock() / call / unlock() under the deterministic scheduler
# ---------------------------------------------------------------------------
#
# The model treats `make_unique_token` (counter read + write under `_unique_counters_lock`) and one request handled
# by the worker as atomic actions.  This family checks that against the real code over interleavings: 2-4 managed
# threads, each with its own proxy (same context / different contexts / mixed), do lock() - call - unlock() under
# harness.simworld.run_scenario with a yield point at every *line* of QMI_Context.make_unique_token.
#
# spec = {"kind": "conc", "layout": "same-srv"|"same-cli"|"diff"|"mixed", "threads": k, "rounds": r,
#         "policy": "weighted"|"pct", "seed": n, "change_points": [..]|None}      (+ layout "same-name")

_CONC_LAYOUTS = ("same-srv", "same-cli", "diff", "mixed", "same-name")


class _ConcTaps:
    """Outside taps for one scenario: worker-side request log (a linearisation, one thread runs at a time), every
    automatically generated token with the generating thread, the step window of each make_unique_token call."""

    def __init__(self):
        self.sched = None
        self.ctx_ids = {}

    def __enter__(self):
        import qmi.core.rpc as rpc
        import qmi.core.context as qctx
        self.rpc, self.qctx = rpc, qctx
        self.o_lock = rpc._RpcThread._handle_lock_rpc_request
        self.o_meth = rpc._RpcThread._handle_method_rpc_request
        self.o_mut = qctx.QMI_Context.make_unique_token
        taps = self
        o_lock, o_meth, o_mut = self.o_lock, self.o_meth, self.o_mut

        def t_lock(th, request):
            sc = taps.sched
            if sc is None or request.destination_address.object_id != "obj":
                return o_lock(th, request)
            before = th._locking_token
            try:
                reply = o_lock(th, request)
            except BaseException as e:  # noqa
                sc.log("lockreq", request.lock_action.name, request.lock_token, before, "exc:" + type(e).__name__, th._locking_token)
                raise
            sc.log("lockreq", request.lock_action.name, request.lock_token, before, reply.lock_token, th._locking_token)
            return reply

        def t_meth(th, request):
            sc = taps.sched
            if sc is None or request.destination_address.object_id != "obj":
                return o_meth(th, request)
            before = th._locking_token
            reply = o_meth(th, request)
            who = request.method_args[0] if request.method_args else None
            sc.log("mreq", who, request.lock_token, before, reply.state.name, reply.result if reply.state.name == "RESULT_IS_VALUE" else None)
            return reply

        def t_mut(cx, prefix="$lock_"):
            sc = taps.sched
            if sc is None or prefix != "$lock_":
                return o_mut(cx, prefix)
            me = sc.me()
            a = sc.steps
            tok = o_mut(cx)
            sc.log("gen", taps.ctx_ids.get(id(cx), -1), me.name if me else "?", tok, a, sc.steps)
            return tok

        rpc._RpcThread._handle_lock_rpc_request = t_lock
        rpc._RpcThread._handle_method_rpc_request = t_meth
        qctx.QMI_Context.make_unique_token = t_mut
        return self

    def __exit__(self, *a):
        self.rpc._RpcThread._handle_lock_rpc_request = self.o_lock
        self.rpc._RpcThread._handle_method_rpc_request = self.o_meth
        self.qctx.QMI_Context.make_unique_token = self.o_mut
        return False


def _conc_obj_class():
    import qmi.core.rpc as rpc
    if _state.get("conc_cls") is None or _state.get("conc_cls_mod") is not rpc:
        class C04ConcObject(rpc.QMI_RpcObject):
            def __init__(self, context, name):
                super().__init__(context, name)
                self.count = 0

            @rpc.rpc_method
            def bump(self, who):
                self.count += 1
                return self.count

        _state["conc_cls"] = C04ConcObject
        _state["conc_cls_mod"] = rpc
    return _state["conc_cls"]


def _conc_ctx_layout(spec):
    """context index per thread; index 0 = owning context; names of the client contexts"""
    k, lay = spec["threads"], spec["layout"]
    if lay == "same-srv":
        return [0] * k, []
    if lay == "same-cli":
        return [1] * k, ["cli"]
    if lay == "diff":
        return list(range(1, k + 1)), [f"cli{i}" for i in range(k)]
    if lay == "same-name":                                   # one client context per thread, all named alike
        return list(range(1, k + 1)), ["cli"] * k
    return [1, 1] + list(range(2, k)), ["cli"] + [f"cli{i}" for i in range(2, k)]     # mixed: two share a context


def run_conc(spec: dict):
    """Run one schedule scenario on the real code.  Returns (outcome, events, per-thread results)."""
    from harness.simworld import run_scenario
    import qmi.core.context as qctx
    from qmi.core.exceptions import QMI_RuntimeException
    ctx_of, cli_names = _conc_ctx_layout(spec)
    with _ConcTaps() as taps:
        traced = taps.o_mut

        def body(w):
            srv = w.context("srv", server=True)
            srv.make_rpc_object("obj", _conc_obj_class())
            ctxs = [srv]
            for nm in cli_names:
                c = w.context(nm)
                w.connect(c, srv)
                ctxs.append(c)
            for i, c in enumerate(ctxs):
                taps.ctx_ids[id(c)] = i
            proxies = [ctxs[ci].get_rpc_object_by_name("srv.obj") for ci in ctx_of]
            taps.sched = w.sched
            w.sched.log("start", w.sched.steps)

            def worker(i):
                p = proxies[i]
                res = []
                for _ in range(spec.get("rounds", 1)):
                    r = p.lock()
                    try:
                        v = ("ran", p.bump(i))
                    except QMI_RuntimeException as e:
                        v = ("locked",) if "locked" in str(e) else ("exc", type(e).__name__)
                    u = p.unlock() if r else None
                    res.append((r, v, u))
                return res

            ths = [w.spawn((lambda i=i: worker(i)), f"t{i}") for i in range(spec["threads"])]
            for t in ths:
                t.join()
            taps.sched = None
            return [(t.value, type(t.exc).__name__ if t.exc is not None else None) for t in ths]

        out = run_scenario(spec["seed"], body, policy=spec["policy"], change_points=spec.get("change_points"),
                           trace_funcs=[traced], max_steps=200000)
        taps.sched = None
    return out, list(out.sched.events), out.value


def conc_oracle(spec: dict, out, events, results):
    """The property on one schedule.  Returns [(signature, detail)]."""
    ctx_of, cli_names = _conc_ctx_layout(spec)
    names = ["srv"] + cli_names
    tctx = {f"t{i}": ci for i, ci in enumerate(ctx_of)}
    fails = []

    def rel(ta, tb):
        ca, cb = tctx.get(ta, -1), tctx.get(tb, -1)
        return "same-context" if ca == cb else ("same-name-different-context" if names[ca] == names[cb] else "different-name")

    if out.deadlock:
        return [("concurrent:deadlock", f"scheduler reports: {out.deadlock[:300]}")]
    if out.budget:
        return [("concurrent:step-budget-exceeded", "scenario did not finish within its step budget")]
    if out.error is not None:
        return [(f"concurrent:error:{type(out.error).__name__}", repr(out.error)[:300])]
    if out.thread_errors:
        nm, e = out.thread_errors[0]
        return [(f"concurrent:thread-died:{type(e).__name__}", f"thread {nm}: {e!r}"[:300])]
    gens = {}          # token -> [thread]
    for ev in events:
        if ev[0] == "gen":
            _, ci, th, tok, a, b = ev
            th = th.split("#")[0]
            key = tuple(tok)
            if key in gens and not any(s.startswith("concurrent:auto-token-collision") for s, _ in fails):
                fails.append((f"concurrent:auto-token-collision:{rel(th, gens[key][0])}",
                              f"threads {gens[key][0]} and {th} both generated {key}"))
            gens.setdefault(key, []).append(th)
    for ev in events:
        if ev[0] == "lockreq":
            _, act, tok, before, reply, after = ev
            if isinstance(reply, str) and reply.startswith("exc:"):
                fails.append((f"concurrent:lock-handler-raised:{act}:{reply[4:]}", f"{act} with {tok} while owner {before}"))
                break
            if act == "ACQUIRE" and before is not None and reply == tok:
                a = gens.get(tuple(before), ["?"])[0]
                b = [t for t in gens.get(tuple(tok), ["?"]) if t != a] or gens.get(tuple(tok), ["?"])
                fails.append((f"concurrent:lock-granted-while-locked:{rel(a, b[0])}",
                              f"ACQUIRE with {tuple(tok)} (generated by {gens.get(tuple(tok))}) granted while the object is locked with {tuple(before)}"))
                break
            if act == "RELEASE" and before is not None and after is None and tok != before:
                fails.append(("concurrent:released-by-non-owner", f"RELEASE with {tok} released {before}"))
                break
        elif ev[0] == "mreq":
            _, who, tok, before, state, val = ev
            holders = gens.get(tuple(before), []) if before is not None else []
            if state == "RESULT_IS_VALUE" and before is not None and f"t{who}" not in holders:
                fails.append((f"concurrent:foreign-call-executed:{rel('t%s' % who, holders[0]) if holders else '?'}",
                              f"body ran for thread t{who} (token {tok}) while locked with {tuple(before)} generated by {holders}"))
                break
            if state == "OBJECT_IS_LOCKED" and (before is None or [f"t{who}"] == holders):
                fails.append(("concurrent:owner-call-refused", f"thread t{who} refused, owner {before}"))
                break
    if results is not None:
        for i, (val, exc) in enumerate(results):
            if exc is not None:
                fails.append((f"concurrent:caller-raised:{exc}", f"thread t{i} raised {exc}"))
            elif val is not None:
                for (r, v, u) in val:
                    if r is True and v[0] != "ran":
                        fails.append(("concurrent:owner-call-refused", f"thread t{i}: lock() True but its call answered {v}"))
                    if r is True and u is not True and not fails:
                        fails.append(("concurrent:owner-unlock-denied", f"thread t{i}: lock() True, unlock() {u}"))
    return fails


def conc_model_lines(events):
    """Worker-side linearised request log as driver lines + the outputs the real worker produced (trace refinement)."""
    def st(t):
        return "-" if t is None else f"{t[0]}/{t[1]}"
    lines, outs = ["init srv 0"], ["ok"]
    amap = {"ACQUIRE": "acquire", "RELEASE": "release", "FORCE_RELEASE": "force", "QUERY": "query"}
    for ev in events:
        if ev[0] == "lockreq":
            _, act, tok, before, reply, after = ev
            lines.append(f"req {amap.get(act, act)} {st(tok)}")
            outs.append("hang" if isinstance(reply, str) else f"{st(reply)} {st(after)}")
        elif ev[0] == "mreq":
            _, who, tok, before, state, val = ev
            lines.append(f"mreq {st(tok)}")
            outs.append(f"ran {val}" if state == "RESULT_IS_VALUE" else "locked" if state == "OBJECT_IS_LOCKED" else f"exc:{state}")
    return lines, outs


def conc_specs(rng, quick: bool) -> list:
    """weighted + pct runs for every layout, then change-point sweeps (filled in by the caller from baseline runs)."""
    specs = []
    for lay in _CONC_LAYOUTS:
        for k in ((2, 3) if quick else (2, 3, 4)):
            if lay == "mixed" and k < 3:
                continue
            for j in range(4 if quick else 16):
                specs.append({"kind": "conc", "layout": lay, "threads": k, "rounds": 1 + (j % 2), "policy": "weighted",
                              "seed": rng.randrange(1 << 30), "change_points": None})
            for j in range(2 if quick else 8):
                specs.append({"kind": "conc", "layout": lay, "threads": k, "rounds": 1, "policy": "pct",
                              "seed": rng.randrange(1 << 30), "change_points": None})
    return specs


# ---------------------------------------------------------------------------
# retry family: lock(timeout > 0) under the virtual clock of the deterministic scheduler
# ---------------------------------------------------------------------------
#
# spec = {"kind": "retry", "seed": n, "timeout_ms": T, "release_ms": D | None, "holder": ctx idx | None, "waiter": ctx idx,
#         "ctxs": [client names], "custom_h": str|None, "custom_w": str|None}
# The holder (if any) locks first; then the waiter calls lock(timeout=T/1000) while the holder sleeps D ms (virtual) and
# unlocks.  T and D are never multiples of the 100 ms period (floats are not compared at a boundary).

def run_retry(spec: dict):
    from harness.simworld import run_scenario
    import qmi.core.rpc as rpc
    with _ConcTaps() as taps:
        def body(w):
            srv = w.context("srv", server=True)
            srv.make_rpc_object("obj", _conc_obj_class())
            ctxs = [srv]
            for nm in spec["ctxs"]:
                c = w.context(nm)
                w.connect(c, srv)
                ctxs.append(c)
            for i, c in enumerate(ctxs):
                taps.ctx_ids[id(c)] = i
            pw = ctxs[spec["waiter"]].get_rpc_object_by_name("srv.obj")
            ph = ctxs[spec["holder"]].get_rpc_object_by_name("srv.obj") if spec["holder"] is not None else None
            taps.sched = w.sched
            held = ph.lock(lock_token=spec["custom_h"]) if ph is not None else None
            clock = rpc.time
            t0 = clock.monotonic()

            def waiter():
                r = pw.lock(timeout=spec["timeout_ms"] / 1000.0, lock_token=spec["custom_w"])
                return (r, clock.monotonic() - t0)

            def holder():
                clock.sleep(spec["release_ms"] / 1000.0)
                return ph.unlock()

            tw = w.spawn(waiter, "waiter")
            th = w.spawn(holder, "holder") if (ph is not None and spec["release_ms"] is not None) else None
            tw.join()
            if th is not None:
                th.join()
            taps.sched = None
            nonces = [getattr(c, "_instance_id", "") or "-" for c in ctxs]
            return {"held": held, "waiter": tw.value, "waiter_exc": type(tw.exc).__name__ if tw.exc is not None else None,
                    "holder_unlock": th.value if th is not None else None, "nonces": nonces,
                    "wtok": (pw._lock_token, pw.rpc_nonblocking._lock_token),
                    "owner": None}
        out = run_scenario(spec["seed"], body, policy="weighted", max_steps=200000)
        taps.sched = None
    return out, list(out.sched.events), out.value


def retry_check(spec: dict, out, events, val):
    """Oracle (the statement about the loop, directly) + the driver lines / expected outputs for the model."""
    fails = []
    if out.deadlock or out.budget or out.error is not None or out.thread_errors or val is None or val.get("waiter_exc"):
        what = out.deadlock or ("budget" if out.budget else repr(out.error or out.thread_errors or (val or {}).get("waiter_exc")))
        return [("retry:did-not-terminate", f"lock(timeout={spec['timeout_ms']} ms) did not return normally: {str(what)[:200]}")], [], []
    r, elapsed = val["waiter"]
    acq = [e for e in events if e[0] == "lockreq" and e[1] == "ACQUIRE"]
    if spec["holder"] is not None:
        acq = acq[1:]                                   # the holder's own lock()
    toks = {tuple(e[2]) for e in acq}
    granted = [i for i, e in enumerate(acq) if e[4] == e[2]]
    T = spec["timeout_ms"]
    if len(toks) > 1:
        fails.append(("retry:token-changed-between-attempts", f"attempts carried {sorted(toks)}"))
    if (r is True) != bool(granted):
        fails.append((f"retry:result-{r}-but-{'an' if granted else 'no'}-attempt-granted", f"{len(acq)} attempts, granted at {granted}"))
    if granted and granted[0] != len(acq) - 1:
        fails.append(("retry:request-sent-after-success", f"{len(acq)} attempts, first grant at index {granted[0]}"))
    if len(acq) < 1:
        fails.append(("retry:no-attempt-made", "timeout > 0 but no ACQUIRE was sent"))
    if len(acq) > (T + 99) // 100:
        fails.append(("retry:more-attempts-than-the-timeout-allows", f"{len(acq)} attempts within {T} ms at a 100 ms period"))
    if elapsed * 1000.0 > T + 100 + 1:
        fails.append(("retry:overran-timeout", f"returned after {elapsed * 1000.0:.1f} ms (virtual) with timeout {T} ms"))
    if r is True and (val["wtok"][0] is None or val["wtok"][0] != val["wtok"][1] or tuple(val["wtok"][0]) not in toks):
        fails.append(("retry:granted-but-token-not-remembered", f"proxy remembers {val['wtok']}"))
    if r is not True and val["wtok"] != (None, None):
        fails.append(("retry:denied-but-token-remembered", f"proxy remembers {val['wtok']}"))
    # model lines
    n = val["nonces"]
    lines = [f"init srv {n[0]}"] + [f"ctx {nm} {n[i + 1]}" for i, nm in enumerate(spec["ctxs"])]
    outs = ["ok"] + [str(i + 1) for i in range(len(spec["ctxs"]))]
    lines.append(f"proxy {spec['waiter']}")
    outs.append("0")
    q = 0
    if spec["holder"] is not None:
        lines.append(f"proxy {spec['holder']}")
        outs.append("1")
        q = 1
        lines.append("lock 1 " + ("-" if spec["custom_h"] is None else "=" + spec["custom_h"]))
        outs.append("true" if val["held"] is True else "false")
    rel = spec["release_ms"] if (spec["holder"] is not None and spec["release_ms"] is not None) else 10 ** 7 + 50
    lines.append(f"lockretry 0 " + ("-" if spec["custom_w"] is None else "=" + spec["custom_w"]) + f" {T} {rel} {q}")
    outs.append(("true" if r is True else "false" if r is False else repr(r)) + f" {len(acq)}")
    lines.append("tok 0")
    outs.append(_show_tok(val["wtok"][0]) + " " + _show_tok(val["wtok"][1]))
    return fails, lines, outs


def retry_specs(rng, quick: bool) -> list:
    S = []

    def add(**kw):
        S.append({"kind": "retry", "seed": rng.randrange(1 << 30), "ctxs": ["cli", "gui"], "holder": 1, "waiter": 2,
                  "custom_h": None, "custom_w": None, **kw})
    # boundaries of the timeout around the 100 ms period, holder never releases
    for T in (1, 50, 99, 101, 150, 250, 449) + (() if quick else (199, 201, 333, 777, 1250)):
        add(timeout_ms=T, release_ms=None)
    # released during the wait: before the 1st retry, between retries, just too late
    for (T, D) in ((350, 50), (350, 150), (350, 250), (350, 349), (350, 351), (250, 260), (550, 449)) + (() if quick else ((1250, 1149), (950, 5))):
        add(timeout_ms=T, release_ms=D)
    add(timeout_ms=250, release_ms=None, holder=None)                        # free object: one request
    add(timeout_ms=250, release_ms=None, custom_h="x", custom_w="x", ctxs=["cli", "cli"])   # shared custom token: granted at once
    add(timeout_ms=250, release_ms=150, custom_h="x", custom_w="y")
    add(timeout_ms=250, release_ms=150, holder=0, waiter=0, ctxs=[])         # everybody in the owning context
    add(timeout_ms=350, release_ms=150, custom_w="x", holder=2, waiter=1)
    for _ in range(14 if quick else 80):
        T = rng.choice([1, 2, 3, 4, 5, 6, 7]) * 100 + rng.randrange(1, 100)
        D = rng.choice([None, rng.randrange(0, 8) * 100 + rng.randrange(1, 100)])
        add(timeout_ms=T, release_ms=D, custom_h=rng.choice([None, "x"]), custom_w=rng.choice([None, "x", "y"]),
            holder=rng.choice([0, 1, 2]), waiter=rng.choice([0, 1, 2]))
    return S


# ---------------------------------------------------------------------------
# fresh-process family: two runs of one script
# ---------------------------------------------------------------------------

_PROC_SCRIPT = r"""
import json, logging, os, random, sys
sys.path.insert(0, sys.argv[1])
random.seed(int(sys.argv[2]))
try:
    import numpy
    numpy.random.seed(int(sys.argv[2]))
except Exception:
    pass
logging.disable(logging.CRITICAL)
from qmi.core.context import QMI_Context
out = []
for name in sys.argv[3:]:
    c = QMI_Context(name)
    out.append([name, [list(c.make_unique_token()) for _ in range(2)]])
print("TOKENS " + json.dumps(out))
sys.stdout.flush()
os._exit(0)
"""


def run_fresh_processes(seed_value: int, names: list, runs: int = 3):
    """The same script in `runs` fresh interpreters (same seed, same PYTHONHASHSEED): every context generates its first
    two automatic tokens.  Returns [[(name, [tokens])...] per run]."""
    import json as _json
    import os as _os
    import subprocess
    import sys as _sys
    import tempfile
    env = dict(_os.environ, PYTHONHASHSEED="0", QMI_VERIF="1")
    with tempfile.TemporaryDirectory() as td:
        script = _os.path.join(td, "two_runs.py")
        with open(script, "w") as f:
            f.write(_PROC_SCRIPT)
        procs = [subprocess.Popen([_sys.executable, script, str(core.REPO), str(seed_value)] + list(names), stdout=subprocess.PIPE,
                                  stderr=subprocess.DEVNULL, text=True, env=env, cwd=td) for _ in range(runs)]
        outs = []
        for p in procs:
            try:
                so, _ = p.communicate(timeout=120)
            except subprocess.TimeoutExpired:
                p.kill()
                so = ""
            line = next((l for l in so.splitlines() if l.startswith("TOKENS ")), None)
            outs.append(_json.loads(line[7:]) if line else None)
    return outs


def fresh_process_oracle(outs) -> list:
    fails = []
    if any(o is None for o in outs):
        return [("fresh-process:script-failed", "a run of the two-line client script produced no tokens")]
    seen = {}
    for r, run in enumerate(outs):
        for ci, (name, toks) in enumerate(run):
            for k, t in enumerate(toks):
                key = tuple(t)
                if key in seen:
                    r0, c0, k0 = seen[key]
                    rel = "same-process" if r0 == r else "different-process"
                    fails.append((f"auto-token-collision:same-name-{rel}:aligned-process-state",
                                  f"run {r} context #{ci} ({name}) token #{k} = {key} = run {r0} context #{c0} token #{k0}"))
                    return fails
                seen[key] = (r, ci, k)
    return fails


# ---------------------------------------------------------------------------
# fault family: requests whose reply cannot be delivered; burst family: queue-depth boundaries
# ---------------------------------------------------------------------------
#
# Both park the object's worker inside a slow method (`hold()`, released by the harness), queue requests behind it and
# look at what the worker did with them through a tap on the two handlers (request, lock state before/after, reply).
# Population: contexts srv(0), cliA(1), cliB(2), gui(3); proxies A(ctx1) B(ctx2) C(ctx3) S(ctx0).

class _WorkerTap:
    def __enter__(self):
        import qmi.core.rpc as rpc
        self.rpc = rpc
        self.o_lock, self.o_meth = rpc._RpcThread._handle_lock_rpc_request, rpc._RpcThread._handle_method_rpc_request
        self.log = []
        o_lock, o_meth, log = self.o_lock, self.o_meth, self.log

        def t_lock(th, request):
            if request.destination_address.object_id != "obj":
                return o_lock(th, request)
            before = th._locking_token
            reply = o_lock(th, request)
            log.append(("lockreq", request.lock_action.name, request.lock_token, before, reply.lock_token, th._locking_token))
            return reply

        def t_meth(th, request):
            if request.destination_address.object_id != "obj":
                return o_meth(th, request)
            before = th._locking_token
            reply = o_meth(th, request)
            log.append(("mreq", request.method_name, request.lock_token, before, reply.state.name,
                        reply.result if reply.state.name == "RESULT_IS_VALUE" else None, th._locking_token))
            return reply

        rpc._RpcThread._handle_lock_rpc_request = t_lock
        rpc._RpcThread._handle_method_rpc_request = t_meth
        return self

    def __exit__(self, *a):
        self.rpc._RpcThread._handle_lock_rpc_request = self.o_lock
        self.rpc._RpcThread._handle_method_rpc_request = self.o_meth
        return False


def _wait_until(pred, timeout=10.0) -> bool:
    end = time.monotonic() + timeout
    while time.monotonic() < end:
        if pred():
            return True
        time.sleep(0.001)
    return pred()


def _qlen(w) -> int:
    q = getattr(w.workers["obj"], "_fifo", None)
    return len(q) if q is not None else -1


_FAULT_STATES = ("free", "held-by-other-auto", "held-by-other-custom", "held-by-requester")
_FAULT_REQS = ("lock-auto", "lock-custom", "unlock", "unlock-custom", "force", "islocked", "call")


def _st(t) -> str:
    return "-" if t is None else f"{t[0]}/{t[1]}"


def run_fault(spec: dict):
    """One undeliverable-reply scenario on real contexts.  Returns (driver lines, impl outputs, observation dict)."""
    import qmi.core.rpc as rpc
    hist = {"srv": "srv", "ctxs": ["cliA", "cliB", "gui"], "proxies": [1, 2, 3, 0], "ops": []}
    A, B, C, S = 0, 1, 2, 3
    w = _World(hist)
    lines, outs, obs = [], [], {}
    with _WorkerTap() as tap:
        try:
            w.start()
            nonce = [getattr(c, "_instance_id", "") or "-" for c in w.contexts]
            lines += [f"init srv {nonce[0]}"] + [f"ctx {nm} {nonce[i + 1]}" for i, nm in enumerate(hist["ctxs"])] + [f"proxy {c}" for c in hist["proxies"]]
            outs += ["ok", "1", "2", "3", "0", "1", "2", "3"]

            def op(o):
                lines.append(_op_line(o))
                outs.append(w.do_op(o))
            state, req = spec["state"], spec["req"]
            if state == "held-by-other-auto":
                op(["lock", A, None])
            elif state == "held-by-other-custom":
                op(["lock", A, "x"])
            elif state == "held-by-requester":
                op(["lock", B, None])
            parker = A if state.startswith("held-by-other") else B if state == "held-by-requester" else S
            owner0 = w.owner()
            # park the worker
            hold_fut = w.proxies[parker].rpc_nonblocking.hold()
            if not w.obj.entered.wait(10.0):
                raise RuntimeError("worker did not enter hold()")
            # the request whose reply will be undeliverable, issued by B without waiting for the answer
            ctxB, pB = w.contexts[2], w.proxies[B]
            n_before = len(tap.log)
            if req == "call":
                pB.rpc_nonblocking.bump()
                tok = pB._lock_token
            else:
                if req == "lock-auto":
                    tok = ctxB.make_unique_token()
                    lines.append("burn 2")
                    outs.append("ok")
                elif req in ("lock-custom", "unlock-custom"):
                    tok = rpc.QMI_LockTokenDescriptor(ctxB.name, "x")
                else:
                    tok = pB._lock_token
                act = {"lock-auto": "ACQUIRE", "lock-custom": "ACQUIRE", "unlock": "RELEASE", "unlock-custom": "RELEASE",
                       "force": "FORCE_RELEASE", "islocked": "QUERY"}[req]
                fut = rpc.QMI_RpcFuture(ctxB, w.obj_addr, tok)
                fut.send_lock_rpc_request_message(rpc.QMI_LockRpcAction[act])
            if not _wait_until(lambda: _qlen(w) >= 1 or _qlen(w) < 0, 10.0):
                raise RuntimeError("the request did not reach the worker queue")
            # the requester disappears while its request waits behind the parked worker
            ctxB.stop()
            lines.append("stopctx 2")
            outs.append("ok")
            w.obj.release.set()
            try:
                hv = hold_fut.wait(10.0) if parker != B else None
            except Exception as e:  # noqa
                hv = f"exc:{type(e).__name__}"
            if not _wait_until(lambda: len(tap.log) >= n_before + 2 or not w.workers["obj"].is_alive(), 10.0):
                obs["unhandled"] = True
            log = tap.log[n_before:]
            for ev in log:
                if ev[0] == "mreq":
                    lines.append(f"mreq {_st(ev[2])}")
                    outs.append(f"ran {ev[5]}" if ev[4] == "RESULT_IS_VALUE" else "locked" if ev[4] == "OBJECT_IS_LOCKED" else f"exc:{ev[4]}")
                else:
                    lines.append("req " + {"ACQUIRE": "acquire", "RELEASE": "release", "FORCE_RELEASE": "force", "QUERY": "query"}[ev[1]] + f" {_st(ev[2])}")
                    outs.append(f"{_st(ev[4])} {_st(ev[5])}")
            obs.update(owner0=owner0, tok=tok, log=log, hold=hv)
            lines.append("owner")
            outs.append(_show_tok(w.owner()))
            obs["owner1"] = w.owner()
            obs["count1"] = w.obj.count
            probes = [["islocked", C], ["call", C, "b"], ["call", A, "n"], ["islocked", S], ["unlock", A, None if state != "held-by-other-custom" else "x"], ["islocked", C]]
            obs["probes"] = []
            for o in probes:
                c0 = w.obj.count
                op(o)
                lines += ["probe", "owner"]
                outs += [w.probe(), _show_tok(w.owner())]
                obs["probes"].append((o, outs[-3], outs[-2], w.obj.count - c0))
            obs["owner2"] = w.owner()
        finally:
            if w.obj is not None:
                w.obj.release.set()
            w.stop()
    return lines, outs, obs


def fault_oracle(spec: dict, obs: dict) -> list:
    """An undeliverable reply changes nothing beyond what the request itself does (reference lock on the real tokens)."""
    state, req = spec["state"], spec["req"]
    tag = f"{req}:{state}"
    if obs.get("unhandled"):
        return [(f"undeliverable-reply:request-not-handled-or-worker-died:{tag}", "the worker did not get through the queued request")]
    o0, tok = obs["owner0"], obs["tok"]
    if req in ("lock-auto", "lock-custom"):
        exp = tok if o0 is None else o0
    elif req in ("unlock", "unlock-custom"):
        exp = None if (o0 is not None and tok == o0) else o0
    elif req == "force":
        exp = None
    else:
        exp = o0
    fails = []
    if obs["owner1"] != exp:
        fails.append((f"undeliverable-reply-changed-lock:{tag}", f"owner before {o0}, request token {tok}: owner afterwards {obs['owner1']}, "
                      f"the request by itself leaves {exp}"))
        return fails
    # the probes must agree with that state
    owner = exp
    tokA = None if state not in ("held-by-other-auto", "held-by-other-custom") else o0
    for (o, out, pr, ran) in obs["probes"]:
        if not pr.startswith("alive") or out == "hang":
            return [(f"undeliverable-reply:object-disabled:{tag}", f"after the fault {o} -> {out}, probe {pr}")]
        if o[0] == "islocked" and (out == "true") != (owner is not None):
            return [(f"undeliverable-reply:is_locked-untruthful:{tag}", f"{o} -> {out}, owner {owner}")]
        if o[0] == "call":
            carried = tokA if o[1] == 0 else None
            should = owner is None or carried == owner
            if out.startswith("ran") != should or (ran != (1 if should else 0)):
                kind = "foreign-call-executed" if not should else "owner-call-refused"
                return [(f"undeliverable-reply:{kind}:{tag}", f"{o} -> {out} (body ran {ran}x), owner {owner}, call carries {carried}")]
        if o[0] == "unlock":
            if owner is not None and tokA == owner:
                owner = None
    return fails


def fault_specs(quick: bool) -> list:
    return [{"kind": "fault", "state": st, "req": rq} for st in _FAULT_STATES for rq in _FAULT_REQS]


_SHUT_STATES = ("free", "held")
_SHUT_ENDS = ("remove", "stop")


def run_shutdown(spec: dict):
    """Requests of every kind queued behind a parked call, then the object is removed / its context stops (from the context's
    own thread, as the API demands) while a helper lets the parked call go once shutdown has been requested."""
    import qmi.core.rpc as rpc
    from qmi.core.exceptions import QMI_RpcTimeoutException
    hist = {"srv": "srv", "ctxs": ["cliA", "cliB"], "proxies": [1, 2, 0], "ops": []}
    A, B, S = 0, 1, 2
    w = _World(hist)
    lines, outs, obs = [], [], {}
    with _WorkerTap() as tap:
        try:
            w.start()
            nonce = [getattr(c, "_instance_id", "") or "-" for c in w.contexts]
            lines += [f"init srv {nonce[0]}"] + [f"ctx {nm} {nonce[i + 1]}" for i, nm in enumerate(hist["ctxs"])] + [f"proxy {c}" for c in hist["proxies"]]
            outs += ["ok", "1", "2", "0", "1", "2"]
            if spec["state"] == "held":
                lines.append(_op_line(["lock", A, None]))
                outs.append(w.do_op(["lock", A, None]))
            parker = A if spec["state"] == "held" else S
            worker = w.workers["obj"]
            hold_fut = w.proxies[parker].rpc_nonblocking.hold()
            if not w.obj.entered.wait(10.0):
                raise RuntimeError("worker did not enter hold()")
            lines.append(f"call {parker} n")
            outs.append("ran 1")
            old_obj = w.obj
            futs = []
            n0 = len(tap.log)

            def lockreq(ci, tok, act):
                f = rpc.QMI_RpcFuture(w.contexts[ci], w.obj_addr, tok)
                f.send_lock_rpc_request_message(rpc.QMI_LockRpcAction[act])
                futs.append((act + ("@srv" if ci == 0 else ""), f))
            tokA = w.proxies[A]._lock_token
            # every kind, from a client context and from the owning context, lock requests first in the queue
            order = spec.get("order", 0)
            kinds = [("ACQUIRE", 2), ("QUERY", 1), ("RELEASE", 1), ("FORCE_RELEASE", 2), ("call", 1), ("QUERY", 0), ("ACQUIRE", 0), ("call", 0)]
            kinds = kinds[order:] + kinds[:order]
            for (kind, ci) in kinds:
                if kind == "call":
                    px = w.proxies[S] if ci == 0 else w.proxies[A]
                    futs.append(("call" + ("@srv" if ci == 0 else ""), px.rpc_nonblocking.bump()))
                elif kind == "ACQUIRE":
                    lockreq(ci, w.contexts[ci].make_unique_token(), kind)
                    lines.append(f"burn {ci}")
                    outs.append("ok")
                else:
                    lockreq(ci, tokA if ci == 1 else None, kind)
            _wait_until(lambda: _qlen(w) >= len(futs) or _qlen(w) < 0, 5.0)
            obs["queued"] = _qlen(w)

            def releaser():
                _wait_until(lambda: getattr(worker, "_shutdown_requested", True), 10.0)
                time.sleep(0.01)
                old_obj.release.set()
            rel = threading.Thread(target=releaser, daemon=True)
            rel.start()
            ended = {}

            def end():
                try:
                    if spec["end"] == "remove":
                        w.srv.remove_rpc_object(w.owner_proxy["obj"])
                    else:
                        w.srv.stop()
                    ended["ok"] = True
                except Exception as e:  # noqa
                    ended["exc"] = type(e).__name__
            # remove_rpc_object / stop join the worker; a worker that never ends must not take the harness with it
            watchdog = threading.Timer(20.0, old_obj.release.set)
            watchdog.daemon = True
            watchdog.start()
            end()
            watchdog.cancel()
            rel.join(5.0)
            obs["ended"] = ended
            obs["worker_alive"] = worker.is_alive()
            obs["worker_death"] = _state["instr"].thread_deaths.get(worker) if _state.get("instr") else None
            answers, grace = [], 5.0
            for (label, fu) in futs:
                try:
                    fu.wait(grace)
                    answers.append("answered")
                except QMI_RpcTimeoutException:
                    answers.append("hang")
                    grace = 0.02
                except Exception as e:  # noqa
                    answers.append("error:" + type(e).__name__)
            obs["labels"] = [l for l, _ in futs]
            obs["answers"] = answers
            obs["handled"] = [ev for ev in tap.log[n0:] if not (ev[0] == "mreq" and ev[1] == "hold")]
            if spec["end"] == "remove":
                # the name is free again: a new object under it starts unlocked and serves
                w._make_object("obj")
                lines.append("recreate")
                outs.append("ok")
                for o in (["islocked", S], ["call", S, "b"], ["lock", B, None], ["call", A, "b"], ["unlock", B, None]):
                    lines.append(_op_line(o))
                    outs.append(w.do_op(o))
                lines += ["owner", "probe"]
                outs += [_show_tok(w.owner()), w.probe()]
                obs["after"] = outs[-7:]
        finally:
            if w.obj is not None:
                w.obj.release.set()
            w.stop()
    return lines, outs, obs


def shutdown_oracle(spec: dict, obs: dict) -> list:
    tag = f"{spec['end']}:{spec['state']}"
    fails = []
    if obs.get("worker_death"):
        fails.append((f"shutdown:worker-died:{obs['worker_death']}:{tag}", f"the object's worker thread died of {obs['worker_death']} while shutting down"))
    if "exc" in obs.get("ended", {}):
        fails.append((f"shutdown:{spec['end']}-raised:{obs['ended']['exc']}:{tag}", "removing the object / stopping the context raised"))
    lost = [i for i, a in enumerate(obs["answers"]) if a == "hang"]
    if lost:
        kinds = "+".join(sorted({obs["labels"][i].split("@")[0] for i in lost}))
        fails.append((f"request-unanswered-at-shutdown:{kinds}:{tag}",
                      f"{len(lost)} of {len(obs['answers'])} requests queued behind a running call got no answer when the object went away "
                      f"(first: #{lost[0]} {obs['labels'][lost[0]]}); labels {obs['labels']}, answers {obs['answers']}"))
    if obs.get("handled"):
        fails.append((f"shutdown:request-executed-after-shutdown:{tag}", f"the worker still handled {len(obs['handled'])} queued request(s): {obs['handled'][:2]}"))
    if spec["end"] == "remove" and not fails:
        a = obs["after"]      # islocked S, call S, lock B, call A, unlock B, owner, probe
        if a[0] != "false" or a[1] != "ran 1" or a[2] != "true" or a[3] != "locked" or a[4] != "true" or a[5] != "-" or not a[6].startswith("alive"):
            fails.append((f"shutdown:recreated-object-not-fresh:{tag}", f"after re-creation: {a}"))
    return fails


# ---------------------------------------------------------------------------
# logging-configuration slice: the lock path logs (every denied lock / unlock, every refused call, every grant); the
# property quantifies over configurations, so a logging configuration must not be able to hang or disable the object
# ---------------------------------------------------------------------------

LOG_CONFIGS = ("console-warning", "console-debug", "file-ratelimit", "file")
LOG_BURST = 2


class _logging_config:
    """`qmi.core.logging_init.start_logging` with one configuration, in a private temp dir, console output into a sink; the
    clock seen by logging_init is a stepped one (advanced a little by every reading, a lot by the `pause` op), so the rate
    limiter's bucket runs empty and refills deterministically.  Everything is put back afterwards."""

    def __init__(self, cfg: str):
        self.cfg = cfg

    def __enter__(self):
        import os as _os
        import sys as _sys
        import tempfile
        import types
        import warnings
        import qmi.core.logging_init as li
        self.li = li
        root = logging.getLogger()
        self.saved = {
            "handlers": list(root.handlers), "filters": list(root.filters), "level": root.level, "disable": logging.root.manager.disable,
            "file_handler": li._file_handler, "except_hook_saved": li._saved_except_hook, "excepthook": _sys.excepthook,
            "warn_filters": list(warnings.filters), "capture": logging._warnings_showwarning is not None,
            "levels": {n: logging.getLogger(n).level for n in list(logging.root.manager.loggerDict) if n.startswith("qmi")},
            "time": li.time, "pause_hook": _state.get("pause_hook"),
        }
        self.tmp = tempfile.TemporaryDirectory()
        self.sink = open(_os.devnull, "w")
        for h in list(root.handlers):
            root.removeHandler(h)
        li._file_handler = None
        clock = {"t": 1000.0}
        real_time = self.saved["time"]
        shim = types.ModuleType("stepped_time")

        def monotonic():
            clock["t"] += 0.0005
            return clock["t"]
        shim.monotonic = monotonic
        shim.__getattr__ = lambda name: getattr(real_time, name)
        li.time = shim
        _state["pause_hook"] = lambda: clock.__setitem__("t", clock["t"] + 600.0)
        logging.disable(logging.NOTSET)
        stderr = _sys.stderr
        _sys.stderr = self.sink                       # the console handler binds sys.stderr when it is created
        try:
            logfile = _os.path.join(self.tmp.name, "qmi.log")
            if self.cfg == "console-warning":
                li.start_logging()
            elif self.cfg == "console-debug":
                li.start_logging(loglevel=logging.DEBUG, console_loglevel=logging.DEBUG)
            elif self.cfg == "file-ratelimit":
                li.start_logging(loglevel=logging.INFO, logfile=logfile, rate_limit=1.0, burst_limit=LOG_BURST)
            else:
                li.start_logging(loglevel=logging.DEBUG, logfile=logfile)
        finally:
            _sys.stderr = stderr
        self.logfile = logfile
        return self

    def __exit__(self, *a):
        import sys as _sys
        import warnings
        li, sv = self.li, self.saved
        logging.disable(logging.CRITICAL)                # nothing of ours may go through the configuration any more
        root = logging.getLogger()
        for h in list(root.handlers):
            root.removeHandler(h)
            try:
                h.close()
            except Exception:
                pass
        for h in sv["handlers"]:
            root.addHandler(h)
        root.filters[:] = sv["filters"]
        root.setLevel(sv["level"])
        for n, lv in sv["levels"].items():
            logging.getLogger(n).setLevel(lv)
        li._file_handler = sv["file_handler"]
        li._saved_except_hook = sv["except_hook_saved"]
        _sys.excepthook = sv["excepthook"]
        if not sv["capture"]:
            logging.captureWarnings(False)
        warnings.filters[:] = sv["warn_filters"]
        li.time = sv["time"]
        _state["pause_hook"] = sv["pause_hook"]
        logging.disable(sv["disable"])
        try:
            self.sink.close()
        except Exception:
            pass
        self.tmp.cleanup()
        return False


def logging_histories() -> list:
    """Representative lock scenarios with more denied requests in a row than the burst limit, a pause that lets the bucket
    refill, more denied requests, polling with lock(timeout), and the owner's unlock / somebody's force_unlock at the end.
    contexts: srv, cliA, cliB; proxies A (ctx 1), B (ctx 2), S (ctx 0)."""
    A, B, S = 0, 1, 2
    denied = [["lock", B, None], ["unlock", B, None], ["call", B, "b"], ["lock", S, "x"], ["unlock", S, "x"], ["call", S, "n"], ["islocked", B]]
    H = []
    for tail in ([["unlock", A, None], ["islocked", S], ["lock", B, None], ["call", B, "b"]],
                 [["force", S], ["islocked", B], ["call", A, "b"], ["lock", B, "x"], ["lock", A, None], ["unlock", B, "x"]]):
        ops = [["lock", A, None], ["call", A, "b"]] + denied + [["pause"]] + denied[:4] + [["locktimeout", B, 250]] + [["pause"]] \
              + [["call", B, "w"], ["unlock", B, None], ["lock", B, None]] + tail
        H.append({"srv": "srv", "ctxs": ["cliA", "cliB"], "proxies": [1, 2, 0], "ops": ops})
    return H


def live_queue_bounds() -> list:
    """Finite bounds of the live worker queue and every MAX_* integer of rpc.py / _RpcThread, read on this run."""
    import qmi.core.rpc as rpc
    b = []
    th = object.__new__(rpc._RpcThread)
    try:
        rpc._RpcThread.__init__(th, None, lambda: None)
        ml = getattr(getattr(th, "_fifo", None), "maxlen", None)
        if isinstance(ml, int):
            b.append(ml)
    except Exception:
        pass
    for holder in (rpc, rpc._RpcThread, rpc.RpcObjectManager):
        for nm in dir(holder):
            v = getattr(holder, nm, None)
            if "MAX" in nm.upper() and isinstance(v, int) and not isinstance(v, bool) and 0 < v <= 200000:
                b.append(v)
    return sorted(set(b))


def run_burst(spec: dict):
    """Lock-protocol requests queued behind a parked worker, then a burst of un-waited calls exceeding every bound."""
    import qmi.core.rpc as rpc
    from qmi.core.exceptions import QMI_RpcTimeoutException, QMI_RuntimeException
    hist = {"srv": "srv", "ctxs": ["cliA", "cliB", "gui"], "proxies": [1, 2, 3, 0], "ops": []}
    A, B, C, S = 0, 1, 2, 3
    w = _World(hist)
    lines, outs, obs = [], [], {"answers": {}, "n": spec["n"]}
    with _WorkerTap() as tap:
        try:
            w.start()
            nonce = [getattr(c, "_instance_id", "") or "-" for c in w.contexts]
            lines += [f"init srv {nonce[0]}"] + [f"ctx {nm} {nonce[i + 1]}" for i, nm in enumerate(hist["ctxs"])] + [f"proxy {c}" for c in hist["proxies"]]
            outs += ["ok", "1", "2", "3", "0", "1", "2", "3"]
            if spec["variant"] == "held":
                lines.append(_op_line(["lock", A, None]))
                outs.append(w.do_op(["lock", A, None]))
            parker = A if spec["variant"] == "held" else S
            n0 = len(tap.log)
            hold_fut = w.proxies[parker].rpc_nonblocking.hold()
            if not w.obj.entered.wait(10.0):
                raise RuntimeError("worker did not enter hold()")
            futs = []         # (label, future) in queue order

            def lockreq(ctx_i, tok, act):
                q0 = _qlen(w)
                f = rpc.QMI_RpcFuture(w.contexts[ctx_i], w.obj_addr, tok)
                f.send_lock_rpc_request_message(rpc.QMI_LockRpcAction[act])
                futs.append((act, f))
                _wait_until(lambda: _qlen(w) > q0 or _qlen(w) < 0, 10.0)      # it is in the queue before anything else is sent
            if spec["variant"] == "held":
                lockreq(1, w.proxies[A]._lock_token, "RELEASE")
            tokB = w.contexts[2].make_unique_token()
            lines.append("burn 2")
            outs.append("ok")
            lockreq(2, tokB, "ACQUIRE")
            lockreq(3, None, "QUERY")
            caller = w.proxies[A] if spec["variant"] == "held" else w.proxies[C]   # A still carries its (then stale) token
            for _ in range(spec["n"]):
                futs.append(("call", caller.rpc_nonblocking.bump()))
            f = rpc.QMI_RpcFuture(caller._context, w.obj_addr, None)
            f.send_lock_rpc_request_message(rpc.QMI_LockRpcAction.QUERY)
            futs.append(("QUERY", f))
            # everything sent must be waiting behind the parked worker before it is let go (a bounded queue shows here)
            _wait_until(lambda: _qlen(w) >= len(futs) or _qlen(w) < 0, 5.0)
            obs["qlen_parked"] = _qlen(w)
            w.obj.release.set()
            answers = []
            # FIFO: once the last request (sent on the burst's own connection) is answered, everything before it has been
            # handled; a request still unanswered then is lost - no point in waiting long for each of them
            last_ok = True
            try:
                futs[-1][1].wait(30.0)
            except QMI_RpcTimeoutException:
                last_ok = False
            except Exception:
                pass
            grace = 2.0
            for idx, (label, fu) in enumerate(futs):
                if idx == len(futs) - 1:
                    answers.append("answered" if last_ok else "hang")
                    continue
                try:
                    v = fu.wait(grace)
                    answers.append(f"ran {v}" if label == "call" else "answered")
                except QMI_RpcTimeoutException:
                    answers.append("hang")
                    grace = 0.02
                except QMI_RuntimeException as e:
                    answers.append("locked" if "locked" in str(e) else f"exc:{type(e).__name__}")
                except Exception as e:  # noqa
                    answers.append(f"exc:{type(e).__name__}")
            try:
                hold_fut.wait(10.0)
            except Exception:
                pass
            obs["labels"] = [l for l, _ in futs]
            obs["answers"] = answers
            log = tap.log[n0:]
            obs["handled"] = len(log)
            amap = {"ACQUIRE": "acquire", "RELEASE": "release", "FORCE_RELEASE": "force", "QUERY": "query"}
            for ev in log:
                if ev[0] == "mreq":
                    lines.append(f"mreq {_st(ev[2])}")
                    outs.append(f"ran {ev[5]}" if ev[4] == "RESULT_IS_VALUE" else "locked" if ev[4] == "OBJECT_IS_LOCKED" else f"exc:{ev[4]}")
                else:
                    lines.append(f"req {amap[ev[1]]} {_st(ev[2])}")
                    outs.append(f"{_st(ev[4])} {_st(ev[5])}")
            lines += ["owner", "probe"]
            outs += [_show_tok(w.owner()), w.probe()]
            obs["owner"] = w.owner()
            obs["tokB"] = tokB
            obs["count"] = w.obj.count
        finally:
            if w.obj is not None:
                w.obj.release.set()
            w.stop()
    return lines, outs, obs


def burst_oracle(spec: dict, obs: dict) -> list:
    tag = f"{spec['variant']}:n={'over-bound' if spec.get('over') else 'fixed'}"
    ans, labels = obs["answers"], obs["labels"]
    fails = []
    lost = [i for i, a in enumerate(ans) if a == "hang"]
    if lost:
        kinds = sorted({labels[i] for i in lost})
        fails.append((f"queue-overflow:request-never-answered:{'+'.join(kinds)}:{tag}",
                      f"{len(lost)} of {len(ans)} queued requests got no answer (first: #{lost[0]} {labels[lost[0]]}); queue length while parked {obs.get('qlen_parked')}"))
    if obs["handled"] != len(ans) + 1:
        fails.append((f"queue-overflow:worker-handled-{'fewer' if obs['handled'] < len(ans) + 1 else 'more'}-requests-than-sent:{tag}",
                      f"{len(ans) + 1} requests sent (incl. the parking call), the worker handled {obs['handled']}"))
    # the ACQUIRE queued before the burst locks the (then free) object: none of the burst's calls may execute
    ran = sum(1 for a, l in zip(ans, labels) if l == "call" and a.startswith("ran"))
    if ran:
        fails.append((f"queue-overflow:foreign-call-executed:{tag}", f"{ran} of {spec['n']} calls queued behind a lock request executed"))
    if obs["owner"] != obs["tokB"] and not fails:
        fails.append((f"queue-overflow:lock-request-lost:{tag}", f"owner {obs['owner']}, the queued ACQUIRE carried {obs['tokB']}"))
    return fails


# ---------------------------------------------------------------------------
# token boundary family: uniqueness over LONG runs (the counter -> string map must be injective)
# ---------------------------------------------------------------------------

def token_boundaries() -> list:
    pts = set(range(1, 40))
    for k in (4, 7, 8, 15, 16, 24, 31, 32, 48, 63, 64, 65):
        pts.update(range(max(1, 2 ** k - 2), 2 ** k + 3))
    for k in range(1, 21):
        pts.update(range(max(1, 10 ** k - 2), 10 ** k + 3))
    for k in (8, 16, 24, 32):                       # one full period later than the first tokens
        pts.update(range(2 ** k + 1, 2 ** k + 6))
        pts.update(range(2 * 2 ** k + 1, 2 * 2 ** k + 4))
    return sorted(pts)


def run_token_boundaries(names=("cli", "srv")):
    """Tokens through the public path (`make_unique_token()`) with the live per-prefix counter driven to every boundary.
    Returns (driver lines, impl outputs, [(name, counter value, token)])."""
    from qmi.core.context import QMI_Context
    lines, outs, taken = [], [], []
    for name in names:
        cx = QMI_Context(name)
        try:
            nonce = getattr(cx, "_instance_id", "") or "-"
            for n in token_boundaries():
                with cx._unique_counters_lock:
                    cx._unique_counters["$lock_"] = n - 1
                tok = cx.make_unique_token()
                after = cx._unique_counters.get("$lock_")
                taken.append((name, n, tok, after))
                lines.append(f"mktoken {name} {nonce} {n}")
                outs.append(_show_tok(tok))
        finally:
            try:
                import qmi
                qmi.object_registry.unregister(cx._oid)
            except Exception:
                pass
            for m in list(getattr(cx, "_rpc_object_map", {}).values()):      # the internal $context object of an unstarted context
                try:
                    if m is not None:
                        m.stop()
                except Exception:
                    pass
    return lines, outs, taken


def token_boundary_oracle(taken) -> list:
    fails = []
    seen = {}
    for (name, n, tok, after) in taken:
        if after != n:
            fails.append(("token-counter-not-advanced", f"context {name}: counter preset to {n - 1}, after make_unique_token() it is {after}"))
            break
        key = (name, tuple(tok))
        if key in seen and seen[key] != n:
            m = seen[key]
            d = abs(n - m)
            cls = f"2^{d.bit_length() - 1}" if d & (d - 1) == 0 else f"{d}"
            fails.append((f"auto-token-collision:same-context:counter-distance-{cls}",
                          f"context {name}: token number {n} = token number {m} = {tuple(tok)} (a proxy still holding number {m} is joined by attempt {n})"))
            break
        seen[key] = n
    return fails


def run_long_poll(n_polls: int):
    """A real long poll: A holds the lock, B (same context instance) polls lock() n_polls times; every one must be denied."""
    hist = {"srv": "srv", "ctxs": ["cli"], "proxies": [1, 1, 0], "ops": []}
    w = _World(hist)
    granted_at, toks = None, set()
    try:
        w.start()
        if w.do_op(["lock", 0, None]) != "true":
            return [("long-poll:setup-failed", "holder could not lock")]
        held = w.owner()
        pB = w.proxies[1]
        for i in range(n_polls):
            if pB.lock():
                granted_at = i + 2
                break
        fails = []
        if granted_at is not None:
            fails.append((f"lock-granted-while-locked:auto-vs-auto:same-context:long-poll",
                          f"lock attempt number {granted_at} of the context was granted while token number 1 ({held}) holds the lock; "
                          f"the poller now remembers {pB._lock_token}; its call: {w.do_op(['call', 1, 'b'])}"))
        elif w.owner() != held:
            fails.append(("long-poll:owner-changed", f"{held} -> {w.owner()}"))
        return fails
    finally:
        w.stop()


# ---------------------------------------------------------------------------
# the check
# ---------------------------------------------------------------------------

_MALFORMED = [("lock x -", "bad-op"), ("lock 0", "bad-op"), ("lock 0 x", "bad-op"), ("call 0 z", "bad-op"), ("proxy 99", "bad-op"),
              ("lock 99 -", "bad-op"), ("unlock 99 =x", "bad-op"), ("force 99", "bad-op"), ("islocked 99", "bad-op"),
              ("call 99 b", "bad-op"), ("burn 99", "bad-op"), ("tok 99", "bad-op"), ("counter 99", "bad-op"), ("", "bad-op"),
              ("frobnicate", "bad-op"), ("init", "bad-op"), ("init srv", "bad-op"), ("ctx cli", "bad-op"), ("proxy -1", "bad-op")]


class C04(Prop):
    id = "C04"
    lean_modules = ["QmiModel.Props.C04", "QmiModel.Props.C04Atomic"]
    props_files = ["QmiModel/Props/C04.lean", "QmiModel/Props/C04Atomic.lean"]
    driver = "drv_c04"
    modelled_not_verified = [
        "message transport between proxy and worker (QMI_RpcFuture, MessageRouter, TCP peers): a request reaches the worker and "
        "its reply reaches the caller unchanged — exercised over real loopback TCP here, verified by C01/C06, not by C04",
        "one request handled by the worker is a single action of the model (`lockRequest`/`callRequest`): the worker is one thread "
        "taking requests from its FIFO one at a time (C03's subject); checked over interleavings by the schedule family, not proved here",
        "threading.Lock gives mutual exclusion and each of `dict.get` / `dict.__setitem__` is atomic under the GIL (premises of "
        "Props/C04Atomic.lean, whose statement list of make_unique_token is generated from the AST)",
        "the float clock of lock(timeout > 0): the model counts time in whole ms and the harness never puts a timeout or a release on a "
        "multiple of the 100 ms period; round-trip times are 0 under the virtual clock (the theorems hold for arbitrary round-trip times)",
        "str(int) of the token counter = Lean `toString` on Nat (differentially checked by every automatic lock())",
        "two draws of 48 OS-random bits differ (residual probabilistic assumption behind the hypothesis `nonces …Nodup` of "
        "auto_tokens_distinct / only_holder_executes).  Checked: the identifier's source is classified from the AST (obligation "
        "gen_instance_id_from_os_entropy: >= 48 bits of OS entropy, assigned once); every context of the histories is constructed with "
        "the global PRNG re-seeded and clock/pid frozen; the same seeded script runs in fresh interpreters; the harness hands the real "
        "identifiers to the model",
        "custom tokens that imitate the automatic namespace (`$lock_<instance id>_<n>`) are deliberate forgery and are not generated",
        "pickling of QMI_LockTokenDescriptor preserves == (tokens cross real TCP connections in the correspondence run)",
    ]
    extra_trusted = [
        "translator c04.translate(): executes the real lock/dispatch handlers on a stub _RpcThread; assumes tokens are only compared "
        "(checked by re-running every cell with 6 randomised token pairs × 2 server names)",
    ]

    # -- translator -----------------------------------------------------------------------------
    def translate(self, ctx: Ctx):
        import random
        # the two generated files are independent: a source shape one translator does not understand must not keep the other
        # file (nor the harness, which needs only the driver) from being up to date; all complaints are raised together
        errors, written = [], []
        try:
            t = build_tables(random.Random(f"C04-translate:{ctx.seed}"))
            try:
                t["queue"] = build_queue_facts()
            except TranslatorError as e:
                errors.append(f"queue facts: {e}")
                t["queue"] = {"bound": None, "consts": {}}
            core.write_if_changed(GEN_FILE, render_gen(t))
            self._tables = t
            written.append(GEN_FILE)
        except TranslatorError as e:
            errors.append(f"lock table: {e}")
        try:
            tp = build_token_prog()
            try:
                tp["id_sources"] = build_instance_id_sources()
            except TranslatorError as e:
                errors.append(f"instance id sources: {e}")
                tp["id_sources"] = [".clientState"]
            core.write_if_changed(GEN_TOKEN_FILE, render_token_gen(tp))
            self._token_prog = tp
            written.append(GEN_TOKEN_FILE)
        except TranslatorError as e:
            errors.append(f"make_unique_token: {e}")
        if errors:
            raise TranslatorError("; ".join(errors))
        return written

    # -- helpers --------------------------------------------------------------------------------
    def _model(self, lines, res: Result):
        """Outputs of the model driver; when the driver cannot be run (it does not build on this tree) the implementation's own
        outputs are not diffed (`None` entries never equal a real output, so the link is reported once) - the oracles still run."""
        try:
            return LeanDriver(self.driver).run(lines)
        except Exception as e:  # noqa
            if not any(b.name == "C04.driver-unavailable" for b in res.broken):
                res.broken.append(Broken("correspondence", "C04.driver-unavailable", f"model driver could not be run: {type(e).__name__}: {str(e)[:200]}"))
            return None

    def _run_batch(self, ctx: Ctx, hists: list, res: Result, stream: str, failures: dict):
        """Run histories on the real code, diff with the model, evaluate the oracle."""
        all_lines, all_outs, spans = [], [], []
        for h in hists:
            try:
                lines, outs, trace = run_history(h)
            except Exception as e:  # noqa — one scenario going wrong must not take the run down: it is reported with its history
                failures.setdefault(f"scenario-aborted:{type(e).__name__}", []).append(
                    (h, f"running the history raised {type(e).__name__}: {str(e)[:200]} ({traceback.format_exc().strip().splitlines()[-3][:160]})"))
                res.count("scenarios_aborted")
                continue
            spans.append((len(all_lines), len(lines), h))
            all_lines += lines
            all_outs += outs
            res.traces_validated += 1
            kinds = {e["op"][0] for e in trace}
            dup = len(set(h["ctxs"])) < len(h["ctxs"])
            res.note_case((h["srv"], tuple(h["ctxs"]), tuple(h["proxies"]), tuple(map(tuple, h["ops"]))),
                          nontrivial=("lock" in kinds and ("call" in kinds or "unlock" in kinds)))
            res.count(f"{stream}_histories")
            res.count("histories_with_same_named_contexts", 1 if dup else 0)
            res.count("histories_using_owning_context_proxy", 1 if 0 in h["proxies"] else 0)
            res.count("ops_total", len(trace))
            res.count("histories_where_worker_died", 1 if any(not e["probe"].startswith("alive") for e in trace) else 0)
            for e in trace:
                k = e["op"][0]
                lk = "L" if e["owner_before"] is not None else "U"
                res.count(f"op_{k}_{lk}")
                if k in ("lock", "unlock"):
                    res.count(f"{k}_{'custom' if e['op'][2] is not None else 'auto'}")
                if k == "call":
                    res.count(f"call_{e['op'][2]}_{e['out'].split()[0]}")
                if k in ("lock", "unlock", "islocked"):
                    res.count(f"{k}_result_{e['out']}")
            if len(res.samples) < 3:
                res.sample({"history": {k: v for k, v in h.items() if k != "cell"}, "impl": _jsonable_trace(trace)[:12]}, 3)
            for (sig, detail, idx) in oracle(h, trace):
                failures.setdefault(sig, []).append((h, detail))
        model = self._model(all_lines, res)
        k = diff_streams(all_lines, all_outs, model) if model is not None else None
        if k is not None:
            for (start, ln, h) in spans:
                if start <= k < start + ln:
                    res.broken.append(Broken(
                        "correspondence", f"Lock.step vs real proxies/worker ({stream})",
                        f"line {k - start}: op={all_lines[k]!r} impl={all_outs[k]!r} model={model[k]!r} (previous op: {all_lines[max(start, k - 4):k]})",
                        case={k2: v for k2, v in h.items() if k2 != "cell"}))
                    break

    def _report(self, failures: dict, res: Result, do_shrink: bool = True):
        shrunk, spent = 0, 0.0
        for sig, lst in failures.items():
            h, detail = min(lst, key=lambda x: len(x[0]["ops"]))
            if do_shrink and shrunk < 8 and spent < 40.0:         # shrinking re-runs the real code: keep it within seconds
                t_s = time.monotonic()
                small = shrink(h, sig)
                spent += time.monotonic() - t_s
                shrunk += 1
            else:
                small = {k: v for k, v in h.items() if k != "cell"}
            try:
                _, _, tr = run_history(small)
                det = [d for (s, d, _) in oracle(small, tr) if s == sig]
                detail = det[0] if det else detail
                shown = _jsonable_trace(tr)
            except Exception:
                shown = []
            res.failures.append(Failure(
                signature=sig,
                summary=f"{sig}: contexts={[small['srv']] + small['ctxs']} proxies@ctx={small['proxies']} ops={small['ops']}: {detail}",
                replay={"kind": "history", "history": small, "signature": sig, "observed": shown, "seen_in_histories": len(lst)}))

    # -- schedule family ----------------------------------------------------------------------------
    def _conc_one(self, spec: dict, res: Result, cfail: dict, lines_acc: list):
        out, events, results = run_conc(spec)
        res.note_case(("conc", spec["layout"], spec["threads"], spec["rounds"], spec["policy"], spec["seed"],
                       tuple(spec["change_points"] or ())), nontrivial=True)
        res.count("conc_scenarios")
        res.count(f"conc_{spec['layout']}_{spec['threads']}threads")
        res.count(f"conc_policy_{spec['policy']}{'_sweep' if spec.get('change_points') else ''}")
        res.count("conc_sched_steps", out.sched.steps)
        grants = sum(1 for e in events if e[0] == "lockreq" and e[1] == "ACQUIRE" and e[4] == e[2])
        denied = sum(1 for e in events if e[0] == "lockreq" and e[1] == "ACQUIRE" and e[4] != e[2])
        res.count("conc_acquire_granted", grants)
        res.count("conc_acquire_denied", denied)
        res.count("conc_calls_refused", sum(1 for e in events if e[0] == "mreq" and e[4] == "OBJECT_IS_LOCKED"))
        res.traces_validated += 1
        for (sig, detail) in conc_oracle(spec, out, events, results):
            cfail.setdefault(sig, []).append((spec, detail))
        l, o = conc_model_lines(events)
        lines_acc.append((spec, l, o))
        return out, events

    def _conc_family(self, ctx: Ctx, res: Result, quick: bool):
        """weighted + pct runs of every layout, then change-point sweeps: every step of the first make_unique_token calls
        of a baseline pct run (the window a lost counter update needs), and a coarse sweep over the concurrent phase."""
        cfail: dict = {}
        acc: list = []
        for spec in conc_specs(ctx.rng, quick):
            self._conc_one(spec, res, cfail, acc)
        for lay in _CONC_LAYOUTS:
            for k in ((2,) if quick else (2, 3)):
                k = max(k, 3) if lay == "mixed" else k
                base = {"kind": "conc", "layout": lay, "threads": k, "rounds": 1, "policy": "pct",
                        "seed": ctx.rng.randrange(1 << 30), "change_points": []}
                out, events = self._conc_one(base, res, cfail, acc)
                start = next((e[1] for e in events if e[0] == "start"), 0)
                pts = set()
                for e in [e for e in events if e[0] == "gen"][:2]:
                    pts.update(range(max(1, e[4] - 1), e[5] + 2))
                span = max(1, out.sched.steps - start)
                stride = max(1, span // (10 if quick else 40))
                pts.update(range(start, out.sched.steps, stride))
                for c in sorted(pts):
                    self._conc_one({**base, "change_points": [c]}, res, cfail, acc)
        # trace refinement of the worker-side request log
        all_lines, all_outs, spans = [], [], []
        for (spec, l, o) in acc:
            spans.append((len(all_lines), len(l), spec))
            all_lines += l
            all_outs += o
        model = self._model(all_lines, res)
        kx = diff_streams(all_lines, all_outs, model) if model is not None else None
        if kx is not None:
            for (start, ln, spec) in spans:
                if start <= kx < start + ln:
                    res.broken.append(Broken("correspondence", "Lock.lockRequest/callRequest vs worker request log (schedule family)",
                                             f"line {kx - start}: {all_lines[kx]!r} impl={all_outs[kx]!r} model={model[kx]!r}",
                                             case={"kind": "conc", "spec": spec}))
                    break
        for sig, lst in cfail.items():
            spec, detail = lst[0]
            res.failures.append(Failure(sig, f"{sig}: {spec['layout']}, {spec['threads']} threads, policy={spec['policy']} "
                                             f"seed={spec['seed']} change_points={spec.get('change_points')}: {detail}",
                                        {"kind": "conc", "spec": spec, "signature": sig, "seen_in_scenarios": len(lst)}))

    # -- retry family -------------------------------------------------------------------------------
    def _retry_family(self, ctx: Ctx, res: Result, quick: bool):
        all_lines, all_outs, spans = [], [], []
        rfail: dict = {}
        for spec in retry_specs(ctx.rng, quick):
            out, events, val = run_retry(spec)
            fails, l, o = retry_check(spec, out, events, val)
            res.note_case(("retry", spec["timeout_ms"], spec["release_ms"], spec["holder"], spec["waiter"], spec["custom_h"],
                           spec["custom_w"], tuple(spec["ctxs"])), nontrivial=True)
            res.count("retry_scenarios")
            res.count("retry_result_" + str((val or {}).get("waiter", ("?",))[0]))
            res.traces_validated += 1
            for (sig, detail) in fails:
                rfail.setdefault(sig, []).append((spec, detail))
            spans.append((len(all_lines), len(l), spec))
            all_lines += l
            all_outs += o
        model = self._model(all_lines, res)
        kx = diff_streams(all_lines, all_outs, model) if model is not None else None
        if kx is not None:
            for (start, ln, spec) in spans:
                if start <= kx < start + ln:
                    res.broken.append(Broken("correspondence", "Lock.proxyLockRetry vs QMI_RpcProxy.lock(timeout>0) (retry family)",
                                             f"{all_lines[kx]!r}: impl={all_outs[kx]!r} model={model[kx]!r}", case={"kind": "retry", "spec": spec}))
                    break
        for sig, lst in rfail.items():
            spec, detail = lst[0]
            res.failures.append(Failure(sig, f"{sig}: {spec}: {detail}", {"kind": "retry", "spec": spec, "signature": sig}))

    # -- fault + burst families ------------------------------------------------------------------------
    def _fault_family(self, ctx: Ctx, res: Result, quick: bool):
        all_lines, all_outs, spans = [], [], []
        ffail: dict = {}
        with _Instrumented():
            for spec in fault_specs(quick):
                try:
                    lines, outs, obs = run_fault(spec)
                except Exception as e:  # noqa
                    ffail.setdefault(f"scenario-aborted:{type(e).__name__}:fault:{spec['req']}:{spec['state']}", []).append((spec, f"{type(e).__name__}: {str(e)[:200]}"))
                    continue
                res.note_case(("fault", spec["state"], spec["req"]), nontrivial=True)
                res.count("fault_scenarios")
                res.traces_validated += 1
                for (sig, detail) in fault_oracle(spec, obs):
                    ffail.setdefault(sig, []).append((spec, detail))
                spans.append((len(all_lines), len(lines), spec))
                all_lines += lines
                all_outs += outs
            for end in _SHUT_ENDS:
                for state in _SHUT_STATES:
                    spec = {"kind": "shutdown", "end": end, "state": state, "order": ctx.rng.randrange(8)}
                    try:
                        lines, outs, obs = run_shutdown(spec)
                    except Exception as e:  # noqa
                        ffail.setdefault(f"scenario-aborted:{type(e).__name__}:shutdown:{end}:{state}", []).append((spec, f"{type(e).__name__}: {str(e)[:200]}"))
                        continue
                    res.note_case(("shutdown", end, state, spec["order"]), nontrivial=True)
                    res.count("shutdown_scenarios")
                    res.traces_validated += 1
                    for (sig, detail) in shutdown_oracle(spec, obs):
                        ffail.setdefault(sig, []).append((spec, detail))
                    spans.append((len(all_lines), len(lines), spec))
                    all_lines += lines
                    all_outs += outs
            bounds = live_queue_bounds()
            res.extra["live_queue_bounds"] = bounds
            sizes = [(b + 60, True) for b in bounds] or [(ctx.scale(2500, 6000), False)]
            for (n, over) in sizes:
                for variant in ("free", "held"):
                    spec = {"kind": "burst", "variant": variant, "n": n, "over": over}
                    try:
                        lines, outs, obs = run_burst(spec)
                    except Exception as e:  # noqa
                        ffail.setdefault(f"scenario-aborted:{type(e).__name__}:burst:{variant}", []).append((spec, f"{type(e).__name__}: {str(e)[:200]}"))
                        continue
                    res.note_case(("burst", variant, n), nontrivial=True)
                    res.count("burst_scenarios")
                    res.count("burst_requests", n)
                    res.traces_validated += 1
                    for (sig, detail) in burst_oracle(spec, obs):
                        ffail.setdefault(sig, []).append((spec, detail))
                    spans.append((len(all_lines), len(lines), spec))
                    all_lines += lines
                    all_outs += outs
        model = self._model(all_lines, res)
        kx = diff_streams(all_lines, all_outs, model) if model is not None else None
        if kx is not None:
            for (start, ln, spec) in spans:
                if start <= kx < start + ln:
                    res.broken.append(Broken("correspondence", "Lock model vs worker under faults / bursts",
                                             f"{all_lines[kx]!r}: impl={all_outs[kx]!r} model={model[kx]!r}", case=spec))
                    break
        for sig, lst in ffail.items():
            spec, detail = lst[0]
            res.failures.append(Failure(sig, f"{sig}: {spec}: {detail}", {**spec, "signature": sig}))

    # -- token boundary family -------------------------------------------------------------------------
    def _token_family(self, ctx: Ctx, res: Result):
        lines, outs, taken = run_token_boundaries()
        res.note_case(("token-boundaries", len(taken)), nontrivial=True)
        res.count("token_boundary_values", len(taken))
        res.traces_validated += 1
        for (sig, detail) in token_boundary_oracle(taken):
            res.failures.append(Failure(sig, f"{sig}: {detail}", {"kind": "tokens", "signature": sig}))
        model = self._model(["init srv 0"] + lines, res)
        kx = diff_streams(lines, outs, model[1:]) if model is not None else None
        if kx is not None:
            res.broken.append(Broken("correspondence", "Lock.mkToken vs QMI_Context.make_unique_token (counter boundaries)",
                                     f"{lines[kx]!r}: impl={outs[kx]!r} model={model[kx]!r}", case={"kind": "tokens"}))
        if not ctx.quick:
            with _Instrumented():
                n = 70000
                res.count("long_poll_lock_calls", n)
                for (sig, detail) in run_long_poll(n):
                    res.failures.append(Failure(sig, f"{sig}: {detail}", {"kind": "longpoll", "n": n, "signature": sig}))

    # -- logging-configuration slice --------------------------------------------------------------------
    def _logging_family(self, ctx: Ctx, res: Result):
        for cfg in LOG_CONFIGS:
            failures: dict = {}
            sub = Result()
            try:
                with _logging_config(cfg):
                    with _Instrumented(silence=False):
                        for h in logging_histories():
                            self._run_batch(ctx, [h], sub, f"logging:{cfg}", failures)
                            if failures:
                                break        # whatever went wrong may have wedged the logging machinery of this configuration
            except Exception as e:  # noqa
                failures.setdefault(f"scenario-aborted:{type(e).__name__}:logging:{cfg}", []).append((logging_histories()[0], f"{type(e).__name__}: {str(e)[:200]}"))
            sub.samples = []
            res.merge(sub)
            res.count(f"logging_config_{cfg}")
            for sig, lst in failures.items():
                h, detail = lst[0]
                res.failures.append(Failure(f"{sig}:logging={cfg}", f"{sig} under logging configuration {cfg}: ops={h['ops']}: {detail}",
                                            {"kind": "logcfg", "config": cfg, "history": {k: v for k, v in h.items() if k != "cell"},
                                             "signature": f"{sig}:logging={cfg}"}))

    # -- fresh-process family ------------------------------------------------------------------------
    def _fresh_process_family(self, ctx: Ctx, res: Result):
        for (k, names) in ((ALIGN_SEED, ["measure", "measure"]), (0, ["cli"])):
            outs = run_fresh_processes(k, names, runs=3 if ctx.quick else 5)
            res.note_case(("procs", k, tuple(names)), nontrivial=True)
            res.count("fresh_process_runs", len(outs))
            res.traces_validated += 1
            for (sig, detail) in fresh_process_oracle(outs):
                res.failures.append(Failure(sig, f"{sig}: script seeded with random.seed({k}), contexts {names}: {detail}",
                                            {"kind": "procs", "seed_value": k, "names": names, "signature": sig}))

    # -- correspondence ---------------------------------------------------------------------------
    def correspondence(self, ctx: Ctx) -> Result:
        res = Result(rule="history = (server name, 1-3 client context names incl. duplicates, 1-4 proxies placed in the client contexts "
                          "or the owning context, op list over lock/unlock (automatic + custom tokens)/force_unlock/is_locked/"
                          "call (blocking + non-blocking)/burn) from the seeded PRNG, run on real QMI_Context instances over loopback TCP; "
                          "plus the exhaustive (state × action × actor) sweep; non-trivial = contains a lock and a call or unlock; "
                          "distinct by the full history; schedule family: 2-4 managed threads (same context / different contexts / "
                          "mixed) doing lock-call-unlock under the deterministic scheduler with line-level yield points in "
                          "make_unique_token, weighted + pct policies + change-point sweeps, worker request log replayed on the model")
        failures: dict = {}
        with _Instrumented():
            corpus = corpus_histories()
            if ctx.quick:                                  # every order of events once (the stayer rotates); all 72 in the thorough tier
                conn = [h for h in corpus if h.get("conn")]
                corpus = [h for h in corpus if not h.get("conn")] + conn[ctx.seed % 3::3]
            self._run_batch(ctx, corpus, res, "corpus", failures)
            self._run_batch(ctx, sweep_histories(), res, "sweep", failures)
            n = ctx.scale(340, 4000)
            max_ops = ctx.scale(40, 400)
            hists = [gen_history(ctx.rng, max_ops if (ctx.quick or i % 8 == 0) else 60) for i in range(n)]
            for i in range(0, len(hists), 100):
                self._run_batch(ctx, hists[i:i + 100], res, "random", failures)
            self._report(failures, res)
        self._conc_family(ctx, res, ctx.quick)
        self._retry_family(ctx, res, ctx.quick)
        self._fresh_process_family(ctx, res)
        self._logging_family(ctx, res)
        self._token_family(ctx, res)
        self._fault_family(ctx, res, ctx.quick)
        # malformed driver input
        lines = ["init srv a0", "ctx cli b1", "proxy 1"] + [l for l, _ in _MALFORMED]
        outs = self._model(lines, res) or [None] * len(lines)
        for (l, exp), got in zip(_MALFORMED, outs[3:]):
            if got is None:
                break
            res.count("malformed_lines")
            if got != exp:
                res.broken.append(Broken("correspondence", "driver malformed-line handling", f"{l!r}: {got!r} != {exp!r}"))
        t = getattr(self, "_tables", None)
        if t:
            res.extra["generated_lock_table"] = {f"{a}/{'locked' if l else 'unlocked'}/{r}": c for (a, l, r), c in t["lock"].items()}
            res.extra["generated_dispatch_guard"] = {f"{'locked' if l else 'unlocked'}/{r}": c for (l, r), c in t["guard"].items()}
        res.assumptions.append("same-named client contexts inside one process stand for separate processes that share a context name")
        return res

    # -- search -----------------------------------------------------------------------------------
    def search(self, ctx: Ctx, broken) -> Result:
        res = Result()
        failures: dict = {}
        for b in broken:
            if b.case and b.case.get("kind") == "conc":
                spec = b.case["spec"]
                out, events, results = run_conc(spec)
                res.note_case(("conc-case", repr(spec)))
                for (sig, detail) in conc_oracle(spec, out, events, results):
                    res.failures.append(Failure(sig, f"{sig}: {spec}: {detail}", {"kind": "conc", "spec": spec, "signature": sig}))
        for b in broken:
            if b.case and b.case.get("kind") == "retry":
                spec = b.case["spec"]
                out, events, val = run_retry(spec)
                for (sig, detail) in retry_check(spec, out, events, val)[0]:
                    res.failures.append(Failure(sig, f"{sig}: {spec}: {detail}", {"kind": "retry", "spec": spec, "signature": sig}))
        if not any(f.signature.startswith("concurrent:") for f in res.failures):
            # every family again with the oracles alone (the model driver may not even build on this tree)
            sub = Result()
            for fam in (lambda: self._token_family(ctx, sub), lambda: self._fresh_process_family(ctx, sub),
                        lambda: self._fault_family(ctx, sub, ctx.quick), lambda: self._conc_family(ctx, sub, False),
                        lambda: self._retry_family(ctx, sub, False)):
                try:
                    fam()
                except Exception as e:  # noqa
                    ctx.log(f"search: a family crashed: {type(e).__name__}: {e}")
            sub.broken = []
            res.merge(sub)
        with _Instrumented():
            for b in broken:
                if b.case and "ops" in b.case:
                    _, _, tr = run_history(b.case)
                    res.note_case(("case", repr(b.case)))
                    for (sig, detail, _) in oracle(b.case, tr):
                        failures.setdefault(sig, []).append((b.case, detail))
            # systematic: every cell, then every op string up to length 3 over a 3-proxy alphabet in two populations
            for h in corpus_histories() + sweep_histories():
                _, _, tr = run_history(h)
                res.note_case(("sweep", h["cell"]))
                for (sig, detail, _) in oracle(h, tr):
                    failures.setdefault(sig, []).append((h, detail))
            for ctxs, proxies in ((["cli", "gui"], [1, 2, 0]), (["cli", "cli"], [1, 2, 1])):
                alpha = []
                for p in range(3):
                    alpha += [["lock", p, None], ["lock", p, "x"], ["unlock", p, None], ["unlock", p, "x"], ["force", p],
                              ["islocked", p], ["call", p, "b"]]
                for n in (1, 2, 3):
                    for ops in itertools.product(alpha, repeat=n):
                        if n == 3 and not (ops[0][0] == "lock" and ops[0][1] < 2):
                            continue
                        h = {"srv": "srv", "ctxs": ctxs, "proxies": proxies, "ops": [list(o) for o in ops]}
                        _, _, tr = run_history(h)
                        res.note_case(("exh", tuple(ctxs), tuple(map(tuple, ops))))
                        for (sig, detail, _) in oracle(h, tr):
                            failures.setdefault(sig, []).append((h, detail))
            self._report(failures, res)
        return res

    # -- replay -----------------------------------------------------------------------------------
    def replay(self, ctx: Ctx, rp: dict):
        if rp.get("kind") in ("fault", "burst", "shutdown"):
            with _Instrumented():
                if rp["kind"] == "shutdown":
                    fs = shutdown_oracle(rp, run_shutdown(rp)[2])
                elif rp["kind"] == "fault":
                    fs = fault_oracle(rp, run_fault(rp)[2])
                else:
                    fs = burst_oracle(rp, run_burst(rp)[2])
            if not fs:
                return None
            sig, detail = next(((s_, d) for (s_, d) in fs if s_ == rp.get("signature")), fs[0])
            return Failure(sig, f"{sig}: {detail}", rp)
        if rp.get("kind") == "logcfg":
            h = rp["history"]
            with _logging_config(rp["config"]):
                with _Instrumented(silence=False):
                    try:
                        _, _, tr = run_history(h)
                    except Exception as e:  # noqa
                        return Failure(f"scenario-aborted:{type(e).__name__}:logging={rp['config']}", str(e), rp)
                    fs = oracle(h, tr)
            if not fs:
                return None
            return Failure(f"{fs[0][0]}:logging={rp['config']}", f"{fs[0][0]}: {fs[0][1]}", rp)
        if rp.get("kind") == "tokens":
            fs = token_boundary_oracle(run_token_boundaries()[2])
            return Failure(fs[0][0], f"{fs[0][0]}: {fs[0][1]}", rp) if fs else None
        if rp.get("kind") == "longpoll":
            with _Instrumented():
                fs = run_long_poll(rp.get("n", 70000))
            return Failure(fs[0][0], f"{fs[0][0]}: {fs[0][1]}", rp) if fs else None
        if rp.get("kind") == "procs":
            fs = fresh_process_oracle(run_fresh_processes(rp["seed_value"], rp["names"]))
            return Failure(fs[0][0], f"{fs[0][0]}: {fs[0][1]}", rp) if fs else None
        if rp.get("kind") == "retry":
            spec = rp["spec"]
            out, events, val = run_retry(spec)
            fs = retry_check(spec, out, events, val)[0]
            if not fs:
                return None
            sig, detail = next(((s_, d) for (s_, d) in fs if s_ == rp.get("signature")), fs[0])
            return Failure(sig, f"{sig}: {detail}", rp)
        if rp.get("kind") == "conc":
            spec = rp["spec"]
            out, events, results = run_conc(spec)
            fs = conc_oracle(spec, out, events, results)
            if not fs:
                return None
            sig, detail = next(((s_, d) for (s_, d) in fs if s_ == rp.get("signature")), fs[0])
            return Failure(sig, f"{sig}: {detail}", rp)
        h = rp["history"]
        with _Instrumented():
            try:
                _, _, tr = run_history(h)
            except Exception as e:  # noqa
                return Failure(f"scenario-aborted:{type(e).__name__}", f"running the history raised {type(e).__name__}: {e}", rp)
            fs = oracle(h, tr)
        if not fs:
            return None
        want = rp.get("signature")
        for (sig, detail, _) in fs:
            if sig == want:
                return Failure(sig, f"{sig}: {detail}", rp)
        sig, detail, _ = fs[0]
        return Failure(sig, f"{sig}: {detail}", rp)


PROP = C04()
