"""C11 — a stop request always wakes a waiting task.

Model      lean/QmiModel/Model/Wake.lean (generic interpreter), Model/WakeSys.lean (systems)
Generated  lean/QmiModel/Gen/SyncProgs.lean  <- harness/tr_syncprogs.py (AST of task.py / pubsub.py), every run
Theorems   lean/QmiModel/Props/C11.lean (closure + no lost wake-up ... per generated system, `decide +kernel`)
Driver     lean/Drv/C11.lean (trace following, exhaustive exploration with schedule output)

Tie to the implementation (this file): the real `QMI_Context` / `make_task` / proxy `start, stop, join` run under the
deterministic scheduler with line-level yield points inside the six anchored functions.  The stop request is swept over
every yield index of the run (`policy="pct", change_points=[k]`), once with the task thread at the highest priority
(stop injected into the task's wait path) and once at the lowest (the wait starts after / in the middle of the stop
request).  Every run yields the sequence of primitive operations on the named objects (stop flag, `_wait_cond` slot and
its lock, `_state_cond`, the receiver's `_queue_cond`); it must be a path of the generated system (asked of the driver),
and the property itself is evaluated directly on the run (oracle).
"""
from __future__ import annotations

import contextlib
import sys
import threading as _rt
import time as _time
from typing import Optional

from harness import core
from harness.core import Broken, Ctx, Failure, LeanDriver, Prop, Result

GEN_FILE = core.LEAN / "QmiModel" / "Gen" / "SyncProgs.lean"

SLEEP_D, RECV_T, LOOP_P = 50.0, 70.0, 30.0
KINDS = ("sleep", "recvN", "recvT", "mixed", "loop")
# boundary durations for sleep(): zero, "deadline already passed", tiny; the property does not depend on the duration
EDGE_DURS = (0, 0.0, -0.25, 1e-9, 0.01)


# ---------------------------------------------------------------------------------------------------------
# one scenario on the real code
# ---------------------------------------------------------------------------------------------------------

class Obs:
    def __init__(self):
        self.events: list = []          # (model thread id, label)
        self.deadlock = None
        self.budget = False
        self.error = None
        self.thread_errors: list = []
        self.released = None            # virtual time at which the task saw QMI_TaskStopException / run() ended
        self.how = None                 # 'stop' | 'return' | 'exc:<T>'
        self.t_stop = None
        self.t_flag = None
        self.work_after_stop = 0.0
        self.ran = False
        self.finalized = 0
        self.iterations_after_release = 0
        self.steps = 0
        self.k0 = 0
        self.join_returned = False
        self.now_end = None
        self.tap_error = None
        self.n_stop = 1
        self.pub = 0


def _trace_funcs():
    from qmi.core import pubsub
    from qmi.core.task import QMI_LoopTask, QMI_Task, _TaskThread
    fs = [_TaskThread.stop_task, _TaskThread.wait_for_condition, QMI_Task.sleep, pubsub._wait_for_condition,
          pubsub.QMI_SignalReceiver.get_next_signal, QMI_LoopTask.run]
    return [getattr(f, "__wrapped__", f) for f in fs]


@contextlib.contextmanager
def _taps(sched, box, obs: Obs, guide=None):
    """Observe the primitive operations on the named objects, from outside (restored on exit)."""
    from harness import detsched as D
    from qmi.core.task import _TaskThread
    stopper_of: dict = {}
    publishers: set = set()
    state = {"next_stopper": 1, "condok": {}}

    def role():
        ts = sched.me()
        if ts is None:
            return None
        if ts.thread is box.get("thread"):
            return 0 if box.get("in_run") else None
        ident = _rt.get_ident()
        if ident in stopper_of:
            return stopper_of[ident]
        if ident in publishers:
            return obs.n_stop + 1
        return None

    def log(label: str):
        r = role()
        if r is None:
            return
        if r == obs.n_stop + 1:                         # publisher: its critical section is one action
            if label != "notify":
                return
            label = "publish"
        obs.events.append((r, label))
        if guide is not None:
            guide.advance(r)

    def lock_id(o):
        th = box.get("thread")
        if th is None:
            return None
        if o is getattr(th, "_wait_cond_lock", None):
            return 0
        sc = getattr(th, "_state_cond", None)
        if sc is not None and (o is sc or o is getattr(sc, "_lock", None)):
            return 1
        qc = box.get("qc")
        if qc is not None and (o is qc or o is getattr(qc, "_lock", None)):
            return 2
        return None

    def is_flag(o):
        t = box.get("task")
        return t is not None and o is getattr(t, "_stop_requested", None)

    orig_yp = sched.yield_point

    def yp(label, blocked_on=None, timeout=None):
        o = sys._getframe(1).f_locals.get("self")
        post = None
        try:
            if label in ("lock.acquire", "rlock.acquire"):
                l = lock_id(o)
                if l is not None:
                    post = lambda ok: log(f"lock:{l}") if ok else None
            elif label in ("lock.release", "rlock.release"):
                l = lock_id(o)
                if l is not None:
                    log(f"unlock:{l}")
            elif label == "event.set" and is_flag(o):
                if obs.t_flag is None:
                    obs.t_flag = sched.now
                log("setflag")
            elif label == "event.check" and is_flag(o):
                log("evcheck")
            elif label == "event.wait" and is_flag(o):
                log("evpark")
                post = lambda ok: log(f"evwake:{1 if ok else 0}")
            elif label == "cond.wait" and lock_id(o) == 2:
                log("park")
                me = _rt.get_ident()
                post = lambda ok: state["condok"].__setitem__(me, ok)
            elif label == "cond.reacquire" and lock_id(o) == 2:
                me = _rt.get_ident()
                post = lambda ok: log(f"reacq:{1 if state['condok'].pop(me, True) else 0}")
            elif label == "time.sleep" and role() == 0:
                log("slpark")
                post = lambda ok: log("slwake")
        except Exception as e:  # noqa - a tap must never change the run
            obs.tap_error = obs.tap_error or f"{type(e).__name__}: {e}"
        ok = orig_yp(label, blocked_on, timeout)
        if post is not None:
            post(ok)
        return ok

    sched.yield_point = yp
    obs.t_flag = None

    orig_is_set, orig_notify = D.Event.is_set, D.Condition.notify

    def after_shared_access(tag):
        # an unsynchronised shared field was just read / written: that is an interleaving point
        if role() is not None and not sched.aborting:
            orig_yp(tag)

    def is_set(self):
        v = orig_is_set(self)
        if is_flag(self):
            log(f"ldflag:{1 if v else 0}")
            after_shared_access("tap.flag.read")
        return v

    def notify(self, n=1):
        l = lock_id(self)
        if l in (1, 2):
            if not self._lock._is_owned():
                log("crash")
            else:
                log("notify" if l == 2 else "notify:1")
        return orig_notify(self, n)

    D.Event.is_set = is_set
    D.Condition.notify = notify

    def wc_get(self):
        v = self.__dict__.get("_wait_cond")
        if self is box.get("thread"):
            log(f"ldwc:{0 if v is None else 1}")
            after_shared_access("tap.wc.read")
        return v

    def wc_set(self, v):
        self.__dict__["_wait_cond"] = v
        if self is box.get("thread"):
            log(f"stwc:{0 if v is None else 1}")
            after_shared_access("tap.wc.write")

    had_wc = "_wait_cond" in _TaskThread.__dict__
    saved_wc = _TaskThread.__dict__.get("_wait_cond")
    _TaskThread._wait_cond = property(wc_get, wc_set)

    orig_stop_task = _TaskThread.stop_task

    def stop_task(self):
        ident = _rt.get_ident()
        ts = sched.me()
        if self is not box.get("thread") or (ts is not None and ts.thread is self) or ident in stopper_of:
            return orig_stop_task(self)
        stopper_of[ident] = state["next_stopper"]
        state["next_stopper"] += 1
        try:
            return orig_stop_task(self)
        finally:
            del stopper_of[ident]

    stop_task.__wrapped__ = orig_stop_task
    _TaskThread.stop_task = stop_task
    box["publishers"] = publishers
    try:
        yield
    finally:
        _TaskThread.stop_task = orig_stop_task
        if had_wc:
            _TaskThread._wait_cond = saved_wc
        else:
            del _TaskThread._wait_cond
        D.Event.is_set, D.Condition.notify = orig_is_set, orig_notify
        try:
            del sched.yield_point
        except AttributeError:
            pass


class _Guide:
    """Schedule guidance for the failing-input search: follow a model schedule [(tid, label), ...] as far as possible."""

    def __init__(self, schedule, box, n_stop):
        self.seq = list(schedule)
        self.i = 0
        self.box = box
        self.n_stop = n_stop

    def advance(self, tid):
        if self.i < len(self.seq) and self.seq[self.i][0] == tid:
            self.i += 1

    def install(self, sched):
        orig_pick = sched._pick
        guide = self

        def pick(ready, timed, me):
            if guide.i < len(guide.seq) and len(ready) > 1:
                want = guide.seq[guide.i][0]
                task_ts = [t for t in ready if t.thread is guide.box.get("thread") and guide.box.get("thread") is not None]
                others = [t for t in ready if t not in task_ts]
                pub = [t for t in others if t.name.startswith("pub")]
                nonpub = [t for t in others if t not in pub]
                if want == 0:
                    cand = task_ts or nonpub or pub
                elif want == guide.n_stop + 1:
                    cand = pub or nonpub or task_ts
                else:
                    cand = nonpub or pub or task_ts
                ts = max(cand, key=lambda t: t.prio)
                sched.choices.append(ts.name)
                return ts, False
            return orig_pick(ready, timed, me)
        sched._pick = pick


def run_case(case: dict, guide_schedule=None) -> Obs:
    """Run one scenario.  case = {kind, mode, k, late, two, pub, seed}."""
    from harness.simworld import run_scenario
    from harness import detsched as D
    kind, mode, k = case["kind"], case["mode"], case.get("k")
    late, two, npub, seed = bool(case.get("late")), bool(case.get("two")), int(case.get("pub", 0)), int(case.get("seed", 0))
    delay = float(case.get("delay", 0))
    policy = case.get("policy")
    dur = case.get("dur", SLEEP_D)
    order = case.get("order", "normal")        # normal | before-start | twice | after-join | shutdown-only
    if order in ("twice", "after-join"):
        obs.n_stop = 2
    obs = Obs()
    obs.n_stop = 2 if two else 1
    obs.pub = npub
    box: dict = {}

    def body(w):
        from qmi.core.exceptions import QMI_TaskStopException, QMI_TimeoutException
        from qmi.core.messaging import QMI_MessageHandlerAddress
        from qmi.core.pubsub import QMI_SignalMessage, QMI_SignalReceiver
        from qmi.core.task import QMI_LoopTask, QMI_Task
        sched = w.sched
        gate = D.Event() if late else None
        script = {"sleep": ["sleep"], "paced": ["paced"], "recvN": ["recvN"], "recvT": ["recvT"],
                  "mixed": [["sleep", "recvT", "recvN"], ["recvN", "sleep", "recvT"], ["recvT", "recvN", "sleep"]][seed % 3]}.get(kind)

        class Waiter(QMI_Task):
            def __init__(self, runner, name):
                super().__init__(runner, name)
                self.rx = QMI_SignalReceiver(max_queue_length=1)
                box.update(task=self, thread=runner._thread, qc=self.rx._queue_cond, rx=self.rx)

            def run(self):
                obs.ran = True
                if gate is not None:
                    gate.wait()
                box["in_run"] = True
                try:
                    i = 0
                    next_time = sched.now
                    while True:
                        what = script[i % len(script)]
                        i += 1
                        if what in ("sleep", "paced"):
                            # did this wait start after stop() had fully returned?
                            after_stop = bool(box.get("stop_returned"))
                            if what == "paced":
                                # a paced worker that is behind schedule: 1.5 periods of work (not of waiting) per period
                                sched.now += 1.5 * LOOP_P
                                if obs.t_stop is not None:
                                    obs.work_after_stop += 1.5 * LOOP_P
                                next_time += LOOP_P
                                self.sleep(next_time - sched.now)          # always <= 0
                            else:
                                self.sleep(dur)
                            if after_stop:
                                # a sleep that began after stop() returned normally: the task would go on for ever
                                obs.released, obs.how = sched.now, "sleep-returned-normally-after-stop"
                                return
                        elif what == "recvN":
                            self.rx.get_next_signal(None)
                        else:
                            try:
                                self.rx.get_next_signal(RECV_T)
                            except QMI_TimeoutException:
                                pass
                except QMI_TaskStopException:
                    obs.released, obs.how = sched.now, "stop"
                    raise
                except BaseException as e:  # noqa
                    if not isinstance(e, D.SchedAbort):
                        obs.released, obs.how = sched.now, f"exc:{type(e).__name__}"
                    raise
                finally:
                    box["in_run"] = False

        class Looper(QMI_LoopTask):
            def __init__(self, runner, name):
                from qmi.core.task import QMI_LoopTaskMissedLoopPolicy as P
                if policy:
                    super().__init__(runner, name, loop_period=LOOP_P, policy=getattr(P, policy))
                else:
                    super().__init__(runner, name, loop_period=LOOP_P)
                self.n_iter = 0
                box.update(task=self, thread=runner._thread, qc=None)

            def run(self):
                if gate is not None:
                    gate.wait()
                box["in_run"] = True
                try:
                    super().run()
                    obs.released, obs.how = sched.now, "return"
                except BaseException as e:  # noqa
                    if not isinstance(e, D.SchedAbort):
                        obs.released, obs.how = sched.now, f"exc:{type(e).__name__}"
                    raise
                finally:
                    box["in_run"] = False

            def loop_prepare(self):
                obs.events.append((0, "mark:p"))

            def loop_iteration(self):
                obs.events.append((0, "mark:i"))
                self.n_iter += 1
                if policy and self.n_iter <= 2:
                    # a slow iteration (1.5 periods of work, not of waiting): the missed-period policy applies
                    sched.now += 1.5 * LOOP_P
                    if obs.t_stop is not None:
                        obs.work_after_stop += 1.5 * LOOP_P

            def loop_finalize(self):
                obs.finalized += 1
                obs.events.append((0, "mark:f"))

        guide = _Guide(guide_schedule, box, obs.n_stop) if guide_schedule else None
        if guide is not None:
            guide.install(sched)
        with _taps(sched, box, obs, guide):
            ctx = w.context("c11")
            proxy = ctx.make_task("tsk", Looper if kind == "loop" else Waiter)
            # explicit priorities: the sweep is a function of (mode, k) only
            for i, ts in enumerate(sched.order):
                ts.prio = 2.0 - 0.01 * i
            task_ts = box["thread"]._ds_ts
            task_ts.prio = 9.0 if mode == "task-first" else 0.5
            obs.k0 = sched.steps
            if order == "before-start":
                # the stop request reaches a task that was never started (_state READY_TO_RUN): run() must never be called
                obs.t_stop = sched.now
                t2 = None
                if two:
                    t2 = w.spawn(lambda: box["thread"]._request_shutdown(), "stop2")
                    t2._ds_ts.prio = [1.95, 0.8, 8.5][(seed // 3) % 3]
                proxy.stop()
                box["stop_returned"] = True
                proxy.join()
                obs.join_returned = True
                if t2 is not None:
                    t2.join()
                return "joined"
            proxy.start()
            extra = []
            if npub and kind != "loop":
                rx = box["rx"]
                src, dst = QMI_MessageHandlerAddress("c11", "pub"), QMI_MessageHandlerAddress("c11", "$pubsub")

                def publisher():
                    box["publishers"].add(_rt.get_ident())
                    for j in range(npub):
                        rx._receive_signal(QMI_SignalMessage(src, dst, "sig", (j,)))
                t = w.spawn(publisher, "pub")
                t._ds_ts.prio = [8.0, 1.2, 0.7][seed % 3]
                extra.append(t)
            if two:
                t = w.spawn(lambda: box["thread"]._request_shutdown(), "stop2")
                t._ds_ts.prio = [1.95, 0.8, 8.5][(seed // 3) % 3]
                extra.append(t)
            if delay > 0:
                D.TIME_SHIM.sleep(delay)          # virtual time: the task times out of / loops through earlier waits
            obs.t_stop = sched.now
            if order == "shutdown-only":
                box["thread"]._request_shutdown()      # the only stop request is the interpreter-shutdown hook
            else:
                proxy.stop()
            box["stop_returned"] = True
            if order == "twice":
                proxy.stop()                           # the same operation twice
            if gate is not None:
                gate.set()
            proxy.join()
            obs.join_returned = True
            if order == "after-join":
                proxy.stop()                           # a stop request for a task that has already ended
            for t in extra:
                t.join()
            return "joined"

    out = run_scenario(f"c11:{seed}", body, policy="pct",
                       change_points=[] if k is None else (list(k) if isinstance(k, (list, tuple)) else [k]),
                       trace_funcs=_trace_funcs(), max_steps=8000)      # ordinary runs take 200-700 steps
    obs.deadlock, obs.budget = out.deadlock, out.budget
    obs.error = None if out.error is None else f"{type(out.error).__name__}: {out.error}"[:300]
    obs.thread_errors = [(n, type(e).__name__) for (n, e) in out.thread_errors]
    obs.steps = out.sched.steps
    obs.now_end = out.sched.now
    return obs


# ---------------------------------------------------------------------------------------------------------
# the property, evaluated directly on a run
# ---------------------------------------------------------------------------------------------------------

def _worker(case: dict) -> Obs:
    core.ensure_repo_on_path()
    return run_case(case)


def oracle(case: dict, obs: Obs) -> Optional[str]:
    kind = case["kind"]
    if obs.tap_error:
        return None
    if obs.deadlock is not None:
        return "waits-forever"                 # join() never returns: the task (or the stop request) is stuck
    if obs.budget:
        if obs.t_stop is None:
            return None        # the strict-priority scheduler starved main before stop() was even called: not about stop
        return "does-not-terminate"
    if obs.error is not None:
        return f"stop-or-join-raised-{obs.error.split(':')[0]}"
    terr = [e for (n, e) in obs.thread_errors]
    if terr:
        return f"thread-died-{terr[0]}"
    if case.get("order") == "before-start":
        if not obs.join_returned:
            return "task-not-released"
        if obs.ran:
            return "task-ran-although-stopped-before-start"
        return None
    if not obs.join_returned or obs.released is None:
        return "task-not-released"
    if kind == "loop":
        if obs.how != "return":
            return f"loop-task-ended-by-{obs.how}"
        if obs.finalized == 0:
            return "loop-finalize-not-run"
        if obs.finalized > 1:
            return "loop-finalize-ran-twice"
    else:
        if obs.how != "stop":
            return f"released-without-stop-exception-{obs.how}"
    if obs.released - obs.t_stop - obs.work_after_stop > 0 or obs.now_end - obs.t_stop - obs.work_after_stop > 0:
        return "waited-out-timeout"             # virtual time passed between stop() and the release
    return None


def case_sig(case: dict) -> str:
    return (f"{case['kind']}{'+late' if case.get('late') else ''}{'+2stop' if case.get('two') else ''}"
            f"{'+delay' if case.get('delay') else ''}{'+' + case['policy'] if case.get('policy') else ''}"
            f"{'+dur=' + repr(case['dur']) if 'dur' in case else ''}"
            f"{'+' + case['order'] if case.get('order', 'normal') != 'normal' else ''}")


def model_lines(case: dict, obs: Obs) -> list:
    task = "loop" if case["kind"] == "loop" else "any"
    if case.get("order") == "before-start":
        lines = [f"sys idle {obs.n_stop} 0 1 READY_TO_RUN"]
    else:
        lines = [f"sys {task} {obs.n_stop} {1 if (obs.pub and case['kind'] != 'loop') else 0} 1"]
    lines += [f"ev {tid} {lab}" for (tid, lab) in obs.events]
    lines.append("q")
    return lines


def expected_final(case: dict) -> str:
    if case.get("order") == "before-start":
        return "task=done fin=0 state=TASK_STOPPED_BEFORE_START flag=0"
    return "task=done fin=1" if case["kind"] == "loop" else "task=raised:stop fin=0"


# ---------------------------------------------------------------------------------------------------------
# the check
# ---------------------------------------------------------------------------------------------------------

class C11(Prop):
    id = "C11"
    lean_modules = ["QmiModel.Props.C11"]
    driver = "drv_c11"
    modelled_not_verified = [
        "semantics of threading.Lock / Condition (atomic release-and-park, notify under the lock, re-acquire) / Event as "
        "written in Model/Wake.lean (CPython `threading` as specified); time is abstracted: a timed wait may time out "
        "whenever its lock is free",
        "the translator harness/tr_syncprogs.py (AST -> Gen/SyncProgs.lean); validated on every run by following the "
        "primitive-operation trace of every swept schedule of the real code in the generated system",
        "stop_task is partially evaluated for _state == RUNNING; thread-affinity guards for 'called from the task thread'; "
        "data/time dependent branches of QMI_LoopTask.run are nondeterministic choices",
        "hand-written thread bodies in Model/WakeSys.lean: stopper = one call of stop_task; publisher = "
        "QMI_SignalReceiver._receive_signal as one atomic action (append + notify_all under the condition's lock); "
        "waiting tasks = endless loops of sleep / get_next_signal(None) / get_next_signal(t)",
        "kernel-checked systems: one stop request x {sleep, get_next_signal(None)+publisher, get_next_signal(t)+publisher, "
        "loop task}, two stop requests x sleep; the larger mixtures (free choice of waits, two stop requests x condition "
        "waits, publisher, queue capacity 2; up to ~6600 states) are explored exhaustively by the compiled driver on every "
        "run (same obligations, native evaluation), not by the kernel",
        "liveness is stated as: no deadlock + no lost wake-up + from every reachable state with the stop request completed "
        "and no other thread inside a critical section the task thread's own steps, none of them a time-out, end in the "
        "stop exception within 40 steps (`settles`); fairness of the Python runtime is assumed",
        "the RPC path stop() -> QMI_TaskRunner.stop -> _TaskThread.stop_task and the scheduler/simulated network that "
        "carry it (exercised, not modelled)",
    ]

    # -- translator -------------------------------------------------------------------------------------
    def translate(self, ctx: Ctx):
        from harness import tr_syncprogs
        text = tr_syncprogs.translate(core.REPO)
        core.write_if_changed(GEN_FILE, text)
        return [GEN_FILE]

    # -- sweep ---------------------------------------------------------------------------------------------
    def _variants(self, ctx: Ctx, thorough: bool):
        """(case without k, stride) — the base scenarios whose every yield index is swept."""
        vs = []
        for kind in KINDS:
            for mode in ("task-first", "stop-first"):
                vs.append(({"kind": kind, "mode": mode, "seed": 0}, 1))
            vs.append(({"kind": kind, "mode": "task-first", "late": True, "seed": 0}, 1))
        # the stop request arrives during a later wait / loop iteration (virtual time passes first)
        for (kind, delay, sd) in (("mixed", 60.0, 0), ("mixed", 130.0, 0), ("mixed", 60.0, 1), ("mixed", 60.0, 2),
                                  ("loop", 100.0, 0), ("sleep", 60.0, 0), ("recvT", 80.0, 0)):
            for mode in ("task-first", "stop-first"):
                vs.append(({"kind": kind, "mode": mode, "delay": delay, "seed": sd}, 1 if thorough else 2))
        # sleep() with boundary durations (zero, negative = deadline already passed, tiny) and a paced loop that is behind
        # schedule: after stop() has fully returned (gate), and with the stop request swept over the run
        for d in EDGE_DURS:
            vs.append(({"kind": "sleep", "mode": "task-first", "late": True, "dur": d, "seed": 0}, 1 if thorough else 2))
            for mode in ("task-first", "stop-first"):
                vs.append(({"kind": "sleep", "mode": mode, "dur": d, "seed": 0}, 1 if thorough else 3))
        vs.append(({"kind": "paced", "mode": "task-first", "late": True, "seed": 0}, 1))
        for mode in ("task-first", "stop-first"):
            vs.append(({"kind": "paced", "mode": mode, "seed": 0}, 1 if thorough else 2))
        # the stop request in the other states of the task thread / the same request twice / after the end
        vs.append(({"kind": "sleep", "mode": "task-first", "order": "before-start", "seed": 0}, 1))
        vs.append(({"kind": "sleep", "mode": "stop-first", "order": "before-start", "two": True, "seed": 0}, 1 if thorough else 2))
        for kind in ("sleep", "recvN", "loop"):
            for order in ("twice", "after-join", "shutdown-only"):
                for mode in ("task-first", "stop-first"):
                    vs.append(({"kind": kind, "mode": mode, "order": order, "seed": 0}, 1 if thorough else 3))
        # slow loop iterations: the missed-period policies of QMI_LoopTask.run (TERMINATE = the task stops itself)
        for pol in ("IMMEDIATE", "SKIP", "TERMINATE"):
            for mode in ("task-first", "stop-first"):
                vs.append(({"kind": "loop", "mode": mode, "policy": pol, "seed": 0}, 1 if thorough else 2))
        seeds = list(range(9)) if thorough else [ctx.rng.randrange(9), ctx.rng.randrange(9)]
        for sd in seeds:
            for kind in ("recvN", "recvT", "mixed"):
                for mode in ("task-first", "stop-first"):
                    vs.append(({"kind": kind, "mode": mode, "pub": 2, "seed": sd}, 1 if thorough else 2))
            for kind in (("sleep", "recvN", "recvT", "loop", "mixed") if thorough else ("recvN", "loop", "sleep")):
                for mode in ("task-first", "stop-first"):
                    vs.append(({"kind": kind, "mode": mode, "two": True, "seed": sd}, 1 if thorough else 2))
            if thorough:
                for kind in ("recvN", "recvT"):
                    vs.append(({"kind": kind, "mode": "stop-first", "two": True, "pub": 2, "seed": sd}, 1))
        return vs

    def _sweep(self, ctx: Ctx, res: Result, variants, stop_at_first: bool = False, budget_s: float = 1e9, pairs: int = 0):
        """Run every variant for every change point (in worker processes; each run is a function of its case only).
        Returns list of (case, obs)."""
        import multiprocessing as mp
        import os
        t0 = _time.time()
        nproc = max(1, min(8, (os.cpu_count() or 2) - 1))
        runs: list = []
        with mp.get_context("fork").Pool(nproc, maxtasksperchild=40) as pool:
            bases = [{**b, "k": None} for (b, _) in variants]
            base_obs = pool.map(_worker, bases, chunksize=1)
            runs += list(zip(bases, base_obs))
            batches = []
            for (base, stride), b in zip(variants, base_obs):
                lo, hi = b.k0, b.steps + 12
                off = ctx.rng.randrange(stride) if stride > 1 else 0
                cases = [{**base, "k": k} for k in range(lo + off, hi, stride)]
                for _ in range(pairs):
                    k1, k2 = sorted(ctx.rng.sample(range(lo, hi), 2))
                    cases.append({**base, "k": [k1, k2]})
                batches.append(cases)
            if stop_at_first:
                for cases in batches:
                    obs = pool.map(_worker, cases, chunksize=8)
                    runs += list(zip(cases, obs))
                    if any(oracle(c, o) for (c, o) in zip(cases, obs)) or _time.time() - t0 > budget_s:
                        break
            else:
                flat = [c for cases in batches for c in cases]
                it = pool.imap(_worker, flat, chunksize=8)
                for c in flat:
                    runs.append((c, next(it)))
                    if _time.time() - t0 > budget_s:
                        res.count("sweep_cut_by_time_budget")
                        pool.terminate()
                        break
        return runs

    def _evaluate(self, ctx: Ctx, res: Result, runs, follow: bool = True):
        drv = LeanDriver(self.driver)
        lines, spans = [], []
        seen_fail: dict = {}
        for (case, obs) in runs:
            clause = oracle(case, obs)
            nontrivial = any(t == 0 for (t, _) in obs.events) and any(t != 0 for (t, _) in obs.events)
            res.note_case((case_sig(case), case["mode"], repr(case.get("k")), case.get("pub", 0), case.get("seed", 0),
                           case.get("delay", 0), tuple(obs.events)), nontrivial=nontrivial)
            res.count(f"kind_{case_sig(case)}")
            res.count(f"mode_{case['mode']}")
            res.count("ops_observed", len(obs.events))
            parked = any(l in ("park", "evpark", "slpark") for (t, l) in obs.events if t == 0)
            flag_pos = next((i for i, (t, l) in enumerate(obs.events) if l == "setflag"), None)
            park_pos = next((i for i, (t, l) in enumerate(obs.events) if t == 0 and l in ("park", "evpark")), None)
            if parked:
                res.count("runs_where_task_parked")
            if flag_pos is not None and park_pos is not None:
                res.count("stop_before_first_park" if flag_pos < park_pos else "stop_after_first_park")
            if not parked:
                res.count("runs_wait_began_after_stop")
            if obs.budget and obs.t_stop is None:
                res.count("runs_starved_before_stop (task spins without blocking; ignored)")
                continue
            if obs.tap_error:
                res.broken.append(Broken("correspondence", "C11.taps", obs.tap_error, case=case))
            if clause:
                sig = f"{clause}:{case_sig(case)}"
                if sig not in seen_fail:
                    seen_fail[sig] = True
                    res.failures.append(Failure(
                        signature=sig,
                        summary=f"{case_sig(case)} mode={case['mode']} change-point k={case.get('k')}: {clause} "
                                f"(released at +{(obs.released - obs.t_stop) if obs.released is not None else None} s virtual, "
                                f"how={obs.how}, deadlock={obs.deadlock})",
                        replay={"case": case, "clause": clause}))
                continue
            if follow:
                ls = model_lines(case, obs)
                spans.append((len(lines), len(ls), case, obs))
                lines += ls
        if follow and lines:
            outs = drv.run(lines)
            res.traces_validated += len(spans)
            shown = 0
            for (start, n, case, obs) in spans:
                bad = None
                for j in range(n):
                    o, l = outs[start + j], lines[start + j]
                    if l == "q":
                        if not o.startswith(expected_final(case)):
                            bad = (j, l, o, f"final model state differs from the implementation's outcome ({expected_final(case)})")
                    elif not o.startswith("ok"):
                        bad = (j, l, o, "operation not enabled in the generated system")
                    if bad:
                        break
                if bad and shown < 3:
                    shown += 1
                    j, l, o, why = bad
                    res.broken.append(Broken(
                        "correspondence", "generated system vs primitive-operation trace",
                        f"{case_sig(case)} mode={case['mode']} k={case.get('k')}: step {j} `{l}` -> `{o}`: {why}; "
                        f"trace so far: {' '.join(x[3:] for x in lines[start + 1:start + j + 1][-14:])}",
                        case=case))
                if len(res.samples) < 4 and case.get("k") is not None and obs.events:
                    res.sample({"case": case, "ops": [f"{t}:{l}" for (t, l) in obs.events][:60]}, 4)

    def _native_exploration(self, ctx: Ctx, res: Result):
        """Exhaustive exploration of the larger systems by the compiled driver (not a proof; reported as such)."""
        drv = LeanDriver(self.driver)
        systems = ["sleep 1 0 1", "recvn 1 1 1", "recvt 1 1 1", "loop 1 0 1", "sleep 2 0 1", "recvn 2 0 1",
                   "any 1 1 1", "any 2 1 1", "loop 2 0 1", "any 2 1 2", "recvt 2 1 2"]
        outs = drv.run([f"check {s}" for s in systems])
        info = {}
        for s, o in zip(systems, outs):
            info[s] = o
            if " ok" not in o:
                res.broken.append(Broken("correspondence", f"driver exploration of system `{s}`", o, case={"system": s, "result": o}))
        res.extra["native_exploration"] = info
        return info

    def correspondence(self, ctx: Ctx) -> Result:
        res = Result(rule="case = (wait kind, priority mode, change point k, publisher/second stopper, seed); every yield "
                          "index k of the run is swept; non-trivial = both the task thread and a stopper performed "
                          "operations on the shared objects; distinct by the observed operation sequence")
        core.ensure_repo_on_path()
        self._native_exploration(ctx, res)
        variants = self._variants(ctx, not ctx.quick)
        # the time budget is a safety net only (typical: 20-40 s quick, 5 min thorough); a cut is counted in the evidence
        runs = self._sweep(ctx, res, variants, budget_s=ctx.scale(300, 1500), pairs=ctx.scale(0, 150))
        ctx.log(f"sweep: {len(runs)} schedules of {len(variants)} scenarios")
        self._evaluate(ctx, res, runs)
        return res

    # -- failing-input search ------------------------------------------------------------------------------
    def search(self, ctx: Ctx, broken) -> Result:
        res = Result()
        core.ensure_repo_on_path()
        # (a) the disagreeing cases
        for b in broken:
            c = b.case or {}
            if "kind" in c:
                obs = run_case(c)
                self._evaluate(ctx, res, [(c, obs)], follow=False)
        # (b) schedules computed by the model for the broken obligations, replayed (guided) on the implementation
        try:
            info = self._native_exploration(ctx, Result())
        except Exception as e:  # noqa
            info = {}
            ctx.log(f"driver exploration unavailable: {e}")
        for s, o in info.items():
            if "schedule=" not in o:
                continue
            sched_txt = o.split("schedule=", 1)[1].strip()
            schedule = []
            for item in [x for x in sched_txt.split(",") if ":" in x]:
                tid, lab = item.split(":", 1)
                schedule.append((int(tid), lab))
            task, nstop, pub, _cap = s.split()
            kinds = {"sleep": ["sleep"], "recvn": ["recvN"], "recvt": ["recvT"], "loop": ["loop"],
                     "any": ["recvN", "recvT", "sleep"]}[task]
            ctx.log(f"model counter-example for system `{s}`: {o[:300]}")
            # the model abstracts the duration of sleep(): a counter-example in which the task's sleep performs no operation
            # on the stop flag (no evcheck / evpark) is a wait that was skipped -> replay it with the boundary durations
            flag_pos = next((i for i, (t, l) in enumerate(schedule) if l == "setflag"), len(schedule))
            task_ev_after = [l for (t, l) in schedule[flag_pos:] if t == 0 and l.startswith("ev")]
            extra = []
            if "sleep" in kinds:
                durs = list(EDGE_DURS) if not task_ev_after else []
                extra = [("sleep", {"dur": d}) for d in durs] + ([("paced", {})] if durs else [])
            plans = extra + [(k_, {}) for k_ in kinds]
            for (kind, more) in plans:
                for mode, late in (("stop-first", False), ("task-first", False), ("task-first", True)):
                    # a publisher is started only if the counter-example needs one (a later signal would rescue the task)
                    needs_pub = any(t == int(nstop) + 1 for (t, _) in schedule)
                    case = {"kind": kind, "mode": mode, "k": None, "two": nstop == "2", "pub": 2 if needs_pub else 0,
                            "seed": 0, "guide": schedule, **more}
                    if late:
                        case["late"] = True
                    obs = run_case(case, guide_schedule=schedule)
                    self._evaluate(ctx, res, [(case, obs)], follow=False)
                if res.failures:
                    break
            if res.failures:
                break
        if res.failures:
            return res
        # (c) the systematic sweep at full size
        runs = self._sweep(ctx, res, self._variants(ctx, True), stop_at_first=True, budget_s=ctx.scale(150, 600),
                           pairs=ctx.scale(0, 100))
        self._evaluate(ctx, res, runs, follow=False)
        return res

    def replay(self, ctx: Ctx, rp: dict):
        core.ensure_repo_on_path()
        case = rp["case"]
        guide = case.get("guide")
        obs = run_case(case, guide_schedule=[tuple(x) for x in guide] if guide else None)
        clause = oracle(case, obs)
        if clause:
            return Failure(f"{clause}:{case_sig(case)}", f"{case_sig(case)} mode={case['mode']} k={case.get('k')}: {clause}", rp)
        return None


PROP = C11()
