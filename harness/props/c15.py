"""C15 — protocol codecs: composite of part A (SCPI, USBTMC) and part B (Interbus, APT, T2)."""
from harness.core import CompositeProp
from harness.props import c15a, c15b


class C15(CompositeProp):
    id = "C15"
    parts = (c15a.PROP, c15b.PROP)


PROP = C15()
