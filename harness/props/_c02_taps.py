"""C02 helper: message-level taps (wrapped from outside, restored on exit) that turn a real QMI run into the line
trace understood by lean/Drv/C02.lean.  Each event is a mutable pair [op_line, impl_output]; nested calls fill in the
outputs of their parents (which handler ran, which connection was chosen, what was put on the wire)."""
from __future__ import annotations

import contextlib
import pickle
import threading
import types

TRACE = None          # the active Trace (None = taps pass through)


class ProcessExitAttempt(BaseException):
    """raised instead of os._exit() while the taps are installed (a mis-forwarded call can reach
    `_ContextRpcObject.shutdown_context(hard=True)`; the check must survive that and report it)"""


class _OsShim(types.ModuleType):
    def __init__(self, real):
        super().__init__("os")
        self.__dict__["_real"] = real

    def _exit(self, code):
        raise ProcessExitAttempt(code)

    def __getattr__(self, k):
        return getattr(self.__dict__["_real"], k)


class Trace:
    def __init__(self):
        self.ev = []                  # [line, impl_out]
        self.routers = {}             # id(router) -> (idx, router)   (reference kept: no id reuse)
        self.conns = {}               # id(conn) -> (cid, conn)
        self.ifaces = set()
        self.tls = threading.local()
        self.enabled = True
        self.proxies = 0
        self.execs = {}               # first positional argument (if a str) -> (object's lock token, request's token) at dispatch
        self.sizes = []               # (kind, pickled size) of every message a connection put on the wire
        self.lock = threading.Lock()

    def stack(self):
        st = getattr(self.tls, "stack", None)
        if st is None:
            st = self.tls.stack = []
        return st

    def node(self, router) -> int:
        with self.lock:
            ent = self.routers.get(id(router))
            if ent is None:
                ent = (len(self.routers), router)
                self.routers[id(router)] = ent
                self.ev.append([f"ctx {router.context_name}", f"ctx {ent[0]}"])
            return ent[0]

    def conn(self, conn) -> int:
        with self.lock:
            ent = self.conns.get(id(conn))
            if ent is None:
                ent = (len(self.conns) + 1, conn)
                self.conns[id(conn)] = ent
            return ent[0]

    def add(self, line, out="?"):
        rec = [line, out]
        self.ev.append(rec)
        return rec

    def lines(self):
        """The trace as (op lines, implementation outputs).  `uniq` events are logged after the counter's critical section,
        so two threads may log them in the opposite order; they are put back into counter order (the order of the
        critical sections) — what remains checked is that the numbers issued per (context, prefix) are 1, 2, 3, … without
        gap or repetition."""
        ev = list(self.ev)
        groups = {}
        for idx, e in enumerate(ev):
            if e[0].startswith("uniq "):
                groups.setdefault(e[0], []).append(idx)
        for line, idxs in groups.items():
            pfx = line.split(" ")[2]

            def nr(e, pfx=pfx):
                tail = e[1].split(" ")[-1][len(pfx):]
                return int(tail) if tail.isdigit() else 10 ** 9
            recs = sorted((ev[i] for i in idxs), key=nr)
            for i, r in zip(idxs, recs):
                ev[i] = r
        return ["reset"] + [e[0] for e in ev], ["ok"] + [e[1] for e in ev]


def _tok(t):
    return "-" if t is None else f"{t.context_id}:{t.token}"


def describe(m):
    """(kind, payload token) of a message object"""
    from qmi.core import rpc as R, messaging as M
    if isinstance(m, R.QMI_MethodRpcRequestMessage):
        try:
            kw = ",".join(m.method_kwargs.keys()) or "-"
            pl = f"{m.method_name}|{len(m.method_args)}|{kw}|{_tok(m.lock_token)}"
        except Exception as e:  # noqa
            pl = f"garbled:{type(e).__name__}"
        return "mreq", pl
    if isinstance(m, R.QMI_MethodRpcReplyMessage):
        return "mrep", {R.QMI_RpcFutureState.RESULT_IS_VALUE: "V", R.QMI_RpcFutureState.RESULT_IS_EXCEPTION: "E",
                        R.QMI_RpcFutureState.OBJECT_IS_LOCKED: "L"}.get(m.state, "?")
    if isinstance(m, M.QMI_ErrorReplyMessage):
        return "erep", "e"
    if isinstance(m, M.QMI_RequestMessage):
        return "oreq", type(m).__name__
    if isinstance(m, M.QMI_ReplyMessage):
        return "orep", type(m).__name__
    return "plain", type(m).__name__


def addr4(m):
    s, d = m.source_address, m.destination_address
    return f"{s.context_id} {s.object_id} {d.context_id} {d.object_id}"


def rid(m):
    return getattr(m, "request_id", None) or "-"


def msg_line(m, with_pl=True):
    k, pl = describe(m)
    return f"{k} {addr4(m)} {rid(m)}" + (f" {pl}" if with_pl else "")


class _SockCapture:
    def __init__(self, sock, note=None):
        self._s = sock
        self.data = None
        self._note = note

    def sendall(self, data):
        self.data = bytes(data)
        if self._note is not None:
            self._note(len(self.data) - 9)          # before the bytes leave: the receiver may finish first
        return self._s.sendall(data)

    def __getattr__(self, k):
        return getattr(self._s, k)


def _is_abort(e):
    return type(e).__name__ in ("SchedAbort", "Deadlock", "StepBudget")


_INSTALLED = [False]


def is_installed() -> bool:
    return _INSTALLED[0]


@contextlib.contextmanager
def installed():
    """Wrap the mechanism methods named in properties.jsonl (and their neighbours) — class attributes, restored on exit."""
    from qmi.core import rpc as R, messaging as M, context as C
    from qmi.core.exceptions import QMI_MessageDeliveryException, QMI_UnknownRpcException
    saved = []
    saved_os = (C.os, M.os)
    C.os, M.os = _OsShim(C.os), _OsShim(M.os)

    def wrap(cls, name, make):
        orig = cls.__dict__[name]
        saved.append((cls, name, orig))
        setattr(cls, name, make(orig))

    # -- registration / unique addresses ------------------------------------------------------------
    def mk_reg(kind):
        def make(orig):
            def f(self, handler):
                t = TRACE
                if t is None or not t.enabled:
                    return orig(self, handler)
                rec = t.add(f"{kind} {t.node(self)} {handler.address.object_id}")
                try:
                    r = orig(self, handler)
                except BaseException as e:
                    rec[1] = f"exc:{type(e).__name__}"
                    raise
                rec[1] = "ok"
                return r
            return f
        return make
    wrap(M.MessageRouter, "register_message_handler", mk_reg("reg"))
    wrap(M.MessageRouter, "unregister_message_handler", mk_reg("unreg"))

    def mk_uniq(orig):
        def f(self, prefix):
            t = TRACE
            if t is None or not t.enabled:
                return orig(self, prefix)
            a = orig(self, prefix)
            t.add(f"uniq {t.node(self._message_router)} {prefix}", f"addr {a.context_id} {a.object_id}")
            return a
        return f
    wrap(C.QMI_Context, "make_unique_address", mk_uniq)

    # -- router ------------------------------------------------------------------------------------------
    def mk_send(orig):
        def f(self, message):
            t = TRACE
            if t is None or not t.enabled:
                return orig(self, message)
            active = 1 if (self._thread is not None and self._socket_manager is not None) else 0
            rec = t.add(f"send {t.node(self)} {active} {msg_line(message, False)}")
            st = t.stack()
            frame = {"kind": "send", "rec": rec, "local": False}
            st.append(frame)
            try:
                orig(self, message)
            except QMI_MessageDeliveryException as e:
                if frame["local"]:
                    rec[1] = "local"
                else:
                    s = str(e)
                    why = ("remote-to-remote" if "from remote context" in s else "inactive" if "router inactive" in s
                           else "unknown-context" if "unknown context" in s else "other")
                    rec[1] = f"exc:QMI_MessageDeliveryException:{why}"
                raise
            except BaseException as e:
                rec[1] = "local" if frame["local"] else f"exc:{type(e).__name__}"
                raise
            finally:
                st.pop()
            rec[1] = "local" if frame["local"] else f"queued {message.destination_address.context_id}"
        return f
    wrap(M.MessageRouter, "send_message", mk_send)

    def mk_deliver(orig):
        def f(self, message):
            t = TRACE
            if t is None or not t.enabled:
                return orig(self, message)
            st = t.stack()
            if st and st[-1]["kind"] == "send":
                st[-1]["local"] = True
            if st and st[-1]["kind"] == "in":
                st[-1]["delivered"] = msg_line(message)
            rec = t.add(f"deliver {t.node(self)} {msg_line(message, False)}")
            frame = {"kind": "deliver", "rec": rec, "handler": None}
            st.append(frame)
            try:
                orig(self, message)
            except BaseException as e:
                if frame["handler"] is not None:
                    rec[1] = f"handler {frame['handler']}"
                elif isinstance(e, QMI_MessageDeliveryException):
                    s = str(e)
                    rec[1] = "exc:QMI_MessageDeliveryException:" + ("nonlocal" if "non-local" in s else
                                                                    "unknown" if "unknown destination" in s else "other")
                else:
                    rec[1] = f"exc:{type(e).__name__}"
                raise
            finally:
                st.pop()
            rec[1] = f"handler {frame['handler']}" if frame["handler"] is not None else "no-handler-ran"
        return f
    wrap(M.MessageRouter, "deliver_message", mk_deliver)

    # -- handlers: which one actually ran ---------------------------------------------------------------
    def mk_handle(orig):
        def f(self, message):
            t = TRACE
            if t is None or not t.enabled:
                return orig(self, message)
            st = t.stack()
            if st and st[-1]["kind"] == "deliver" and st[-1]["handler"] is None:
                st[-1]["handler"] = self.address.object_id
            return orig(self, message)
        return f

    def mk_fut_handle(orig):
        def f(self, message):
            t = TRACE
            if t is None or not t.enabled:
                return orig(self, message)
            st = t.stack()
            if st and st[-1]["kind"] == "deliver" and st[-1]["handler"] is None:
                st[-1]["handler"] = self.address.object_id
            before = self._state
            rec = t.add(f"fut {t.node(self._context._message_router)} {self.address.object_id} {' '.join(describe(message))}")
            try:
                return orig(self, message)
            finally:
                after = self._state
                no = R.QMI_RpcFutureState.NO_RESULT_YET
                rec[1] = "dup" if before != no else ("set" if after != no else "ignored")
        return f
    seen = set()
    todo = [M.QMI_MessageHandler]
    while todo:
        c = todo.pop()
        for sc in c.__subclasses__():
            if sc in seen:
                continue
            seen.add(sc)
            todo.append(sc)
            if "handle_message" in sc.__dict__:
                wrap(sc, "handle_message", mk_fut_handle if sc is R.QMI_RpcFuture else mk_handle)

    def mk_fut_init(orig):
        def f(self, context, *a, **k):
            t = TRACE
            orig(self, context, *a, **k)
            if t is not None and t.enabled:
                t.add(f"futinit {t.node(context._message_router)} {self.address.object_id}", "ok")
        return f
    wrap(R.QMI_RpcFuture, "__init__", mk_fut_init)

    def mk_fut_send(orig):
        def f(self, name, args, kwargs):
            t = TRACE
            if t is not None and t.enabled:
                exp = getattr(t.tls, "expect_stub", None)
                if exp is not None:
                    exp[1] = f"sends {name} {','.join(kwargs.keys()) or '-'}"
                    t.tls.expect_stub = None
            return orig(self, name, args, kwargs)
        return f
    wrap(R.QMI_RpcFuture, "send_method_rpc_request_message", mk_fut_send)

    # -- socket manager ------------------------------------------------------------------------------------
    def mk_smsend(orig):
        def f(self, message):
            t = TRACE
            if t is None or not t.enabled:
                return orig(self, message)
            rec = t.add(f"smsend {t.node(self._message_router)} {msg_line(message, False)}")
            st = t.stack()
            frame = {"kind": "smsend", "rec": rec, "conn": None}
            st.append(frame)
            try:
                return orig(self, message)
            finally:
                st.pop()
                rec[1] = f"conn {frame['conn']}" if frame["conn"] is not None else "noconn"
        return f
    wrap(M._SocketManager, "send_message", mk_smsend)

    def mk_addout(orig):
        def f(self, conn):
            t = TRACE
            if t is None or not t.enabled:
                return orig(self, conn)
            rec = t.add(f"addout {t.node(self._message_router)} {t.conn(conn)}")
            try:
                r = orig(self, conn)
            except BaseException as e:
                rec[1] = f"exc:{type(e).__name__}"
                raise
            rec[1] = "ok"
            return r
        return f
    wrap(M._SocketManager, "add_outgoing_connection", mk_addout)

    def mk_drop(orig):
        def f(self, conn):
            t = TRACE
            if t is not None and t.enabled:
                t.add(f"drop {t.node(self._message_router)} {t.conn(conn)}", "ok")
            return orig(self, conn)
        return f
    wrap(M._SocketManager, "remove_peer_connection", mk_drop)

    # -- peer connection -------------------------------------------------------------------------------------
    def mk_conn_init(orig):
        def f(self, message_router, sock, peer_context_alias, is_incoming):
            t = TRACE
            orig(self, message_router, sock, peer_context_alias, is_incoming)
            if t is not None and t.enabled:
                i, cid = t.node(message_router), t.conn(self)
                if is_incoming:
                    t.add(f"accept {i} {cid}", f"alias {self.peer_context_alias}")
                else:
                    t.add(f"connect {i} {cid} {self.peer_context_alias}", "ok")
        return f
    wrap(M._PeerTcpConnection, "__init__", mk_conn_init)

    def mk_out(orig):
        def f(self, message):
            t = TRACE
            if t is None or not t.enabled:
                return orig(self, message)
            i, cid = t.node(self._message_router), t.conn(self)
            st = t.stack()
            if st and st[-1]["kind"] == "smsend":
                st[-1]["conn"] = cid
            hs = isinstance(message, M.QMI_InitialHandshakeMessage)
            rec = t.add(f"out {i} {cid} hs" if hs else f"out {i} {cid} {msg_line(message)}")
            kind = "hs" if hs else describe(message)[0]
            cap = _SockCapture(self._sock, None if hs else (lambda n, kind=kind: t.sizes.append((kind, n))))
            self._sock = cap
            try:
                orig(self, message)
            except BaseException as e:
                if isinstance(e, AssertionError) or _is_abort(e) or hs:
                    rec[1] = f"exc:{type(e).__name__}"
                else:                                   # pickling / size / OS error after the rewrite: nothing was sent
                    rec[0] = "outfail" + rec[0][3:]
                    rec[1] = "exc:send-failed"
                raise
            finally:
                self._sock = cap._s
            try:
                wire = pickle.loads(cap.data[9:])
                if hs:
                    rec[1] = f"wire hs {wire.source_address.context_id} {1 if wire.is_server_handshake else 0}"
                else:
                    rec[1] = f"wire {msg_line(wire)} pend={len(self._pending_requests)}"
            except BaseException as e:  # noqa
                if _is_abort(e):
                    raise
                rec[1] = f"wire-unreadable:{type(e).__name__}"
        return f
    wrap(M._PeerTcpConnection, "send_message", mk_out)

    def mk_in(orig):
        def f(self, packed):
            t = TRACE
            if t is None or not t.enabled:
                return orig(self, packed)
            i, cid = t.node(self._message_router), t.conn(self)
            try:
                wire = pickle.loads(bytes(packed))
            except BaseException as e:  # noqa
                if _is_abort(e):
                    raise
                wire = None
            if wire is None or not isinstance(wire, M.QMI_Message):
                return orig(self, packed)
            hs = isinstance(wire, M.QMI_InitialHandshakeMessage)
            if hs:
                nm = wire.source_address.context_id
                rec = t.add(f"in {i} {cid} hs {nm if isinstance(nm, str) else '~'} {1 if wire.is_server_handshake else 0}")
            else:
                rec = t.add(f"in {i} {cid} {msg_line(wire)}")
            st = t.stack()
            frame = {"kind": "in", "rec": rec, "delivered": None}
            st.append(frame)
            try:
                orig(self, packed)
            except BaseException as e:
                s = str(e)
                if isinstance(e, QMI_MessageDeliveryException):
                    rec[1] = "exc:QMI_MessageDeliveryException:" + ("dest" if "Unexpected destination" in s else
                                                                    "source" if "Unexpected source" in s else "other")
                else:
                    why = ("invalid-context-name" if "Invalid context name" in s else
                           "unexpected-handshake" if "Unexpected handshake" in s else
                           "expecting-handshake" if "Expecting handshake" in s else
                           "server-handshake-from-client" if "server handshake from" in s else
                           "client-handshake-as-client" if "client handshake while" in s else "other")
                    rec[1] = f"exc:{type(e).__name__}:{why}"
                raise
            finally:
                st.pop()
            if hs:
                rec[1] = f"peer {self.peer_context_name}"
            elif frame["delivered"] is not None:
                rec[1] = f"msg {frame['delivered']} pend={len(self._pending_requests)}"
            else:
                rec[1] = "not-delivered"
        return f
    wrap(M._PeerTcpConnection, "_process_message", mk_in)

    # -- the object side ------------------------------------------------------------------------------------------
    def mk_exec(orig):
        def f(self, request):
            t = TRACE
            if t is None or not t.enabled:
                return orig(self, request)
            i = t.node(self._context._message_router)
            obj = self._rpc_object._name
            if (i, obj) not in t.ifaces:
                t.ifaces.add((i, obj))
                ns = ",".join(d.name for d in self._rpc_object.rpc_object_descriptor.interface.methods) or "-"
                t.add(f"iface {i} {obj} {ns}", "ok")
            rec = t.add(f"exec {i} {obj} {_tok(self._locking_token)} {_tok(request.lock_token)} {request.method_name} "
                        f"{addr4(request)} {request.request_id}")
            try:
                a0 = request.method_args[0] if request.method_args else None
                if isinstance(a0, str):
                    t.execs[a0] = (self._locking_token, request.lock_token)
            except Exception:  # noqa
                pass
            st = t.stack()
            frame = {"kind": "exec", "unknown": False}
            st.append(frame)
            try:
                reply = orig(self, request)
            except BaseException as e:
                rec[1] = f"exc:{type(e).__name__}"
                raise
            finally:
                st.pop()
            S = R.QMI_RpcFutureState
            k = ("L" if reply.state == S.OBJECT_IS_LOCKED else
                 "U" if (reply.state == S.RESULT_IS_EXCEPTION and frame["unknown"]) else
                 "C" if reply.state in (S.RESULT_IS_VALUE, S.RESULT_IS_EXCEPTION) else "?")
            rec[1] = f"reply {k} {addr4(reply)} {reply.request_id}"
            return reply
        return f
    wrap(R._RpcThread, "_handle_method_rpc_request", mk_exec)

    def mk_check(orig):
        def f(self, request):
            t = TRACE
            try:
                return orig(self, request)
            except QMI_UnknownRpcException:
                if t is not None and t.enabled:
                    st = t.stack()
                    if st and st[-1]["kind"] == "exec":
                        st[-1]["unknown"] = True
                raise
        return f
    wrap(R._RpcThread, "_check_and_get_method", mk_check)

    _INSTALLED[0] = True
    try:
        yield
    finally:
        _INSTALLED[0] = False
        C.os, M.os = saved_os
        for cls, name, orig in reversed(saved):
            setattr(cls, name, orig)


def note_proxy(trace: Trace, names, binding: str, mode: str, params) -> int:
    trace.proxies += 1
    pid = trace.proxies
    trace.add(f"proxy {pid} {binding} {mode} {','.join(names) or '-'} {','.join(params) or '-'}", "ok")
    return pid


def call_stub(trace, pid, proxy, attr, args, kwargs):
    """invoke `proxy.<attr>(*args, **kwargs)`, recording which method name the generated stub puts in the request"""
    rec = None
    if trace is not None and trace.enabled:
        rec = trace.add(f"stub {pid} {attr} {','.join(kwargs.keys()) or '-'}", "noattr")
        trace.tls.expect_stub = rec
    try:
        fn = getattr(proxy, attr)
        try:
            return fn(*args, **kwargs)
        except (TypeError, RuntimeError) as e:
            if rec is not None and rec[1] == "noattr":        # raised by the stub itself, nothing was sent
                rec[1] = f"exc:{type(e).__name__}"
            raise
    finally:
        if trace is not None:
            trace.tls.expect_stub = None
