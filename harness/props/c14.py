"""C14 — transport descriptors parse totally and faithfully.

Model: lean/QmiModel/Model/Descriptor.lean; tables: Gen/TransportTables.lean (regenerated here from the live
parser instances, constructor signatures and the AST of `create_transport`); theorems: Props/C14.lean.
Tie: differential correspondence (create_transport, parse_parameter_strings, _parse_parts, the numeric
conversions, host validation, _format_resources) on grammar-based near-miss inputs, plus a direct oracle.

Transports are only constructed, never opened.
"""
from __future__ import annotations

import ast
import inspect
import re
import sys
import textwrap
import types
import unicodedata

from harness import core
from harness.core import Ctx, Failure, Broken, LeanDriver, Prop, Result, diff_streams

GEN = core.LEAN / "QmiModel" / "Gen" / "TransportTables.lean"
MODEL = core.LEAN / "QmiModel" / "Model" / "Descriptor.lean"
LOCALHOST_ADDR = "127.0.0.1"

# ---------------------------------------------------------------------------------------------------------------------
# importing the implementation (optional libraries mocked the way /repo/tests do it: sys.modules stubs)
# ---------------------------------------------------------------------------------------------------------------------

_IMPL = None


class _Impl:
    """Handles to the real code, with the platform switch and the `localhost` resolver under harness control."""

    def __init__(self):
        import unittest.mock as um
        if "pyvisa" not in sys.modules:
            try:
                import pyvisa  # noqa: F401
                import pyvisa.errors  # noqa: F401
            except Exception:
                stub = types.ModuleType("pyvisa")
                errs = types.ModuleType("pyvisa.errors")

                class VisaIOError(Exception):
                    error_code = 0

                class ResourceManager:                      # never used to open anything
                    resources: tuple = ()

                    def list_resources(self):
                        return tuple(type(self).resources)

                    def open_resource(self, *a, **k):
                        raise RuntimeError("C14 harness: transports must not be opened")

                errs.VisaIOError = VisaIOError
                errs.VI_ERROR_TMO = -1073807339
                stub.errors = errs
                stub.ResourceManager = ResourceManager
                sys.modules["pyvisa"] = stub
                sys.modules["pyvisa.errors"] = errs
        import qmi.core.transport as tr
        import qmi.core.exceptions as ex
        import qmi.core.transport_usbtmc_pyusb as pyusb
        import usb.core
        with um.patch("sys.platform", "win32"), um.patch.object(usb.core, "find", lambda *a, **k: None):
            import qmi.core.transport_usbtmc_visa as uvisa
            import qmi.core.transport_gpib_visa as gvisa
        self.tr, self.ex, self.pyusb, self.uvisa, self.gvisa = tr, ex, pyusb, uvisa, gvisa
        self.Descr = ex.QMI_TransportDescriptorException
        self.real_sys = tr.sys
        # `socket.gethostbyname("localhost")` is environment; pin it (only this call is replaced)
        real_socket = tr.socket

        class _Sock:
            def __getattr__(self, n):
                return getattr(real_socket, n)

            @staticmethod
            def gethostbyname(h):
                if h == "localhost":
                    return LOCALHOST_ADDR
                raise RuntimeError("C14 harness: unexpected name resolution of %r" % (h,))

        tr.socket = _Sock()

    def set_platform(self, win: bool) -> None:
        self.tr.sys = types.SimpleNamespace(platform="win32" if win else "linux", version_info=sys.version_info)

    def restore(self) -> None:
        self.tr.sys = self.real_sys


def impl() -> _Impl:
    global _IMPL
    if _IMPL is None:
        core.ensure_repo_on_path()
        _IMPL = _Impl()
    return _IMPL


# ---------------------------------------------------------------------------------------------------------------------
# translator: live parser tables + constructor signatures + AST of create_transport  →  Gen/TransportTables.lean
# ---------------------------------------------------------------------------------------------------------------------

class TranslatorError(Exception):
    pass


_TY = {str: "str", int: "int", float: "float", bool: "bool"}
_KIND_BY_BASE = [("QMI_SerialTransport", "serial"), ("QMI_UdpTransport", "udp"), ("QMI_TcpTransport", "tcp"),
                 ("QMI_UsbTmcTransport", "usbtmc"), ("QMI_VisaGpibTransport", "gpib"), ("QMI_Vxi11Transport", "vxi11")]


def lean_str(s: str) -> str:
    def ch(c):
        o = ord(c)
        if 32 <= o < 127 and c not in "'\\":
            return f"'{c}'"
        return f"Char.ofNat {o}"
    return "[" + ", ".join(ch(c) for c in s) + "]"


def lean_val(v) -> str:
    if v is None:
        return ".none"
    if isinstance(v, bool):
        return f".bool {'true' if v else 'false'}"
    if isinstance(v, int):
        return f".int ({v})"
    if isinstance(v, float):
        return f".flt {lean_str(repr(v))}"
    if isinstance(v, str):
        return f".str {lean_str(v)}"
    raise TranslatorError(f"constructor default of unsupported type: {v!r}")


def _is_call(node, attr):
    return isinstance(node, ast.Call) and isinstance(node.func, ast.Attribute) and node.func.attr == attr


# ---- constructor programs: symbolic execution of the `__init__` bodies (AST) ---------------------------------------------

_STRICT = [True]
_DOC_STORES = {
    "serial": [("device", ["device"]), ("_baudrate", ["baudrate"]), ("_bytesize", ["bytesize"]), ("_parity", ["parity"]),
               ("_stopbits", ["stopbits"]), ("_rtscts", ["rtscts"])],
    "tcp": [("_address", ["host", "port"]), ("_connect_timeout", ["connect_timeout"])],
    "udp": [("_address", ["host", "port"])],
    "usbtmc": [("vendorid", ["vendorid"]), ("productid", ["productid"]), ("serialnr", ["serialnr"])],
    "gpib": [("_primary_addr", ["primary_addr"]), ("_board", ["board"]), ("_secondary_addr", ["secondary_addr"]),
             ("_connect_timeout", ["connect_timeout"])],
    "vxi11": [("_host", ["host"])],
}


def _func_ast(fn):
    src = textwrap.dedent(inspect.getsource(fn))
    node = ast.parse(src).body[0]
    if not isinstance(node, ast.FunctionDef):
        raise TranslatorError(f"{fn.__qualname__}: not a plain function")
    return node


def _find_method(cls, name):
    """(defining class, raw attribute, function) of method `name` looked up on `cls` along the MRO"""
    for k in cls.__mro__:
        if name in vars(k):
            raw = vars(k)[name]
            fn = raw.__func__ if isinstance(raw, (staticmethod, classmethod)) else raw
            return k, raw, fn
    raise TranslatorError(f"{cls.__name__}: no method {name}")


def _const(node, module):
    """integer / float / str / bool literal, or a dotted constant evaluated in the defining module"""
    if isinstance(node, ast.Constant) and isinstance(node.value, (int, float, str, bool)):
        return node.value
    if isinstance(node, ast.UnaryOp) and isinstance(node.op, ast.USub) and isinstance(node.operand, ast.Constant) \
            and isinstance(node.operand.value, (int, float)):
        return -node.operand.value
    if isinstance(node, ast.Attribute):
        try:
            v = eval(compile(ast.Expression(node), "<c14>", "eval"), vars(module))   # e.g. QMI_Context.DEFAULT_UDP_RESPONDER_PORT
        except Exception as e:
            raise TranslatorError(f"cannot evaluate constant {ast.unparse(node)}: {e}")
        if isinstance(v, (int, float, str, bool)):
            return v
    raise TranslatorError(f"not a constant: {ast.unparse(node)}")


def _cond_of(test, var: str, module):
    """The test of `if <test>: raise QMI_TransportDescriptorException` as a model `Cond` on variable `var`."""
    def is_var(n):
        return isinstance(n, ast.Name) and n.id == var
    if isinstance(test, ast.BoolOp) and isinstance(test.op, ast.Or):
        cs = [_cond_of(v, var, module) for v in test.values]
        out = cs[0]
        for c in cs[1:]:
            out = ("or", out, c)
        return out
    if isinstance(test, ast.Compare) and len(test.ops) == 1 and is_var(test.left):
        op, rhs = test.ops[0], test.comparators[0]
        if isinstance(op, (ast.Lt, ast.Gt, ast.Eq)):
            k = _const(rhs, module)
            if isinstance(k, bool) or not isinstance(k, int):
                raise TranslatorError(f"comparison with a non-integer constant: {ast.unparse(test)}")
            return ({ast.Lt: "lt", ast.Gt: "gt", ast.Eq: "eq"}[type(op)], k)
        if isinstance(op, ast.NotIn) and isinstance(rhs, ast.Tuple):
            vals = [_const(e, module) for e in rhs.elts]
            if vals and all(isinstance(v, str) for v in vals):
                return ("notInStrs", vals)
            if vals == [True, False] and all(isinstance(v, bool) for v in vals):
                return ("notBool",)
            if vals == [1.0, 1.5, 2.0] and all(isinstance(v, float) for v in vals):
                return ("notStopbits",)          # the model knows the rounding intervals of exactly these three doubles
            raise TranslatorError(f"membership test not modelled: {ast.unparse(test)}")
    # not (x.upper().startswith(UP) or x.startswith(PRE))
    if isinstance(test, ast.UnaryOp) and isinstance(test.op, ast.Not) and isinstance(test.operand, ast.BoolOp) \
            and isinstance(test.operand.op, ast.Or) and len(test.operand.values) == 2:
        a, b = test.operand.values
        if (_is_call(a, "startswith") and _is_call(a.func.value, "upper") and is_var(a.func.value.func.value) and not a.func.value.args
                and len(a.args) == 1 and _is_call(b, "startswith") and is_var(b.func.value) and len(b.args) == 1):
            up, pre = _const(a.args[0], module), _const(b.args[0], module)
            if not (isinstance(up, str) and up.isascii() and up.isalpha() and up == up.upper() and isinstance(pre, str) and pre.isascii() and pre):
                raise TranslatorError(f"device-name test with unsupported constants: {ast.unparse(test)}")
            for c in range(128, 0x110000):
                if not (0xd800 <= c < 0xe000) and any(ch in up for ch in chr(c).upper()):
                    raise TranslatorError(f"str.upper(): U+{c:04X} upper-cases into a letter of {up!r}; model of the prefix test unsound")
            return ("notDevice", up, pre)
    # (not _is_valid_hostname(x)) and (not _is_valid_ipaddress(x))
    if isinstance(test, ast.BoolOp) and isinstance(test.op, ast.And) and len(test.values) == 2:
        names = []
        for v in test.values:
            if (isinstance(v, ast.UnaryOp) and isinstance(v.op, ast.Not) and isinstance(v.operand, ast.Call)
                    and isinstance(v.operand.func, ast.Name) and len(v.operand.args) == 1 and is_var(v.operand.args[0])):
                names.append(v.operand.func.id)
        if names == ["_is_valid_hostname", "_is_valid_ipaddress"]:
            return ("badHost",)
    raise TranslatorError(f"validator test not understood: {ast.unparse(test)}")


def _is_descr_raise(stmt) -> bool:
    return (isinstance(stmt, ast.Raise) and isinstance(stmt.exc, ast.Call) and isinstance(stmt.exc.func, ast.Name)
            and stmt.exc.func.id == "QMI_TransportDescriptorException")


def _validator_prog(owner, name, argvar_expr, depth=0):
    """Inline `<owner>._validate_x(<param>)`: list of ('validate', param, cond)."""
    if depth > 4:
        raise TranslatorError("validator recursion too deep")
    k, raw, fn = _find_method(owner, name)
    node = _func_ast(fn)
    params = [a.arg for a in node.args.args]
    if not isinstance(raw, staticmethod):
        params = params[1:]
    if len(params) != 1:
        raise TranslatorError(f"{k.__name__}.{name}: expected exactly one value parameter")
    var = params[0]
    module = sys.modules[k.__module__]
    out = []
    for st in node.body:
        if isinstance(st, ast.Expr) and isinstance(st.value, ast.Constant):
            continue                                                   # docstring
        if (isinstance(st, ast.Expr) and _is_call(st.value, name)
                and isinstance(st.value.func.value, ast.Call) and isinstance(st.value.func.value.func, ast.Name)
                and st.value.func.value.func.id == "super" and len(st.value.args) == 1
                and isinstance(st.value.args[0], ast.Name) and st.value.args[0].id == var):
            nxt = k.__mro__[1]
            out += _validator_prog(nxt, name, argvar_expr, depth + 1)  # super()._validate_x(x)
            continue
        if isinstance(st, ast.If) and not st.orelse and len(st.body) == 1 and _is_descr_raise(st.body[0]):
            out.append(("validate", argvar_expr, _cond_of(st.test, var, module)))
            continue
        raise TranslatorError(f"{k.__name__}.{name}: statement not understood: {ast.unparse(st)[:80]}")
    return out


def _init_prog(cls, binding=None, depth=0):
    """Symbolic execution of `cls.__init__`: statements ('validate', param, cond) / ('resolve', param) / ('store', attr, [params]).
    `binding` maps the local names of this `__init__` to the parameter names of the outermost constructor."""
    if depth > 6:
        raise TranslatorError("constructor chain too deep")
    if "__init__" not in vars(cls):
        return _init_prog(cls.__mro__[1], binding, depth + 1) if cls.__mro__[1] is not object else []
    fn = vars(cls)["__init__"]
    node = _func_ast(fn)
    params = [a.arg for a in node.args.args][1:] + [a.arg for a in node.args.kwonlyargs]
    if binding is None:
        binding = {p: p for p in params}
    module = sys.modules[cls.__module__]
    prog = []

    def src(n):
        if isinstance(n, ast.Name) and n.id in binding:
            return binding[n.id]
        raise TranslatorError(f"{cls.__name__}.__init__: expression is not a constructor parameter: {ast.unparse(n)}")

    def mentions_param(n):
        return any(isinstance(x, ast.Name) and x.id in binding for x in ast.walk(n))

    for st in node.body:
        if isinstance(st, ast.Expr) and isinstance(st.value, ast.Constant):
            continue
        if isinstance(st, ast.Expr) and isinstance(st.value, ast.Call):
            c = st.value
            f = c.func
            # _logger.debug(...)
            if isinstance(f, ast.Attribute) and isinstance(f.value, ast.Name) and f.value.id == "_logger":
                continue
            # super().__init__(a, b, kw=c)
            if (isinstance(f, ast.Attribute) and f.attr == "__init__" and isinstance(f.value, ast.Call)
                    and isinstance(f.value.func, ast.Name) and f.value.func.id == "super" and not f.value.args):
                parent = cls.__mro__[1]
                while parent is not object and "__init__" not in vars(parent):
                    parent = parent.__mro__[1]
                if parent is object:
                    continue
                pnode = _func_ast(vars(parent)["__init__"])
                pparams = [a.arg for a in pnode.args.args][1:]
                nb = {}
                for i, a in enumerate(c.args):
                    if i >= len(pparams):
                        raise TranslatorError(f"{cls.__name__}.__init__: too many arguments for {parent.__name__}.__init__")
                    nb[pparams[i]] = src(a)
                for kw in c.keywords:
                    if kw.arg is None or kw.arg not in pparams:
                        raise TranslatorError(f"{cls.__name__}.__init__: keyword {kw.arg} for {parent.__name__}.__init__")
                    nb[kw.arg] = src(kw.value)
                nb["__outer_class__"] = binding.get("__outer_class__", cls)      # `self._validate_x` dispatches on the real class
                prog += _init_prog(parent, nb, depth + 1)
                continue
            # self._validate_x(p)  /  Cls._validate_x(p)
            if isinstance(f, ast.Attribute) and isinstance(f.value, ast.Name) and len(c.args) == 1 and not c.keywords:
                if f.value.id == "self":
                    owner = binding.get("__outer_class__", cls)
                elif hasattr(module, f.value.id) and isinstance(getattr(module, f.value.id), type):
                    owner = getattr(module, f.value.id)
                else:
                    raise TranslatorError(f"{cls.__name__}.__init__: call not understood: {ast.unparse(st)[:80]}")
                prog += _validator_prog(owner, f.attr, src(c.args[0]))
                continue
            raise TranslatorError(f"{cls.__name__}.__init__: call not understood: {ast.unparse(st)[:80]}")
        # host = socket.gethostbyname(host) if host == "localhost" else host
        if (isinstance(st, ast.Assign) and len(st.targets) == 1 and isinstance(st.targets[0], ast.Name)
                and st.targets[0].id in binding and isinstance(st.value, ast.IfExp)):
            v, e = st.targets[0].id, st.value
            ok = (isinstance(e.test, ast.Compare) and isinstance(e.test.left, ast.Name) and e.test.left.id == v
                  and len(e.test.ops) == 1 and isinstance(e.test.ops[0], ast.Eq)
                  and isinstance(e.test.comparators[0], ast.Constant) and e.test.comparators[0].value == "localhost"
                  and isinstance(e.orelse, ast.Name) and e.orelse.id == v
                  and ast.unparse(e.body) == f"socket.gethostbyname({v})")
            if not ok:
                raise TranslatorError(f"{cls.__name__}.__init__: rebinding of {v} not understood")
            prog.append(("resolve", binding[v]))
            continue
        # self.attr = param | self.attr = (p, q) | self.attr[: T] = <expression without parameters>
        tgt = val = None
        if isinstance(st, ast.Assign) and len(st.targets) == 1:
            tgt, val = st.targets[0], st.value
        elif isinstance(st, ast.AnnAssign) and st.value is not None:
            tgt, val = st.target, st.value
        if tgt is not None and isinstance(tgt, ast.Attribute) and isinstance(tgt.value, ast.Name) and tgt.value.id == "self":
            if isinstance(val, ast.Name) and val.id in binding:
                prog.append(("store", tgt.attr, [binding[val.id]]))
            elif isinstance(val, ast.Tuple) and val.elts and all(isinstance(e, ast.Name) and e.id in binding for e in val.elts):
                prog.append(("store", tgt.attr, [binding[e.id] for e in val.elts]))
            elif not mentions_param(val):
                pass                                                   # internal state (_is_open, buffers, handles)
            else:
                raise TranslatorError(f"{cls.__name__}.__init__: stored expression not understood: {ast.unparse(st)[:80]}")
            continue
        raise TranslatorError(f"{cls.__name__}.__init__: statement not understood: {ast.unparse(st)[:80]}")
    return prog


def _ctor_of(cls) -> dict:
    args = []
    for p in list(inspect.signature(cls.__init__).parameters.values())[1:]:
        if p.kind not in (p.POSITIONAL_OR_KEYWORD, p.KEYWORD_ONLY):
            raise TranslatorError(f"{cls.__name__}.__init__: parameter kind {p.kind} not modelled")
        args.append((p.name, None if p.default is p.empty else ("some", p.default)))
    binding = {p: p for p, _ in args}
    binding["__outer_class__"] = cls
    try:
        prog = _init_prog(cls, binding)
    except TranslatorError:
        if _STRICT[0]:
            raise
        # degraded description for the harness only (never written to Gen): attributes as documented per class family
        names = [c.__name__ for c in cls.__mro__]
        kind = next((k for base, k in _KIND_BY_BASE if base in names), None)
        prog = []
        for attr, src in _DOC_STORES.get(kind, []):
            prog.append(("store", attr, src))
    return {"cls": cls.__name__, "args": args, "prog": prog}


def read_tables() -> dict:
    """Everything the model takes from the current source. Raises TranslatorError on shapes it does not understand."""
    im = impl()
    tr = im.tr
    P = tr.TransportDescriptorParser
    parsers = {n: o for n, o in vars(tr).items() if isinstance(o, P)}
    src = textwrap.dedent(inspect.getsource(tr.create_transport))
    fn = ast.parse(src).body[0]
    body = [s for s in fn.body if not (isinstance(s, ast.Expr) and isinstance(getattr(s, "value", None), ast.Constant))]
    if len(body) != 1 or not isinstance(body[0], ast.If):
        raise TranslatorError("create_transport: expected a single if/elif chain")
    argnames = [a.arg for a in fn.args.args]
    if len(argnames) != 2:
        raise TranslatorError("create_transport: expected (transport_descriptor, default_attributes)")
    td, da = argnames

    def resolve(name, imports):
        if name in imports:
            import importlib
            return getattr(importlib.import_module(imports[name]), name)
        if hasattr(tr, name):
            return getattr(tr, name)
        raise TranslatorError(f"create_transport: cannot resolve class {name}")

    def ctor_from(stmts, what):
        """stmts = [ImportFrom*, Return Cls(**attributes)] or [ImportFrom*, Raise QMI_TransportDescriptorException]"""
        imports = {}
        rest = []
        for s in stmts:
            if isinstance(s, ast.ImportFrom):
                for a in s.names:
                    imports[a.asname or a.name] = s.module
            else:
                rest.append(s)
        if len(rest) != 1:
            raise TranslatorError(f"create_transport/{what}: unexpected statements")
        s = rest[0]
        if isinstance(s, ast.Raise):
            e = s.exc
            if isinstance(e, ast.Call) and isinstance(e.func, ast.Name) and e.func.id == "QMI_TransportDescriptorException":
                return None
            raise TranslatorError(f"create_transport/{what}: raises something other than the descriptor exception")
        if (isinstance(s, ast.Return) and isinstance(s.value, ast.Call) and isinstance(s.value.func, ast.Name)
                and not s.value.args and len(s.value.keywords) == 1 and s.value.keywords[0].arg is None
                and isinstance(s.value.keywords[0].value, ast.Name) and s.value.keywords[0].value.id == "attributes"):
            return _ctor_of(resolve(s.value.func.id, imports))
        raise TranslatorError(f"create_transport/{what}: expected `return Cls(**attributes)`")

    ifaces = []
    node = body[0]
    while True:
        t = node.test
        if not (_is_call(t, "match_interface") and isinstance(t.func.value, ast.Name) and len(t.args) == 1
                and isinstance(t.args[0], ast.Name) and t.args[0].id == td):
            raise TranslatorError("create_transport: branch test is not `<Parser>.match_interface(transport_descriptor)`")
        pname = t.func.value.id
        if pname not in parsers:
            raise TranslatorError(f"create_transport: unknown parser {pname}")
        st = node.body
        a0 = st[0] if st else None
        if not (isinstance(a0, ast.Assign) and len(a0.targets) == 1 and isinstance(a0.targets[0], ast.Name)
                and a0.targets[0].id == "attributes" and _is_call(a0.value, "parse_parameter_strings")
                and isinstance(a0.value.func.value, ast.Name) and a0.value.func.value.id == pname
                and [getattr(x, "id", None) for x in a0.value.args] == [td, da] and not a0.value.keywords):
            raise TranslatorError(f"create_transport/{pname}: expected `attributes = {pname}.parse_parameter_strings(...)`")
        rest = st[1:]
        if len(rest) == 1 and isinstance(rest[0], ast.If):
            pt = rest[0].test
            ok = (_is_call(pt, "startswith") and len(pt.args) == 1 and isinstance(pt.args[0], ast.Constant)
                  and pt.args[0].value == "win" and _is_call(pt.func.value, "lower")
                  and ast.unparse(pt.func.value.func.value) == "sys.platform")
            if not ok:
                raise TranslatorError(f"create_transport/{pname}: platform test not understood")
            cw = ctor_from(rest[0].body, pname + "/win")
            cl = ctor_from(rest[0].orelse, pname + "/other")
        else:
            cw = cl = ctor_from(rest, pname)
        p = parsers[pname]
        pos, kws = [], []
        for name, spec in p._positionals:
            ty, req = spec
            if ty not in _TY or not isinstance(req, bool) or not isinstance(name, str):
                raise TranslatorError(f"{pname}: positional {name!r} has unsupported spec {spec!r}")
            pos.append((name, _TY[ty], req))
        for name, spec in p._keywords.items():
            ty, req = spec
            if ty not in _TY or not isinstance(req, bool) or not isinstance(name, str):
                raise TranslatorError(f"{pname}: keyword {name!r} has unsupported spec {spec!r}")
            kws.append((name, _TY[ty], req))
        ifaces.append({"parser": pname, "name": p.interface, "positionals": pos, "keywords": kws, "linux": cl, "win": cw})
        nxt = node.orelse
        if len(nxt) == 1 and isinstance(nxt[0], ast.If):
            node = nxt[0]
            continue
        if not (len(nxt) == 1 and isinstance(nxt[0], ast.Raise) and isinstance(nxt[0].exc, ast.Call)
                and getattr(nxt[0].exc.func, "id", None) == "QMI_TransportDescriptorException"):
            raise TranslatorError("create_transport: final else does not raise the descriptor exception")
        break
    names = [i["name"] for i in ifaces]
    for n in names:
        if not (n.isascii() and n == n.lower() and "k" not in n and n and ":" not in n):
            raise TranslatorError(f"interface name {n!r}: the model of `.lower()` comparison assumes lower-case ASCII without 'k'")
    if len(set(names)) != len(names):
        raise TranslatorError("duplicate interface names")
    from qmi.core.context import QMI_Context
    port = QMI_Context.DEFAULT_UDP_RESPONDER_PORT
    if not isinstance(port, int):
        raise TranslatorError("DEFAULT_UDP_RESPONDER_PORT is not an int")
    # the exception class itself: the model treats `raise QMI_TransportDescriptorException(text, ...)` as atomic, which is
    # CPython's behaviour for a class that inherits BaseException's constructor and string conversion unchanged
    plain = True
    for k in im.Descr.__mro__:
        if k.__module__.startswith("qmi.") and any(n in vars(k) for n in ("__init__", "__new__", "__str__", "__repr__", "__reduce__", "args")):
            plain = False
    return {"ifaces": ifaces, "udp_reserved": port, "exc_plain": plain}


def check_python_assumptions() -> None:
    """The CPython/Unicode facts the hand-written model relies on, re-checked against the running interpreter."""
    src = MODEL.read_text()
    m = re.search(r"def ndStarts : List Nat :=\s*\[([^\]]*)\]", src)
    model_starts = [int(x, 16) for x in re.findall(r"0x[0-9a-fA-F]+", m.group(1))]
    nd = [c for c in range(0x110000) if unicodedata.category(chr(c)) == "Nd"]
    starts = nd[::10]
    for s in starts:
        if [unicodedata.decimal(chr(s + i), None) for i in range(10)] != list(range(10)):
            raise TranslatorError(f"Unicode decimal digits at U+{s:04X} are not a run 0..9")
    if sorted(starts) != sorted([0x30] + model_starts) or len(nd) != 10 * len(starts):
        raise TranslatorError("Unicode decimal-digit table of the model differs from this interpreter's unicodedata")
    spaces = [c for c in range(0x110000) if chr(c).isspace()]
    want = [9, 10, 11, 12, 13, 0x1c, 0x1d, 0x1e, 0x1f, 0x20, 0x85, 0xa0, 0x1680] + list(range(0x2000, 0x200b)) + \
           [0x2028, 0x2029, 0x202f, 0x205f, 0x3000]
    if spaces != want:
        raise TranslatorError("str.isspace() set differs from the model's")
    if sys.get_int_max_str_digits() != 4300:
        raise TranslatorError("sys.get_int_max_str_digits() != 4300 (model constant maxStrDigits)")
    rx = re.compile(r"[A-Z0-9-]", re.IGNORECASE)
    extra = [c for c in range(128, 0x110000) if rx.match(chr(c))]
    if extra != [0x130, 0x131, 0x17f, 0x212a]:
        raise TranslatorError("re.IGNORECASE [A-Z] extras differ from the model's isLabelChar")
    low = [c for c in range(128, 0x110000) if not (0xd800 <= c < 0xe000) and any(ch < "\x80" for ch in chr(c).lower())]
    if low != [0x130, 0x212a]:
        raise TranslatorError("str.lower(): unexpected non-ASCII characters lowering into ASCII")
    up = [c for c in range(128, 0x110000) if not (0xd800 <= c < 0xe000) and chr(c).upper()[:1] in ("C", "O", "M")]
    if up:
        raise TranslatorError("str.upper(): non-ASCII characters upper-casing to C/O/M (model of the COM test)")


def render_gen(t: dict) -> str:
    out = ["import QmiModel.Model.Descriptor",
           "/-! GENERATED on every run by harness/props/c14.py (`translate`) from the live",
           "`TransportDescriptorParser` instances, the constructor signatures, the AST of `create_transport` and the ASTs of the",
           "`__init__` bodies (`super().__init__` chains and `_validate_*` helpers inlined, constants evaluated).",
           "Do not edit. -/",
           "namespace QmiModel.Gen.TransportTables",
           "open QmiModel.Descriptor", ""]

    def param(p):
        return f"⟨{lean_str(p[0])}, .{p[1]}, {'true' if p[2] else 'false'}⟩"

    def cond(c):
        k = c[0]
        if k in ("lt", "gt", "eq"):
            return f".{k} ({c[1]})"
        if k == "or":
            return f".or ({cond(c[1])}) ({cond(c[2])})"
        if k == "notInStrs":
            return f".notInStrs [{', '.join(lean_str(x) for x in c[1])}]"
        if k == "notDevice":
            return f".notDevice {lean_str(c[1])} {lean_str(c[2])}"
        return "." + k

    def stmt(st):
        if st[0] == "validate":
            return f".validate {lean_str(st[1])} ({cond(st[2])})"
        if st[0] == "resolve":
            return f".resolveLocalhost {lean_str(st[1])}"
        return f".store {lean_str(st[1])} [{', '.join(lean_str(x) for x in st[2])}]"

    def ctor(c):
        if c is None:
            return "none"
        args = ", ".join(f"({lean_str(n)}, {'none' if d is None else 'some (' + lean_val(d[1]) + ')'})" for n, d in c["args"])
        prog = ",\n        ".join(stmt(x) for x in c["prog"])
        return f"some {{ cls := {lean_str(c['cls'])}, args := [{args}], prog := [\n        {prog}] }}"

    for i in t["ifaces"]:
        out.append(f"/-- `{i['parser']}` and the classes `create_transport` builds from it -/")
        out.append(f"def {i['name']} : Iface :=")
        out.append(f"  {{ name := {lean_str(i['name'])},")
        out.append(f"    positionals := [{', '.join(param(p) for p in i['positionals'])}],")
        out.append(f"    keywords := [{', '.join(param(p) for p in i['keywords'])}],")
        out.append(f"    ctorLinux := {ctor(i['linux'])},")
        out.append(f"    ctorWin := {ctor(i['win'])} }}")
        out.append("")
    out.append("/-- `QMI_TransportDescriptorException` and its qmi base classes define no `__init__` / `__new__` / `__str__` / `__repr__`:")
    out.append("constructing it from any message text cannot raise and keeps the text -/")
    out.append(f"def descriptorExceptionPlain : Bool := {'true' if t.get('exc_plain') else 'false'}")
    out.append("")
    out.append("def env : Env :=")
    out.append(f"  {{ ifaces := [{', '.join(i['name'] for i in t['ifaces'])}],")
    out.append(f"    localhostAddr := {lean_str(LOCALHOST_ADDR)} }}")
    out.append("")
    out.append("end QmiModel.Gen.TransportTables")
    return "\n".join(out) + "\n"


# ---------------------------------------------------------------------------------------------------------------------
# line protocol helpers
# ---------------------------------------------------------------------------------------------------------------------

def enc(s: str) -> str:
    return "-" if s == "" else ",".join(str(ord(c)) for c in s)


def dec(t: str) -> str:
    return "" if t == "-" else "".join(chr(int(x)) for x in t.split(","))


def encodable(s: str) -> bool:
    """Lean `Char` = Unicode scalar value: lone surrogates cannot be sent to the model."""
    return not any(0xd800 <= ord(c) < 0xe000 for c in s)


_OTHER_OBJECTS = {"dict": lambda: {}, "list": lambda: [], "tuple": lambda: (), "bytes": lambda: b"{x}", "set": lambda: set(),
                  "dict1": lambda: {"{a}": "%s"}, "obj": lambda: object}


def enc_tagged(tag: str, payload) -> str:
    if tag in ("n", "o"):                 # an object of no declared type behaves like None for the model
        return "n"
    if tag == "i":
        return f"i:{payload}"
    if tag == "b":
        return "b:1" if payload else "b:0"
    return f"{tag}:{enc(payload)}"          # s / f


def py_of_tagged(tag: str, payload):
    if tag == "n":
        return None
    if tag == "o":
        return _OTHER_OBJECTS[payload]()
    if tag == "f":
        return float(payload)
    return payload


def defaults_py(defs):
    return None if defs is None else {k: py_of_tagged(t, p) for k, t, p in defs}


def enc_int(v: int) -> str:
    """decimal below 2^63, hexadecimal above (str(int) refuses more than 4300 digits)"""
    return str(v) if abs(v) < 2 ** 63 else hex(v)


def canon_val(v) -> str:
    if v is None:
        return "n"
    if isinstance(v, bool):
        return "b:1" if v else "b:0"
    if isinstance(v, int):
        return "i:" + enc_int(v)
    if isinstance(v, float):
        return "F:" + v.hex()
    if isinstance(v, str):
        return "s:" + (enc(v) if encodable(v) else "?surrogate")
    return "?:" + type(v).__name__


_F_RE = re.compile(r"([=(|])f:([0-9,\-]+)")


def canon_model_line(line: str) -> str:
    """floats: the model carries the literal; compare through Python's own float()"""
    def sub(m):
        try:
            return m.group(1) + "F:" + float(dec(m.group(2))).hex()
        except Exception:
            return m.group(0)
    return _F_RE.sub(sub, line) if "f:" in line else line


_ATTR = {
    "serial": {"device": "device", "baudrate": "_baudrate", "bytesize": "_bytesize", "parity": "_parity",
               "stopbits": "_stopbits", "rtscts": "_rtscts"},
    "tcp": {"host": ("_address", 0), "port": ("_address", 1), "connect_timeout": "_connect_timeout"},
    "udp": {"host": ("_address", 0), "port": ("_address", 1), "connect_timeout": "_connect_timeout"},
    "usbtmc": {"vendorid": "vendorid", "productid": "productid", "serialnr": "serialnr"},
    "gpib": {"primary_addr": "_primary_addr", "board": "_board", "secondary_addr": "_secondary_addr",
             "connect_timeout": "_connect_timeout"},
    "vxi11": {"host": "_host"},
}
_MISSING = object()


def kind_of(t) -> str:
    names = [c.__name__ for c in type(t).__mro__]
    for base, k in _KIND_BY_BASE:
        if base in names:
            return k
    return "?"


def ctor_params(cls):
    return [p for p in list(inspect.signature(cls.__init__).parameters.values())[1:]]


def attr_of(t, kind: str, name: str):
    how = _ATTR.get(kind, {}).get(name)
    try:
        if isinstance(how, tuple):
            return getattr(t, how[0])[how[1]]
        if how is not None:
            return getattr(t, how)
        if hasattr(t, "_" + name):
            return getattr(t, "_" + name)
        return getattr(t, name)
    except Exception:
        return _MISSING


_TABLES = None


def tables_cached() -> dict:
    """the tables for generators and canonicalisation; if an `__init__` body is not understood (the translator has then
    already reported a broken link) fall back to the documented attribute names so that the oracle still runs"""
    global _TABLES
    if _TABLES is None:
        try:
            _TABLES = read_tables()
        except TranslatorError:
            _STRICT[0] = False
            try:
                _TABLES = read_tables()
            finally:
                _STRICT[0] = True
    return _TABLES


def stores_of(cls_name: str):
    for i in tables_cached()["ifaces"]:
        for c in (i["linux"], i["win"]):
            if c is not None and c["cls"] == cls_name:
                return [(st[1], st[2]) for st in c["prog"] if st[0] == "store"]
    return None


def canon_transport(t) -> str:
    """class + the attributes the constructor assigns from its parameters (names taken from the translated `__init__`)"""
    stores = stores_of(type(t).__name__)
    if stores is None:
        return f"ok {type(t).__name__} ?unknown-class"
    items = []
    for attr, ps in stores:
        v = getattr(t, attr, _MISSING)
        if v is _MISSING:
            items.append(f"{attr}=?missing")
        elif len(ps) == 1:
            items.append(f"{attr}=" + canon_val(v))
        elif isinstance(v, tuple) and len(v) == len(ps):
            items.append(f"{attr}=(" + "|".join(canon_val(x) for x in v) + ")")
        else:
            items.append(f"{attr}=?shape")
    return f"ok {type(t).__name__}" + ("".join(" " + i for i in items))


def canon_exc(e: BaseException) -> str:
    im = impl()
    if isinstance(e, im.Descr):
        return "exc:QMI_TransportDescriptorException"
    return f"exc:{type(e).__name__}"


def op_line(case: dict) -> str:
    k = case["kind"]
    if k == "ct":
        d = case.get("defaults") or []
        return " ".join(["ct", "1" if case["win"] else "0", enc(case["s"])] + [f"{enc(a)};{enc_tagged(t, p)}" for a, t, p in d])
    if k == "pps":
        d = case.get("defaults") or []
        return " ".join(["pps", case["iface"], enc(case["s"])] + [f"{enc(a)};{enc_tagged(t, p)}" for a, t, p in d])
    if k == "int":
        return f"int {case['base']} {enc(case['s'])}"
    if k == "fmtres":
        return " ".join(["fmtres"] + [enc(r) for r in case["resources"]])
    return f"{k} {enc(case['s'])}"       # parts float host hostname ip4 ip6


_FRESH = object()


def run_impl(case: dict, dobj=_FRESH):
    """Run the real code on one case. Returns (canonical output line, raw outcome) — raw = transport / exception / value.
    `dobj`: the defaults object to hand over (default: a fresh dict built from case["defaults"])."""
    im = impl()
    tr = im.tr
    k = case["kind"]
    try:
        if k == "ct":
            im.set_platform(case["win"])
            try:
                t = tr.create_transport(case["s"], defaults_py(case.get("defaults")) if dobj is _FRESH else dobj)
            finally:
                im.restore()
            return canon_transport(t), t
        if k == "pps":
            parser = next(p for p in vars(tr).values() if isinstance(p, tr.TransportDescriptorParser) and p.interface == case["iface"])
            d = parser.parse_parameter_strings(case["s"], defaults_py(case.get("defaults")) if dobj is _FRESH else dobj)
            return "ok" + "".join(f" {a}={canon_val(d[a])}" for a in sorted(d)), d
        if k == "parts":
            ps = tr.TransportDescriptorParser._parse_parts(case["s"])
            return "ok" + "".join(" " + enc(p) for p in ps), ps
        if k == "int":
            b = case["base"]
            v = int(case["s"]) if b == 10 else int(case["s"], b)
            return "ok " + enc_int(v), v
        if k == "float":
            v = float(case["s"])
            return f"ok {1 if v in (1.0, 1.5, 2.0) else 0}", v
        if k == "host":
            tr.QMI_SocketTransport._validate_host(case["s"])
            return "ok", None
        if k == "hostname":
            v = tr._is_valid_hostname(case["s"])
            return ("true" if v else "false"), v
        if k in ("ip4", "ip6"):
            import socket
            try:
                socket.inet_pton(socket.AF_INET if k == "ip4" else socket.AF_INET6, case["s"])
                return "true", True
            except OSError:
                return "false", False
        if k == "fmtres":
            v = tr.QMI_UsbTmcTransport._format_resources(list(case["resources"]))
            return "ok" + "".join(" " + enc(x) for x in v), v
        raise RuntimeError(f"unknown case kind {k}")
    except Exception as e:  # noqa: BLE001 — the exception class *is* the observation
        return canon_exc(e), e


# ---------------------------------------------------------------------------------------------------------------------
# generators: valid descriptors from the live tables, one mutation, arbitrary strings, default dictionaries
# ---------------------------------------------------------------------------------------------------------------------

HOSTS_OK = ["localhost", "a", "example.com", "host-1.local", "a.b.c.", "x" * 63, "127.0.0.1", "192.168.1.255", "0.0.0.0",
            "[::1]", "[2620:0:2d0:200::8]", "[fe80::1:2]", "[::ffff:1.2.3.4]", "[1:2:3:4:5:6:7:8]", "[::]", "A1-b.C", "1a.2b"]
HOSTS_NEAR = ["a-", "-a", "1.2.3", "1.2.3.4.5", "256.1.1.1", "01.2.3.4", "a..b", "a_b", "x" * 64, "ſ", "K", "İx",
              "[::1", "[:::]", "[1::2::3]", "[12345::]", "[g::1]", "[1:2:3:4:5:6:7:8:9]", "[::1.2.3]", "[1:2:3:4:5:6:7::8]", "12", "a.12",
              "a.12\n", "ab\n", "a\n.b", ".", "..", "a b", "[::1]]", "[[::1]", "[a$", "é", "a" * 250 + ".b" * 3, "1.2.3.4.", "::1"]
INTS = ["1", "5", "50", "5025", "65535", "65536", "0", "-1", "+5", " 5", "5 ", "0x10", "0X10", "1_0", "1__0", "_1", "1_", "٥", "\U0001d7d9\U0001d7da",
        "", "5.0", "1e3", "35999", "35998", "36000", "007", "0x", "0xg", "0x_1f", "0xffff", "0x10000", "8", "4", "9", "9600", "115200",
        "99999999999999999999", "١٢", "1\x00", "\x0b7", "\x1c7", "7 ", "0b1", "0o7", "-0", "0x-1", "0x1F"]
FLOATS = ["0", "0.0", "-0.0", "1", "1.0", "1.5", "2", "2.0", "3", "0.5", "1e0", "15e-1", "20e-1", "1.0000000000000001", "1.00000000000000000000001",
          ".5", "5.", "inf", "-inf", "nan", "Infinity", "infinit", "1_0", "1__0", "1_.5", "", "abc", "1e", "1e+", "0x1p0", " 1.5 ", "١.٥",
          "1.4999999999999999999", "1.5000000000000002", "1.5000000000000001", "0.99999999999999994", "0.99999999999999995",
          "0.999999999999999944488848768742172978818416595458984375", "0.99999999999999994448884876874217297881841659545898437",
          "1.00000000000000011102230246251565404236316680908203125", "1.0000000000000001110223024625156540423631668090820312501",
          "2.000000000000000222044604925031308084726333618164062500", "1.99999999999999988897769753748434595763683319091796875",
          "10.5", "30", "1e400", "1e-400", "-1.5", "+1.5", "1.5e0", "150e-2", "0.15e1", "0.0015E3", "1,5", "1.5\x00", "2_0e-1", ".", "-", "1.5.0"]
BOOLS = ["True", "False", "true", "1", "0", "TRUE", "", "False ", "yes"]
PARITY = ["N", "E", "O", "n", "X", "NE", "", "N "]
DEVICES = ["COM3", "com3", "/dev/ttyUSB0", "/dev/ttyS1", "COM", "CO", "tty", "\\\\.\\COM10", "cOm1", "[/dev/x]", "/", "COM10", "dev/tty", "Com", "KOM1"]
SERIALS = ["XYZ", "DS1K00005888", "A B", "[x]", "0x12", "a-b_c.d", "MY50000123", "1", "été", "x]y", "a$b",
           "%3A", "a%25b", "%", "%3a", "%253A", "50%", "%3", "%2525", "A%3AB%25"]
IDS = ["0x1234", "1234", "0", "65535", "65536", "-1", "0xffff", "0x10000", "0XFF", "0x0699", "1689", "0x_12", "12_34", "0x", "0xa1", "0x-1", " 0x12", "0x12 "]


def value_pool(ty: str, name: str):
    ok, allv = _value_pool(ty, name)
    return ok, allv + META_POOL


META_POOL = ["{}", "{0}", "{x}", "}", "{", "%s", "%", "%(x)s", "\\", "*", "?", "(", "[", "#", "'", '"', "`", "$x", "a{b}c", "1{}", "{}1"]


def _value_pool(ty: str, name: str):
    if name == "host":
        return HOSTS_OK, HOSTS_NEAR
    if name == "device":
        return DEVICES[:4], DEVICES
    if name == "parity":
        return PARITY[:3], PARITY
    if name == "serialnr":
        return SERIALS, SERIALS
    if name in ("vendorid", "productid"):
        return IDS[:4] + ["0xffff", "0x0699", "1689"], IDS
    if name == "port":
        return ["1", "5", "5025", "65535", "35998", "36000"], INTS
    if name == "bytesize":
        return ["5", "6", "7", "8"], INTS
    if name == "baudrate":
        return ["9600", "115200", "1", "0x10"], INTS
    if name == "stopbits":
        return ["1", "1.0", "1.5", "2", "2.0", "15e-1"], FLOATS
    if ty == "int":
        return ["1", "5", "0", "50"], INTS
    if ty == "float":
        return ["1", "1.5", "10.5", "30", "0.5", "0"], FLOATS
    if ty == "bool":
        return ["True", "False"], BOOLS
    return ["abc", "x"], ["abc", "x", "", "a b"]


def gen_valid(rng, ifc: dict, near: float = 0.12, have=()):
    """A descriptor following the documented grammar for this interface: list of parts (first = interface name).
    `have` = parameter names the defaults dictionary supplies (those may be left out of the string)."""
    parts = []
    keep = len(ifc["positionals"])
    if have and rng.random() < 0.5:
        keep = rng.randint(0, keep)          # leave a suffix of the positionals to the defaults
    for name, ty, req in ifc["positionals"][:keep]:
        ok, allv = value_pool(ty, name)
        if req or rng.random() < 0.8:
            parts.append(rng.choice(allv) if rng.random() < near else rng.choice(ok))
    kws = []
    ctor_req = {n for n, d in ((ifc.get("linux") or ifc.get("win") or {}).get("args") or []) if d is None}
    for name, ty, req in ifc["keywords"]:
        want = req or (name in ctor_req and rng.random() < 0.85)      # mostly satisfy the constructor, too
        if (want and not (name in have and rng.random() < 0.5)) or (not want and rng.random() < 0.55):
            ok, allv = value_pool(ty, name)
            kws.append(f"{name}={rng.choice(allv) if rng.random() < near else rng.choice(ok)}")
    rng.shuffle(kws)
    if rng.random() < 0.25:                      # keywords may stand anywhere between the positionals
        for kw in kws:
            parts.insert(rng.randint(0, len(parts)), kw)
    else:
        parts += kws
    if not parts:                                # a descriptor needs at least two parts
        name, ty, _ = rng.choice(ifc["keywords"] or ifc["positionals"])
        parts.append((f"{name}=" if (name, ty, _) in ifc["keywords"] else "") + rng.choice(value_pool(ty, name)[0]))
    return [ifc["name"]] + parts


# every character / token that is special to some string-processing layer the text may pass through on any path,
# including the error path: str.format, %-formatting, regular expressions, shell / glob, quoting, escapes
META_CHARS = list("{}%\\$*?[]()|^+.#'\"`~&;<>!@,/=-_ ") + ["\n", "\t", "\r", "\x00", "\x1b", "\x7f", "\u2028", "\ufeff", "\u0661", "\u212a", "\u0130", "\u017f", "\U0001d7d9"]
META_TOKENS = ["{}", "{", "}", "{0}", "{1}", "{host}", "{device}", "{interface}", "{!r}", "{:d}", "{0[0]}", "{a.b}", "}{", "{{", "}}", "{{}}", "${x}", "$", "$$",
               "%s", "%d", "%", "%%", "%(x)s", "%r", "%3", "%3A", "%25", "%n", "\\", "\\n", "\\1", "\\x00", "\\u0041", "(?P<x>", "(", ")", "()", "[a-z]", "[", "]", "[]",
               ".*", "*", "?", "+", "^", "|", "a|b", "^$", "#", "#x", "'", "\"", "`", "'x'", "\"x\"", "`x`", "~", "&", ";", "<", ">", "..", "../x", "~/x", "None", "True", "nan"]

CTRL = ["\n", "\t", "\r", "\x00", "\x1c", "\x7f", "\x85", " ", " ", "\x0b"]
UNI_DIGITS = {str(d): [chr(0x660 + d), chr(0x966 + d), chr(0xff10 + d), chr(0x1d7ce + d)] for d in range(10)}


def mutate(rng, parts):
    """One mutation of a well-formed descriptor; returns (kind, string)."""
    parts = list(parts)
    n = len(parts)
    kind = rng.choice(["drop", "dup", "swap", "extra_eq", "empty", "bracket", "case", "digits", "ctrl", "nul", "lead_colon",
                       "dollar", "surplus", "sep", "space", "trail_colon", "unknown_kw", "kw_as_pos",
                       "meta_char", "meta_char", "meta_token", "meta_token", "meta_wrap", "meta_iface", "meta_kwname"])
    i = rng.randrange(1, n) if n > 1 else 0
    if kind == "drop" and n > 1:
        del parts[i]
    elif kind == "dup" and n > 1:
        parts.insert(rng.randint(1, n), parts[i])
    elif kind == "swap" and n > 2:
        j = rng.randrange(1, n)
        parts[i], parts[j] = parts[j], parts[i]
    elif kind == "extra_eq":
        p = parts[i]
        parts[i] = rng.choice([p + "=x", p + "=", "=" + p, p.replace("=", "==", 1), p + "=1=2"])
    elif kind == "empty":
        parts.insert(rng.randint(1, n), "")
    elif kind == "bracket":
        p = parts[i]
        parts[i] = rng.choice([p.replace("]", "", 1), p.replace("[", "", 1), "[" + p, p + "]", "[" + p + "]", "[" + p + "]]", "[[" + p + "]",
                               p.replace("]", "$", 1), "[]", "[", "]"])
    elif kind == "case":
        p = parts[i]
        which = rng.random()
        if which < 0.4:
            parts[0] = rng.choice([parts[0].upper(), parts[0].capitalize(), parts[0].swapcase(), parts[0].replace("i", "İ"),
                                   parts[0].replace("s", "ſ")])
        else:
            parts[i] = rng.choice([p.upper(), p.lower(), p.swapcase(), p.title()])
    elif kind == "digits":
        p = parts[i]
        ds = [k for k, c in enumerate(p) if c.isdigit() and c.isascii()]
        which = rng.random()
        if ds and which < 0.4:
            k = rng.choice(ds)
            parts[i] = p[:k] + rng.choice(UNI_DIGITS[p[k]]) + p[k + 1:]
        elif ds and which < 0.7:
            k = rng.choice(ds)
            parts[i] = p[:k] + rng.choice(["_", "__"]) + p[k:] if rng.random() < 0.5 else p[:k + 1] + "_" + p[k + 1:]
        else:
            k = p.find("=") + 1
            parts[i] = p[:k] + rng.choice(["0x", "0X", "0x_", "0o", "0b", "+", "-", "00"]) + p[k:]
    elif kind in ("ctrl", "nul"):
        s = ":".join(parts)
        k = rng.randint(0, len(s))
        return kind, s[:k] + ("\x00" if kind == "nul" else rng.choice(CTRL)) + s[k:]
    elif kind == "lead_colon":
        return kind, rng.choice([":", "::", ":["]) + ":".join(parts)
    elif kind == "dollar":
        s = ":".join(parts)
        k = rng.randint(0, len(s))
        return kind, s[:k] + "$" + s[k:]
    elif kind == "surplus":
        parts.insert(rng.randint(1, n), rng.choice(["7", "extra", "[x]", "1.5"]))
    elif kind == "sep":
        s = ":".join(parts)
        ks = [k for k, c in enumerate(s) if c == ":"]
        if ks:
            k = rng.choice(ks)
            return kind, s[:k] + rng.choice([";", ",", " ", "::", ":::", "/"]) + s[k + 1:]
    elif kind == "space":
        p = parts[i]
        parts[i] = rng.choice([" " + p, p + " ", p.replace("=", " = ", 1), p.replace("=", "= ", 1), " " + p])
    elif kind == "trail_colon":
        return kind, ":".join(parts) + rng.choice([":", "::", ":="])
    elif kind == "unknown_kw":
        parts.insert(rng.randint(1, n), rng.choice(["foo=1", "host=h", "port=5", "device=COM1", "baudrate=5", "connect_timeout=1", "Baudrate=5", "=5", "primary_addr=1"]))
    elif kind == "meta_char":               # a metacharacter anywhere in the text
        sj = ":".join(parts)
        for _ in range(rng.choice([1, 1, 2, 3])):
            k = rng.randint(0, len(sj))
            sj = sj[:k] + rng.choice(META_CHARS) + sj[k + (rng.random() < 0.3):]
        return kind, sj
    elif kind == "meta_token" and n > 1:     # a value (or a whole part) replaced by / extended with a metacharacter token
        p = parts[i]
        tok = rng.choice(META_TOKENS)
        k = p.find("=") + 1
        parts[i] = rng.choice([p[:k] + tok, p[:k] + tok + p[k:], p + tok, tok, tok + p])
    elif kind == "meta_wrap" and n > 1:      # "{value}", "%(value)s", "$value", "'value'", ...
        p = parts[i]
        k = p.find("=") + 1
        v = p[k:]
        parts[i] = p[:k] + rng.choice(["{" + v + "}", "%(" + v + ")s", "$" + v, "${" + v + "}", "'" + v + "'", '"' + v + '"', "`" + v + "`", "(" + v + ")",
                                      "{" + v, v + "}", "<" + v + ">", "\\" + v])
    elif kind == "meta_iface":
        parts[0] = rng.choice([rng.choice(META_TOKENS), parts[0] + rng.choice(META_TOKENS), rng.choice(META_TOKENS) + parts[0],
                               "{" + parts[0] + "}", parts[0][:1] + rng.choice(META_CHARS) + parts[0][1:]])
    elif kind == "meta_kwname" and n > 1:
        p = parts[i]
        tok = rng.choice(META_TOKENS)
        if "=" in p:
            kname, v = p.split("=", 1)
            parts[i] = rng.choice([tok, kname + tok, tok + kname, "{" + kname + "}"]) + "=" + v
        else:
            parts[i] = tok + "=" + p
    elif kind == "kw_as_pos" and n > 1:
        p = parts[i]
        if "=" in p:
            parts[i] = p.split("=", 1)[1]
    return kind, ":".join(parts)


ALPHA = list(":::==[]$\n .-_0x1259") + list("abctpudserialgvxhoCOM/") + ["\x00", "١", "K", "İ", "\t", "é", "\U0001d7d9"]


ALPHA += list("{}{}%%\\*?()|^+#'\"`")


def gen_arbitrary(rng, ifaces):
    n = rng.choice([0, 1, 2, 3, 5, 8, 13, 21, 30])
    s = "".join(rng.choice(ALPHA) for _ in range(n))
    r = rng.random()
    if r < 0.45:
        s = rng.choice(ifaces)["name"] + rng.choice([":", "", "::", ":["]) + s
    elif r < 0.55:
        s = rng.choice(["tcp", "udp", "serial", "usbtmc", "gpib", "vxi11", "TCP", "Serial"]) + s
    return s


ILL_TYPED_RATE = 0.1


FOREIGN_KEYS = ["foo", "", "Host", "timeout", "hosts", "port ", "é", "{}", "{port}", "%s", "po{rt", "\\", "*"]


def gen_defaults(rng, ifc: dict, all_ifaces):
    """A default-parameter dictionary: well-typed values (what a driver passes), for known and foreign keys."""
    if rng.random() < 0.4:
        return None
    known = [(n, ty) for n, ty, _ in ifc["positionals"] + ifc["keywords"]]
    other = [(n, ty) for i in all_ifaces for n, ty, _ in i["positionals"] + i["keywords"]]
    out = {}
    for name, ty in known:
        if rng.random() < 0.35:
            out[name] = ty
    for _ in range(rng.choice([0, 0, 1, 2])):
        name, ty = rng.choice(other)
        out.setdefault(name, ty)
    for _ in range(rng.choice([0, 0, 0, 1])):
        out.setdefault(rng.choice(FOREIGN_KEYS), rng.choice(["int", "str", "float", "bool"]))
    defs = []
    for name, ty in out.items():
        ok, allv = value_pool(ty, name)
        if rng.random() < ILL_TYPED_RATE:
            # a value of another type than the parameter declares (a caller's mistake)
            kinds = ["s", "i", "b", "n", "f", "o", "s"]
            k = rng.choice(kinds)
            defs.append([name, k, {"o": rng.choice(sorted(_OTHER_OBJECTS)),
                                   "s": rng.choice(["5", "abc", "", "True", "1.5", "N", "COM1", "h"] + META_TOKENS), "i": rng.choice([0, 1, 2, 5, 8, 35999, 70000, -1]),
                                   "b": rng.choice([True, False]), "n": None, "f": rng.choice(["1.5", "2", "0.5", "1e3"])}[k]])
            continue
        for _ in range(20):
            lit = rng.choice(allv) if rng.random() < 0.25 else rng.choice(ok)
            if name == "host" and lit.startswith("[") and lit.endswith("]") and rng.random() < 0.8:
                lit = lit[1:-1]
            try:
                if ty == "int":
                    v = int(lit, 16) if lit.startswith("0x") else int(lit)
                    defs.append([name, "i", v])
                elif ty == "float":
                    if rng.random() < 0.2:
                        defs.append([name, "i", rng.choice([1, 2, 3, 10, 0])])
                    else:
                        float(lit)
                        if "\x00" in lit:
                            continue
                        defs.append([name, "f", lit])
                elif ty == "bool":
                    defs.append([name, "b", rng.choice([True, False])])
                else:
                    if name == "host" and rng.random() < 0.2:
                        lit = ""
                    defs.append([name, "s", lit])
                break
            except ValueError:
                continue
    return defs


def gen_float_lit(rng) -> str:
    """float literals, biased to the rounding boundaries of 1.0 / 1.5 / 2.0 (the stopbits test compares values)"""
    from decimal import Decimal, getcontext
    r = rng.random()
    if r < 0.35:
        getcontext().prec = 120
        t, below, above = rng.choice([(Decimal(1), 54, 53), (Decimal("1.5"), 53, 53), (Decimal(2), 53, 52)])
        side = rng.choice([-1, 1])
        x = t + side * Decimal(2) ** (-(below if side < 0 else above))       # the exact tie point
        x += rng.choice([0, 0, 1, -1]) * Decimal(10) ** (-rng.choice([60, 70, 100]))
        s = format(x, "f")
        k = rng.random()
        if k < 0.2:
            e = rng.randint(-5, 5)
            s = format(x.scaleb(-e), "f") + f"e{e}"
        elif k < 0.3:
            s = s.rstrip("0") + "0" * rng.randint(0, 5)
        return s
    if r < 0.6:
        base = rng.choice(FLOATS)
        return base
    digs = "".join(rng.choice("0123456789") for _ in range(rng.randint(0, 6)))
    frac = "".join(rng.choice("0123456789") for _ in range(rng.randint(0, 6)))
    s = rng.choice(["", "", "-", "+"]) + digs + rng.choice(["", ".", "."]) + frac
    if rng.random() < 0.4:
        s += rng.choice("eE") + rng.choice(["", "-", "+"]) + str(rng.choice([0, 1, 2, 5, 17, 400, 99999999999999999999]))
    if rng.random() < 0.15 and s:
        k = rng.randint(0, len(s))
        s = s[:k] + rng.choice(["_", " ", "\x00", "x", "١", " ", "__"]) + s[k:]
    return s


def gen_int_lit(rng) -> str:
    r = rng.random()
    if r < 0.4:
        return rng.choice(INTS + IDS)
    s = rng.choice(["", "", "-", "+", " ", "0x", "0X", "0o", "0b", "0", "00"]) + "".join(
        rng.choice("0123456789abcdefABCDEF_ \t١٢\U0001d7d9z") if rng.random() < 0.25 else rng.choice("0123456789")
        for _ in range(rng.choice([0, 1, 2, 3, 6, 12])))
    if rng.random() < 0.03:
        s = rng.choice("19") * rng.choice([4299, 4300, 4301]) + rng.choice(["", "_1", " "])
    return s + rng.choice(["", "", "", " ", "\n", "\x00", "_"])


def gen_host_lit(rng) -> str:
    import ipaddress
    r = rng.random()
    if r < 0.25:
        h = rng.choice(HOSTS_OK + HOSTS_NEAR)
        return h[1:-1] if h.startswith("[") and h.endswith("]") and rng.random() < 0.8 else h
    if r < 0.5:                     # IPv6-ish
        a = ipaddress.IPv6Address(rng.getrandbits(128) & rng.choice([(1 << 128) - 1, (1 << 64) - 1, ~((1 << 96) - 1) & ((1 << 128) - 1), 0xffff << 32 | 0xffffffff]))
        s = rng.choice([a.compressed, a.exploded, a.compressed.upper()])
        if rng.random() < 0.3:
            s = s.rsplit(":", 2)[0] + ":" + str(ipaddress.IPv4Address(rng.getrandbits(32)))
    elif r < 0.7:                   # IPv4-ish
        s = ".".join(str(rng.choice([0, 1, 9, 10, 99, 127, 199, 249, 250, 255, 256, 300, 1000])) for _ in range(rng.choice([3, 4, 4, 4, 5])))
    else:                           # hostname-ish
        labs = []
        for _ in range(rng.choice([1, 1, 2, 3])):
            labs.append("".join(rng.choice("abcXYZ019-") for _ in range(rng.choice([1, 2, 5, 62, 63, 64]))))
        s = ".".join(labs) + rng.choice(["", "", ".", "\n"])
    if rng.random() < 0.35 and s:
        k = rng.randint(0, len(s))
        s = s[:k] + rng.choice([":", "::", ".", "..", "0", "00", "g", "-", "_", "\n", "\x00", "ſ", "1.2.3.4", "%", " ", "]"]) + s[k + (rng.random() < 0.5):]
    return s


def gen_resources(rng):
    out = []
    for _ in range(rng.choice([1, 1, 2, 3, 5])):
        v = rng.choice([0, 1, 0x699, 0x1ab1, 65535, rng.randint(0, 65535)])
        p = rng.choice([0, 1, 0x3000, 0x588, 65535, rng.randint(0, 65535)])
        sn = rng.choice(SERIALS + ["A:B", "a=b", "", "x::y", "INSTR"])
        fmt = rng.choice(["USB::%d::%d::%s::INSTR", "USB0::0x%04X::0x%04X::%s::INSTR", "USB0::0x%04x::0x%04x::%s::0::INSTR",
                          "USB::%d::%d::INSTR", "USB1::0%o::%d::%s::INSTR", "ASRL1::%d::%d::%s::INSTR", "USB::%d::%d::%s::RAW",
                          "USB0::0b%s::0o%s::%s::INSTR", "USB::-%d::%d::%s::INSTR", "USB::%d::%d_0::%s::INSTR", "usb::%d::%d::%s::INSTR"])
        try:
            if "0b%s" in fmt:
                out.append(fmt % (bin(v)[2:], oct(p)[2:], sn))
            elif fmt.count("%") == 2:
                out.append(fmt % (v, p))
            else:
                out.append(fmt % (v, p, sn))
        except TypeError:
            out.append("USB::%d::%d::%s::INSTR" % (v, p, sn))
    return out


# ---------------------------------------------------------------------------------------------------------------------
# the property oracle (independent of the Lean model)
# ---------------------------------------------------------------------------------------------------------------------

# what the documentation of create_transport promises: parameters per interface, their types, which class comes back
SPEC = {
    "serial": {"base": "QMI_SerialTransport", "pos": [("device", str)],
               "kw": {"baudrate": int, "bytesize": int, "parity": str, "stopbits": float, "rtscts": bool}},
    "tcp": {"base": "QMI_TcpTransport", "pos": [("host", str), ("port", int)], "kw": {"connect_timeout": float}},
    "udp": {"base": "QMI_UdpTransport", "pos": [("host", str), ("port", int)], "kw": {}},
    "usbtmc": {"base": "QMI_UsbTmcTransport", "pos": [], "kw": {"vendorid": int, "productid": int, "serialnr": str}},
    "gpib": {"base": "QMI_VisaGpibTransport", "pos": [("primary_addr", int)],
             "kw": {"board": int, "secondary_addr": int, "connect_timeout": float}},
    "vxi11": {"base": "QMI_Vxi11Transport", "pos": [("host", str)], "kw": {}},
}


def spec_tokens(s: str):
    """Tokens of a descriptor that is *unambiguous* under the documented grammar `iface:part(:part)*` with `[...]`
    protecting colons; None when the string is outside that grammar (then only totality and the class are judged)."""
    if not s or "\n" in s or s[0] == ":" or s[-1] == ":":
        return None
    parts = []
    i = 0
    n = len(s)
    first = True
    while i < n:
        if not first:
            if s[i] != ":":
                return None
            i += 1
            if i >= n:
                return None
        if not first and s[i] == "[":
            j = s.find("]", i)
            if j < 0:
                return None
            body = s[i + 1:j]
            if not body or "[" in body or "$" in body:
                return None
            if any(c in s[j + 1:] for c in "]$"):
                return None                       # a later closer: the greedy bracket alternative reads it differently
            parts.append(body)
            i = j + 1
        else:
            j = s.find(":", i)
            j = n if j < 0 else j
            tok = s[i:j]
            if not tok:
                return None
            parts.append(tok)
            i = j
        first = False
    return parts if len(parts) >= 2 else None


def _typed_candidates(ty, tok: str, is_kw: bool):
    out = []
    try:
        if ty is str:
            # documented since 1757bc8: in the string value of a keyword ':' is written "%3A" and '%' "%25"
            out.append(re.sub("%(3A|25)", lambda m: ":" if m.group(1) == "3A" else "%", tok) if is_kw else tok)
        elif ty is int:
            try:
                out.append(int(tok))
            except ValueError:
                pass
            if tok[:2] in ("0x", "0X"):
                out.append(int(tok, 16))
        elif ty is float:
            out.append(float(tok))
        elif ty is bool:
            if tok in ("True", "False"):
                out.append(tok == "True")
    except ValueError:
        pass
    return out


def _same(a, b) -> bool:
    if type(a) is not type(b):
        return False
    if isinstance(a, float) and a != a and b != b:
        return True
    return a == b


def _slug(msg: str) -> str:
    msg = re.sub(r"'[^']*'|\"[^\"]*\"|\d+", "", msg)
    return "-".join(re.findall(r"[A-Za-z]+", msg)[:6]).lower() or "no-message"


def _site(e: BaseException) -> str:
    import traceback
    fn = "?"
    for fr in traceback.extract_tb(e.__traceback__):
        if "/qmi/core/transport" in fr.filename.replace("\\", "/"):
            fn = fr.name
    return fn


def _ill_typed(head: str, dpy: dict) -> bool:
    """does the defaults dictionary hold, for a parameter of this interface, a value of another type than documented?"""
    if head not in SPEC:
        return False
    types = dict(SPEC[head]["pos"])
    types.update(SPEC[head]["kw"])
    for k, v in dpy.items():
        ty = types.get(k)
        if ty is None:
            continue
        good = (isinstance(v, ty) and not (isinstance(v, bool) and ty is not bool)) or (ty is float and isinstance(v, int) and not isinstance(v, bool))
        if not good:
            return True
    return False


def oracle_ct(case: dict, raw):
    """C14 on one create_transport call. Returns (signature, summary) or None."""
    im = impl()
    tr = im.tr
    s, defs, win = case["s"], case.get("defaults"), case["win"]
    dpy = defaults_py(defs) or {}
    head = s.lstrip(":").split(":", 1)[0].lower() if s else ""
    if isinstance(raw, BaseException):
        if isinstance(raw, im.Descr):
            return None
        site = _site(raw)
        sig = f"total:{type(raw).__name__}@{site}"
        if isinstance(raw, TypeError) and site == "create_transport" and head in SPEC:
            # constructor called with the wrong set of keyword arguments: name the mismatch
            try:
                parser = next(p for p in vars(tr).values() if isinstance(p, tr.TransportDescriptorParser) and p.interface == head)
                attrs = parser.parse_parameter_strings(s, defaults_py(defs))
                base = getattr(tr, SPEC[head]["base"], None) or getattr(im.gvisa, SPEC[head]["base"])
                ps = ctor_params(base)
                missing = sorted(p.name for p in ps if p.default is p.empty and p.name not in attrs)
                unexpected = sorted(set(attrs) - {p.name for p in ps})
                sig += f"[{head}]:missing={','.join(missing)}:unexpected={','.join(unexpected)}"
            except Exception:
                sig += f"[{head}]:" + _slug(str(raw))
        elif isinstance(raw, (TypeError, AttributeError)) and _ill_typed(head, dpy):
            sig = f"total:ill-typed-default:{type(raw).__name__}@{site}"
        else:
            sig += ":" + _slug(str(raw))
        return sig, f"create_transport({s!r}, {dpy or None!r}) [{'win32' if win else 'linux'}] raised {type(raw).__name__}: {str(raw)[:120]}"
    t = raw
    if not isinstance(t, tr.QMI_Transport):
        return "class:not-a-transport", f"create_transport({s!r}) returned {type(t).__name__}"
    if getattr(t, "_is_open", False):
        return "opened", f"create_transport({s!r}) returned an open transport"
    if head not in SPEC:
        return f"class:unknown-interface-accepted:{head[:12]}", f"create_transport({s!r}) returned {type(t).__name__} for an unknown interface"
    spec = SPEC[head]
    if spec["base"] not in [c.__name__ for c in type(t).__mro__]:
        return f"class:{head}->{type(t).__name__}", f"create_transport({s!r}) returned {type(t).__name__}, not a {spec['base']}"
    toks = spec_tokens(s)
    if toks is None or any(p.count("=") > 1 for p in toks[1:]):
        return None
    kind = kind_of(t)
    pos_toks = [p for p in toks[1:] if "=" not in p]
    kw_toks = {}
    for p in toks[1:]:
        if "=" in p:
            k, v = p.split("=", 1)
            kw_toks.setdefault(k, []).append(v)
    for k in kw_toks:
        if k not in spec["kw"]:
            return f"faithful:{head}:unknown-keyword-accepted", f"create_transport({s!r}) accepted the undocumented keyword {k!r}"
    types = dict(spec["pos"])
    types.update(spec["kw"])
    for p in ctor_params(type(t)):
        name = p.name
        got = attr_of(t, kind, name)
        if got is _MISSING:
            return f"faithful:{head}.{name}:attribute-missing", f"create_transport({s!r}): cannot read {name}"
        given = []
        pos_names = [n for n, _ in spec["pos"]]
        if name in pos_names and pos_names.index(name) < len(pos_toks):
            given = [(pos_toks[pos_names.index(name)], False)]
        elif name in kw_toks:
            given = [(v, True) for v in kw_toks[name]]
        if given:
            cands = [c for tok, kw in given for c in _typed_candidates(types.get(name, str), tok, kw)]
            if name == "host" and head in ("tcp", "udp") and given[0][0] == "localhost":
                cands.append(LOCALHOST_ADDR)          # documented normalisation in QMI_SocketTransport.__init__
            if not any(_same(got, c) for c in cands):
                return (f"faithful:{head}.{name}:differs-from-string",
                        f"create_transport({s!r}, {dpy or None!r}): {name} = {got!r}, the string gives {[g[0] for g in given]!r}")
        elif name in dpy and name in types:
            exp = dpy[name]
            if name == "host" and head in ("tcp", "udp") and exp == "localhost":
                exp = LOCALHOST_ADDR
            if not _same(got, exp):
                return (f"faithful:{head}.{name}:default-not-used",
                        f"create_transport({s!r}, {dpy!r}): {name} = {got!r}, string silent, default {dpy[name]!r}")
        else:
            if p.default is p.empty or not _same(got, p.default):
                return (f"faithful:{head}.{name}:value-from-nowhere",
                        f"create_transport({s!r}, {dpy or None!r}): {name} = {got!r} given neither by the string nor by the defaults")
    return None


def _serial_class(sn: str) -> str:
    c = [n for ch, n in ((":", "colon"), ("=", "equals")) if ch in sn]
    return "serial-has-" + "+".join(c) if c else "serial-plain"


def run_roundtrip(case: dict):
    """The descriptors QMI itself produces must parse back to the values they were formatted from.
    Returns (ops for the model = list of sub-cases, failure or None)."""
    im = impl()
    tr = im.tr
    if case["kind"] == "rt_fmt":
        v, p, sn, win = case["vendor"], case["product"], case["serial"], case["win"]
        res = case["style"] % ((v, p, sn) if case["style"].count("%") == 3 else (v, p))
        sub = [{"kind": "fmtres", "resources": [res]}]
        descs = tr.QMI_UsbTmcTransport._format_resources([res])
        # the platform listing helpers must hand out exactly these descriptors
        import qmi.core.usbtmc as usbtmc_mod
        old = usbtmc_mod.list_resources
        rm = sys.modules["pyvisa"].ResourceManager
        old_rm = getattr(rm, "list_resources", None)
        try:
            im.set_platform(win)
            usbtmc_mod.list_resources = lambda: [res]
            rm.list_resources = lambda self: (res,)
            listed = tr.list_usbtmc_transports()
        finally:
            usbtmc_mod.list_resources = old
            if old_rm is not None:
                rm.list_resources = old_rm
            im.restore()
        if listed != descs:
            return sub, (f"roundtrip:list_usbtmc_transports:{'win' if win else 'linux'}:differs-from-format_resources",
                         f"list_usbtmc_transports() = {listed!r} but _format_resources({[res]!r}) = {descs!r}")
        # the listers of both platform classes, called directly
        try:
            usbtmc_mod.list_resources = lambda: [res]
            rm.list_resources = lambda self: (res,)
            for cls in (im.pyusb.QMI_PyUsbTmcTransport, im.uvisa.QMI_VisaUsbTmcTransport):
                got = cls.list_resources()
                if got != descs:
                    return sub, (f"roundtrip:{cls.__name__}.list_resources:differs-from-format_resources",
                                 f"{cls.__name__}.list_resources() = {got!r} but _format_resources({[res]!r}) = {descs!r}")
        finally:
            usbtmc_mod.list_resources = old
            if old_rm is not None:
                rm.list_resources = old_rm
        has_serial = case["style"].count("%") == 3
        fields = res.split("::")
        if not has_serial or len(fields) < 5 or fields[3] != sn or fields[-1] != "INSTR":
            return sub, None          # the VISA resource string itself is ambiguous (e.g. serial ending in ':'): nothing to judge
        cls = _serial_class(sn)

        def sig(observed):
            return f"roundtrip:format_resources:{cls}" + ("" if cls != "serial-plain" else ":" + observed)
        if len(descs) != 1:
            return sub, (sig("not-listed"), f"_format_resources({[res]!r}) = {descs!r}")
        d = descs[0]
        ct = {"kind": "ct", "win": win, "s": d, "defaults": None}
        other = {"kind": "ct", "win": not win, "s": d, "defaults": None}
        sub += [ct, other, {"kind": "pps", "iface": "usbtmc", "s": d, "defaults": None}]
        o_out, o_raw = run_impl(other)
        out, raw = run_impl(ct)
        if isinstance(raw, BaseException) != isinstance(o_raw, BaseException):
            return sub, (sig("platforms-disagree"), f"{d!r}: {out[:80]!r} on one platform, {o_out[:80]!r} on the other")
        if isinstance(raw, BaseException):
            return sub, (sig(type(raw).__name__),
                         f"{res!r} is listed as {d!r}; create_transport of that raises {type(raw).__name__}: {str(raw)[:80]}")
        got = (getattr(raw, "vendorid", None), getattr(raw, "productid", None), getattr(raw, "serialnr", None))
        for name, g, e in zip(("vendorid", "productid", "serialnr"), got, (v, p, sn)):
            if not _same(g, e):
                return sub, (sig(name + "-differs"),
                             f"{res!r} is listed as {d!r}, which parses back to {name}={g!r} (formatted from {e!r})")
        try:
            pp = tr.UsbTmcTransportDescriptorParser.parse_parameter_strings(d)
        except Exception as e:  # noqa: BLE001
            return sub, (sig("parse_parameter_strings-" + type(e).__name__), f"{d!r}: {e}")
        if pp != {"vendorid": v, "productid": p, "serialnr": sn}:
            return sub, (sig("parse_parameter_strings-differs"), f"{d!r} -> {pp!r}")
        return sub, None
    if case["kind"] == "rt_addr":
        from qmi.core.util import format_address_and_port
        host, port, iface, win = case["host"], case["port"], case["iface"], case["win"]
        d = iface + ":" + (format_address_and_port((host, port)) if iface != "vxi11" else ("[" + host + "]" if ":" in host else host))
        ct = {"kind": "ct", "win": win, "s": d, "defaults": None}
        out, raw = run_impl(ct)
        fam = "ipv6" if ":" in host else ("ipv4" if host.replace(".", "").isdigit() else "name")
        if isinstance(raw, BaseException):
            return [ct], (f"roundtrip:address:{iface}:{fam}:{type(raw).__name__}",
                          f"{d!r} (from host {host!r}, port {port}) raises {type(raw).__name__}: {str(raw)[:80]}")
        got = (raw._host, port) if iface == "vxi11" else raw._address
        if not (_same(got[0], host) and _same(got[1], port)):
            return [ct], (f"roundtrip:address:{iface}:{fam}:differs", f"{d!r} parses back to {got!r}, formatted from {(host, port)!r}")
        return [ct], None
    raise RuntimeError(case["kind"])


def gen_roundtrip(rng):
    import ipaddress
    if rng.random() < 0.55:
        sn = rng.choice(SERIALS) if rng.random() < 0.7 else "".join(rng.choice("ABCxyz0189-_. /[]#") for _ in range(rng.randint(1, 12)))
        r = rng.random()
        if r < 0.06:
            k = rng.randint(0, len(sn))
            sn = sn[:k] + ":" + sn[k:]
        elif r < 0.12:
            k = rng.randint(0, len(sn))
            sn = sn[:k] + "=" + sn[k:]
        elif r < 0.13:
            sn = sn + ":a=b"
        return {"kind": "rt_fmt", "win": rng.random() < 0.4,
                "vendor": rng.choice([0, 1, 15, 16, 255, 256, 0x699, 4095, 4096, 65535, rng.randint(0, 65535)]),
                "product": rng.choice([0, 9, 10, 0x3000, 65535, rng.randint(0, 65535)]), "serial": sn,
                "style": rng.choice(["USB::%d::%d::%s::INSTR", "USB0::0x%04X::0x%04X::%s::INSTR", "USB0::0x%04x::0x%04x::%s::0::INSTR",
                                     "USB::%d::%d::INSTR", "USB::0x%x::0x%x::%s::INSTR"])}
    r = rng.random()
    if r < 0.6:
        bits = rng.getrandbits(128) & rng.choice([(1 << 128) - 1, (1 << 64) - 1, ((1 << 128) - 1) ^ ((1 << 96) - 1), (0xffff << 32) | 0xffffffff, 1, 0])
        a = ipaddress.IPv6Address(bits)
        host = rng.choice([a.compressed, a.exploded, a.compressed.upper()])
        if a.ipv4_mapped is not None and rng.random() < 0.7:
            host = "::ffff:" + str(a.ipv4_mapped)
    elif r < 0.8:
        host = str(ipaddress.IPv4Address(rng.getrandbits(32)))
    else:
        host = rng.choice(["a", "example.com", "host-1.local", "x" * 63, "a.b.c.", "A1-b.C"])
    iface = rng.choice(["tcp", "tcp", "udp", "vxi11"])
    port = rng.choice([1, 80, 5025, 65535, rng.randint(1, 65535)])
    if iface == "udp" and port == 35999:
        port = 36000
    return {"kind": "rt_addr", "win": rng.random() < 0.3, "iface": iface, "host": host, "port": port}


# ---- call sequences sharing ONE defaults object; defaults given as a read-only Mapping --------------------------------

def gen_sequence(rng, tables):
    """2-4 create_transport / parse_parameter_strings calls that are handed the *same* defaults object."""
    ifaces = tables["ifaces"]
    first = rng.choice(ifaces)
    same = rng.random() < 0.45
    chosen = [first if same else rng.choice(ifaces) for _ in range(rng.choice([2, 2, 3, 4]))]
    merged = {}
    for ifc in [chosen[0], chosen[-1], rng.choice(ifaces)]:
        for _ in range(4):
            d = gen_defaults(rng, ifc, ifaces)
            if d:
                for k, t, p in d:
                    merged.setdefault(k, [k, t, p])
                break
    if not merged:
        merged = {"port": ["port", "i", 5025], "baudrate": ["baudrate", "i", 9600], "connect_timeout": ["connect_timeout", "f", "7.5"]}
    defs = list(merged.values())
    have = tuple(d[0] for d in defs)
    steps = []
    for ifc in chosen:
        if rng.random() < 0.8:
            # alternate between spelling parameters out and leaving them to the defaults
            parts = gen_valid(rng, ifc, near=0.03, have=have if rng.random() < 0.6 else ())
            sdesc = ":".join(parts)
        else:
            sdesc = mutate(rng, gen_valid(rng, ifc, near=0.03, have=have))[1]
        op = "pps" if rng.random() < 0.25 else "ct"
        steps.append({"op": op, "s": sdesc, "iface": ifc["name"],
                      "win": rng.random() < (0.5 if ifc["name"] in ("usbtmc", "gpib") else 0.2)})
    return {"kind": "seq", "mapping": "proxy" if rng.random() < 0.3 else "dict", "defaults": defs, "steps": steps}


def _step_case(step: dict, defs):
    if step["op"] == "ct":
        return {"kind": "ct", "win": step["win"], "s": step["s"], "defaults": defs}
    return {"kind": "pps", "iface": step["iface"], "s": step["s"], "defaults": defs}


def _items_same(a: dict, b: dict) -> bool:
    return list(a.keys()) == list(b.keys()) and all(_same(a[k], b[k]) for k in a)


def run_sequence(case: dict):
    """Returns (sub-cases for the model with the implementation's output under the shared object, failure or None).

    Oracle: the caller's defaults object is unchanged after every call; every call behaves exactly as the same call with a
    fresh dict holding the values the caller's defaults had BEFORE the first call (a read-only Mapping behaves like the
    equivalent dict); and each create_transport outcome satisfies the single-call property w.r.t. those original values."""
    import types
    defs = case["defaults"]
    shared = defaults_py(defs)
    orig = dict(shared)
    dobj = types.MappingProxyType(shared) if case["mapping"] == "proxy" else shared
    subs, outs = [], []
    fail = None
    for i, step in enumerate(case["steps"]):
        sc = _step_case(step, defs)
        out, raw = run_impl(sc, dobj)
        subs.append(sc)
        outs.append(out)
        if fail is not None:
            continue
        what = f"call {i + 1}/{len(case['steps'])} {step['op']}({step['s']!r}) [{'win32' if step['win'] else 'linux'}]"
        if not _items_same(shared, orig):
            fail = ("defaults:caller-object-mutated",
                    f"{what}: the caller's defaults object changed from {orig!r} to {shared!r}")
            continue
        ref, _ = run_impl(sc)
        if out != ref:
            sig = ("defaults:mapping-differs-from-dict:" if case["mapping"] == "proxy" else "defaults:shared-object-changes-result:") + step["op"]
            fail = (sig, f"{what} with the {'read-only Mapping' if case['mapping'] == 'proxy' else 'shared dict'} {orig!r} "
                         f"(history: {[s_['s'] for s_ in case['steps'][:i]]!r}) gives {out[:120]!r}; with a fresh dict {ref[:120]!r}")
            continue
        if step["op"] == "ct":
            r = oracle_ct(sc, raw)
            if r is not None:
                fail = (r[0], f"{what}, shared defaults: {r[1]}")
    return subs, outs, fail


def shrink_sequence(case: dict, sig: str) -> dict:
    def still(c):
        return (run_sequence(c)[2] or ("",))[0] == sig
    cur = dict(case)
    changed = True
    while changed:
        changed = False
        for i in range(len(cur["steps"])):
            if len(cur["steps"]) > 1:
                cand = dict(cur, steps=cur["steps"][:i] + cur["steps"][i + 1:])
                if still(cand):
                    cur, changed = cand, True
                    break
        if changed:
            continue
        for i in range(len(cur["defaults"])):
            if len(cur["defaults"]) > 1:
                cand = dict(cur, defaults=cur["defaults"][:i] + cur["defaults"][i + 1:])
                if still(cand):
                    cur, changed = cand, True
                    break
    return cur


def fixed_corpus(tables) -> list:
    """Deterministic cases that run first on every seed: every bound of every range / length limit in the modelled code and
    its neighbours, related interface and keyword names (prefix, suffix, case), the same keyword twice, keywords before
    positionals, every keyword alone, every default alone and all defaults together, both platforms."""
    out = []

    def add(sdesc, defs=None, both=False):
        for win in ((False, True) if both else (False,)):
            out.append({"kind": "ct", "win": win, "s": sdesc, "defaults": defs, "how": "corpus", "iface": sdesc.split(":", 1)[0].lower()[:8]})

    ports = ["-1", "0", "1", "2", "35998", "35999", "36000", "65534", "65535", "65536", "65537", "99999999999999999999", "00080", "+80", "8_0"]
    for iface in ("tcp", "udp"):
        for pt in ports:
            add(f"{iface}:h:{pt}")
            add(f"{iface}:h", [["port", "i", int(pt.replace("_", ""))]])
    for n in (62, 63, 64):
        add("tcp:" + "a" * n + ":5")
        add("vxi11:" + "a" * n + ".b")
    for total in (253, 254, 255, 256, 257):
        labels = (("a" * 63 + ".") * 4)[: total]
        add("vxi11:" + labels)
        add("tcp:" + labels + ":5")
    for bs in ("3", "4", "5", "6", "7", "8", "9", "10"):
        add(f"serial:COM1:baudrate=9600:bytesize={bs}")
        add("serial:COM1", [["bytesize", "i", int(bs)]])
    for br in ("-1", "0", "1", "2", "115200"):
        add(f"serial:COM1:baudrate={br}")
        add("serial:COM1", [["baudrate", "i", int(br)]])
    for sb in ("0.9999999999999999", "1", "1.0", "1.0000000000000002", "1.4999999999999998", "1.5", "1.5000000000000002", "1.9999999999999998",
               "2", "2.0000000000000004", "0", "3", "1e0", "15e-1", "0.2e1"):
        add(f"serial:COM1:stopbits={sb}")
        add("serial:COM1", [["stopbits", "f", sb]])
    for i in ("-1", "0", "1", "65534", "65535", "65536", "0x0", "0xffff", "0x10000", "0xFFFF", "0Xffff"):
        add(f"usbtmc:vendorid={i}:productid=1:serialnr=S", both=True)
        add(f"usbtmc:vendorid=1:productid={i}:serialnr=S", both=True)
    for digits in (4299, 4300, 4301):
        add("tcp:h:" + "0" * (digits - 1) + "5")
        add("gpib:" + "0" * (digits - 1) + "5", both=True)
    # metacharacters of every string-processing layer (format, %, regex, glob, quoting) in every field, in descriptors that
    # look well formed and in malformed ones: the error path builds messages from the user's text
    for ifc in tables["ifaces"]:
        name = ifc["name"]
        both = name in ("usbtmc", "gpib")
        good_pos = [value_pool(t2, n2)[0][0] for n2, t2, _r in ifc["positionals"]]
        good_kw = [f"{n2}={value_pool(t2, n2)[0][0]}" for n2, t2, r2 in ifc["keywords"] if r2]
        for tok in META_TOKENS:
            add(f"{tok}:x", both=False)                                       # as the interface name
            add(f"{name}{tok}:x")
            add(f"{name}:{tok}", both=both)                                   # as the only part
            for j in range(len(good_pos)):                                    # in place of each positional
                add(":".join([name] + good_pos[:j] + [tok] + good_pos[j + 1:] + good_kw), both=both)
                add(":".join([name] + good_pos[:j] + [good_pos[j] + tok] + good_pos[j + 1:] + good_kw), both=both)
            for n2, t2, _r in ifc["keywords"]:                                # as each keyword's value and inside its name
                base = ":".join([name] + good_pos)
                add(f"{base}:{n2}={tok}", both=both)
                add(f"{base}:{n2}{tok}=1")
            add(":".join([name] + good_pos + good_kw) + ":" + tok)            # as a surplus part
            for n2, t2, _r in ifc["positionals"] + ifc["keywords"]:           # as a default value, and as a foreign default
                add(":".join([name] + good_kw) if good_kw else name + ":x=1", [[n2, "s", tok]])
            add(":".join([name] + good_pos + good_kw), [[tok, "s", tok]])
        for obj in sorted(_OTHER_OBJECTS):
            for n2, t2, _r in ifc["positionals"] + ifc["keywords"]:
                add(":".join([name] + good_kw) if good_kw else name + ":x=1", [[n2, "o", obj]])
    for ch in META_CHARS:
        for base in ("tcp:h:5", "serial:COM1:baudrate=9600", "usbtmc:vendorid=1:productid=2:serialnr=S", "vxi11:h", "udp:h:5", "gpib:1"):
            for k in range(len(base) + 1):
                add(base[:k] + ch + base[k:])

    # related names
    for ifc in tables["ifaces"]:
        name = ifc["name"]
        valid = ":".join(gen_valid(__import__("random").Random(name), ifc, near=0.0))
        rest = valid[len(name):]
        for nm in (name.upper(), name.capitalize(), name + "x", "x" + name, name[:-1], name + " ", " " + name, name + "2", name + "_", name.replace("i", "İ"),
                   name.replace("s", "ſ"), name + name):
            add(nm + rest, both=name in ("usbtmc", "gpib"))
        for kname, ty, _ in ifc["keywords"]:
            v = value_pool(ty, kname)[0][0]
            base = ":".join([name] + [value_pool(t2, n2)[0][0] for n2, t2, _r in ifc["positionals"]])
            for kn in (kname.upper(), kname.capitalize(), kname + "s", kname[:-1], "_" + kname, kname + " ", " " + kname, kname + "=", kname * 2):
                add(f"{base}:{kn}={v}", both=name in ("usbtmc", "gpib"))
            add(f"{base}:{kname}={v}:{kname}={v}", both=name in ("usbtmc", "gpib"))                 # the same keyword twice
            v2 = value_pool(ty, kname)[0][-1]
            add(f"{base}:{kname}={v}:{kname}={v2}", both=name in ("usbtmc", "gpib"))
            add(f"{name}:{kname}={v}" + base[len(name):], both=name in ("usbtmc", "gpib"))          # keyword before the positionals
            add(f"{name}:{kname}={v}", both=name in ("usbtmc", "gpib"))                               # a keyword alone
        alld = []
        for n2, t2, _r in ifc["positionals"] + ifc["keywords"]:
            lit = value_pool(t2, n2)[0][-1].strip("[]")
            one = [n2, {"int": "i", "float": "f", "bool": "b", "str": "s"}[t2], (int(lit, 0) if t2 == "int" else (lit == "True") if t2 == "bool" else lit)]
            alld.append(one)
            add(valid, [one], both=name in ("usbtmc", "gpib"))
            add(name + ":x=1", [one])
        add(valid, alld, both=True)
        add(name + ":" + (ifc["keywords"][0][0] + "=" + value_pool(ifc["keywords"][0][1], ifc["keywords"][0][0])[0][0] if ifc["keywords"] else "zz"), alld, both=True)
    return out


def exception_class_check(text: str, rng=None):
    """`QMI_TransportDescriptorException(text)` must not raise and must keep the text; with further arguments it must not raise."""
    D = impl().Descr
    try:
        e = D(text)
    except BaseException as x:  # noqa: BLE001
        return (f"exception-class:construct-raises:{type(x).__name__}", f"QMI_TransportDescriptorException({text!r}) raises {type(x).__name__}: {x}")
    try:
        shown = str(e)
    except BaseException as x:  # noqa: BLE001
        return (f"exception-class:str-raises:{type(x).__name__}", f"str(QMI_TransportDescriptorException({text!r})) raises {type(x).__name__}")
    if shown != text or e.args != (text,):
        return ("exception-class:text-altered", f"QMI_TransportDescriptorException({text!r}): str() = {shown!r}, args = {e.args!r}")
    for extra in (("a",), ("a", 1, None), (text,)):
        try:
            str(D(text, *extra))
        except BaseException as x:  # noqa: BLE001
            return (f"exception-class:construct-with-args-raises:{type(x).__name__}",
                    f"QMI_TransportDescriptorException({text!r}, *{extra!r}) raises {type(x).__name__}: {x}")
    return None


def shrink_ct(case: dict, sig: str) -> dict:
    """greedy deletion (characters of the string, entries of the defaults) keeping the same oracle signature"""
    def still(c):
        out, raw = run_impl(c)
        r = oracle_ct(c, raw)
        return r is not None and r[0] == sig
    cur = dict(case)
    changed = True
    budget = 4000
    while changed and budget > 0:
        changed = False
        d = cur.get("defaults")
        if d:
            for i in range(len(d)):
                budget -= 1
                cand = dict(cur, defaults=(d[:i] + d[i + 1:]) or None)
                if still(cand):
                    cur, changed = cand, True
                    break
            if changed:
                continue
        s = cur["s"]
        step = max(1, len(s) // 8)
        while step >= 1 and not changed:
            i = 0
            while i < len(s):
                budget -= 1
                cand = dict(cur, s=s[:i] + s[i + step:])
                if still(cand):
                    cur, changed = cand, True
                    s = cur["s"]
                else:
                    i += step
                if budget <= 0:
                    break
            step //= 2
    return cur


# ---------------------------------------------------------------------------------------------------------------------
# the check
# ---------------------------------------------------------------------------------------------------------------------

class C14(Prop):
    id = "C14"
    lean_modules = ["QmiModel.Props.C14"]
    driver = "drv_c14"
    modelled_not_verified = [
        "the regex engine: `_parse_parts` and the two hostname regexes are re-implemented as functions (regexParts, labelOk, "
        "numericLabel) and validated only differentially",
        "CPython int()/int(,16)/int(,0)/float() text grammars incl. Unicode digits/spaces, underscores, the 4300-digit limit "
        "(pyInt, floatParse), and correct rounding of float literals at the stopbits test (floatIsStopbits): modelled, checked "
        "differentially; Unicode tables re-checked against unicodedata on every run",
        "glibc inet_pton for AF_INET/AF_INET6 (isIp4, isIp6) and its ValueError on NUL: modelled, checked differentially",
        "semantics of the primitive validator tests (`Cond.holds`: <, >, ==, not in, .upper().startswith, the host test) on "
        "every kind of value; *which* test with which constants guards which parameter, the statement order and the attribute "
        "assignments are regenerated from the `__init__` / `_validate_*` ASTs and bound by the obligations gen_stores / gen_validators",
        "Python keyword-argument binding (bindArgs) and str.lower()/upper() on the interface and device names",
        "socket.gethostbyname('localhost') is pinned to 127.0.0.1 by the harness; sys.platform is switched by the harness",
        "raising QMI_TransportDescriptorException is atomic in the model; obligation gen_exception_plain (the class and its qmi "
        "bases define no __init__/__new__/__str__/__repr__) + direct test that construction from any text neither raises nor alters it",
        "strings containing lone surrogates are outside the model (Lean Char = Unicode scalar value); the oracle judges them on "
        "the implementation alone",
        "defaults of any type (str/int/bool/None/float for any parameter) are inside the model, the theorems and the generator "
        "since the type check of 665b86e",
    ]

    def translate(self, ctx: Ctx) -> list:
        global _TABLES
        check_python_assumptions()
        _TABLES = None
        t = read_tables()
        _TABLES = t
        core.write_if_changed(GEN, render_gen(t))
        return [GEN]

    # -- case generation ---------------------------------------------------------------------------------------------
    def _gen_ct(self, rng, tables):
        ifaces = tables["ifaces"]
        ifc = rng.choice(ifaces)
        defaults = gen_defaults(rng, ifc, ifaces)
        have = tuple(d[0] for d in defaults or ())
        r = rng.random()
        if r < 0.33:
            how, s = "valid", ":".join(gen_valid(rng, ifc, have=have))
        elif r < 0.8:
            how, s = mutate(rng, gen_valid(rng, ifc, near=0.05, have=have))
            how = "mut_" + how
        else:
            how, s = "arbitrary", gen_arbitrary(rng, ifaces)
        win = rng.random() < (0.5 if ifc["name"] in ("usbtmc", "gpib") else 0.25)
        return {"kind": "ct", "win": win, "s": s, "defaults": defaults, "how": how, "iface": ifc["name"]}

    def _batch(self, cases, res: Result, stream: str):
        """impl vs model on a list of cases; returns list of (case, impl_out, raw)"""
        lines = [op_line(c) for c in cases]
        outs = [run_impl(c) for c in cases]
        model = [canon_model_line(l) for l in LeanDriver(self.driver).run(lines)]
        impl_lines = [o[0] for o in outs]
        res.traces_validated += len(cases)
        n_bad = 0
        for i, (a, b) in enumerate(zip(impl_lines, model)):
            if a != b:
                n_bad += 1
                if n_bad <= 6:
                    c = {k: v for k, v in cases[i].items() if k not in ("how",)}
                    res.broken.append(Broken("correspondence", f"Descriptor model vs qmi.core.transport ({stream})",
                                             f"op={lines[i][:200]!r} case={str(c)[:300]} impl={a[:300]!r} model={b[:300]!r}", case=c))
        if n_bad:
            res.count(f"disagreements_{stream}", n_bad)
        return list(zip(cases, impl_lines, [o[1] for o in outs]))

    def _judge_ct(self, triples, res: Result, seen: dict):
        for case, out, raw in triples:
            r = oracle_ct(case, raw)
            if r is None:
                continue
            sig, summary = r
            res.count("oracle_fail:" + sig)
            if sig in seen:
                continue
            small = shrink_ct({k: case[k] for k in ("kind", "win", "s", "defaults")}, sig)
            out2, raw2 = run_impl(small)
            r2 = oracle_ct(small, raw2) or r
            seen[sig] = True
            res.failures.append(Failure(r2[0], r2[1], small))

    def correspondence(self, ctx: Ctx) -> Result:
        rng = ctx.rng
        res = Result(rule="ct case = (descriptor string, default dictionary, platform): a grammar-valid descriptor generated from the "
                          "live parser tables (33%), one mutation of it (47%: drop/dup/swap part, extra '=', empty part, bracket "
                          "imbalance, case, hex/underscore/Unicode digits, control chars, NUL, '$', separators, surplus/unknown "
                          "keyword), or an arbitrary string (20%); non-trivial = names a known interface and has ≥ 2 parts; distinct "
                          "by (string, defaults, platform). Call histories (2-4 calls handed ONE defaults object, as dict or as read-only "
                          "Mapping), primitive streams (parts/int/float/host/ip/fmtres) and round-trip cases "
                          "are counted separately in input_distribution.")
        tables = tables_cached()
        names = [i["name"] for i in tables["ifaces"]]
        seen: dict = {}

        # 0. the fixed corpus (same on every seed): bounds and their neighbours, related names, repeated keywords, ...
        corpus = fixed_corpus(tables)
        triples = self._batch(corpus, res, "fixed corpus")
        for case, out, raw in triples:
            res.note_case((case["s"], repr(case["defaults"]), case["win"]))
            res.count("ct_corpus")
            res.count("outcome_" + (out.split(" ")[1] if out.startswith("ok ") else out))
        self._judge_ct(triples, res, seen)

        # 1. create_transport
        n_ct = ctx.scale(120000, 1500000)
        chunk = 50000
        done = 0
        while done < n_ct:
            cases = [self._gen_ct(rng, tables) for _ in range(min(chunk, n_ct - done))]
            done += len(cases)
            triples = self._batch(cases, res, "create_transport")
            for case, out, raw in triples:
                s = case["s"]
                head = s.lstrip(":").split(":", 1)[0].lower()
                res.note_case((s, repr(case["defaults"]), case["win"]), nontrivial=(head in names and s.count(":") >= 1))
                res.count("ct_" + case["how"])
                res.count("iface_" + case["iface"])
                res.count("platform_" + ("win32" if case["win"] else "linux"))
                res.count("defaults_" + ("none" if case["defaults"] is None else str(min(len(case["defaults"]), 3)) + ("+" if len(case["defaults"]) >= 3 else "")))
                res.count("outcome_" + (out.split(" ")[1] if out.startswith("ok ") else out))
                if out.startswith("ok "):
                    res.sample({"descriptor": s, "defaults": case["defaults"], "platform": "win32" if case["win"] else "linux", "impl": out[:160]}, 4)
            self._judge_ct(triples, res, seen)
            # parse_parameter_strings directly (also with a parser that does not match the descriptor) and _parse_parts
            sub = []
            for c in cases[: max(1, len(cases) // 8)]:
                sub.append({"kind": "pps", "iface": rng.choice(names) if rng.random() < 0.3 else c["iface"], "s": c["s"], "defaults": c["defaults"]})
            for c in cases[: max(1, len(cases) // 4)]:
                sub.append({"kind": "parts", "s": c["s"]})
            self._batch(sub, res, "parse_parameter_strings+_parse_parts")
            res.count("pps_cases", sum(1 for c in sub if c["kind"] == "pps"))
            res.count("parts_cases", sum(1 for c in sub if c["kind"] == "parts"))

        # 2. the primitives the model re-implements
        prim = []
        for _ in range(ctx.scale(6000, 80000)):
            prim.append({"kind": "int", "base": rng.choice([10, 10, 16, 0]), "s": gen_int_lit(rng)})
        for _ in range(ctx.scale(6000, 80000)):
            prim.append({"kind": "float", "s": gen_float_lit(rng)})
        for _ in range(ctx.scale(8000, 100000)):
            h = gen_host_lit(rng)
            prim.append({"kind": "host", "s": h})
            if rng.random() < 0.5:
                prim.append({"kind": "hostname", "s": h if rng.random() < 0.97 else ""})
            if "\x00" not in h and rng.random() < 0.5:
                prim.append({"kind": rng.choice(["ip4", "ip6"]), "s": h})
        for _ in range(ctx.scale(1500, 20000)):
            prim.append({"kind": "fmtres", "resources": gen_resources(rng)})
        for c in self._batch(prim, res, "primitives"):
            res.count("prim_" + c[0]["kind"])
            res.evaluations += 1

        # 3. formats QMI itself produces must parse back
        rts = [gen_roundtrip(rng) for _ in range(ctx.scale(3000, 40000))]
        subs = []
        for c in rts:
            sub, fail = run_roundtrip(c)
            subs += sub
            res.note_case(("rt", repr(c)))
            res.count(c["kind"])
            if fail is not None:
                res.count("oracle_fail:" + fail[0])
                if fail[0] not in seen:
                    seen[fail[0]] = True
                    res.failures.append(Failure(fail[0], fail[1], c))
        self._batch(subs, res, "roundtrip")
        # 3b. strings with lone surrogates cannot be sent to the model (Lean Char); the property is judged on the
        #     implementation alone: still a transport with the string's values, or the descriptor error
        sur = []
        for _ in range(ctx.scale(6000, 60000)):
            c = self._gen_ct(rng, tables)
            sdesc = c["s"]
            for _k in range(rng.choice([1, 1, 2])):
                k = rng.randint(0, len(sdesc))
                sdesc = sdesc[:k] + chr(rng.choice([0xd800, 0xdbff, 0xdc00, 0xdfff])) + sdesc[k + (rng.random() < 0.3):]
            c["s"] = sdesc
            sur.append(c)
        self._judge_ct([(c, *run_impl(c)) for c in sur], res, seen)
        res.count("surrogate_cases_oracle_only", len(sur))
        res.evaluations += len(sur)

        # 3c. the exception class: constructing it from any message text must not raise and must keep the text
        texts = list(META_TOKENS) + [c["s"] for c in corpus[:: max(1, len(corpus) // 400)]] + \
            ["".join(rng.choice(META_CHARS + list("abc012")) for _ in range(rng.randint(0, 12))) for _ in range(ctx.scale(2000, 20000))]
        for t in texts:
            f = exception_class_check(t, rng)
            res.evaluations += 1
            if f is not None:
                res.count("oracle_fail:" + f[0])
                if f[0] not in seen:
                    seen[f[0]] = True
                    res.failures.append(Failure(f[0], f[1], {"kind": "exc", "text": t}))
        res.count("exception_class_texts", len(texts))

        # 4. call histories: one defaults object shared by several calls; defaults as a read-only Mapping
        self._sequences(ctx, rng, tables, ctx.scale(5000, 60000), res, seen)
        res.extra["oracle"] = ("create_transport returns a transport of the named interface whose every parameter equals the typed "
                               "value of its token in the string (unambiguous strings), else the caller's default, else the constructor "
                               "default — or raises QMI_TransportDescriptorException; nothing else. Listed resources and "
                               "format_address_and_port output parse back to the formatted values.")
        return res

    def _sequences(self, ctx: Ctx, rng, tables, n: int, res: Result, seen: dict) -> None:
        subs_all, outs_all = [], []
        for _ in range(n):
            c = gen_sequence(rng, tables)
            subs, outs, fail = run_sequence(c)
            subs_all += subs
            outs_all += outs
            res.note_case(("seq", repr(c)))
            res.count("seq_" + c["mapping"])
            res.count("seq_calls", len(c["steps"]))
            if fail is not None:
                res.count("oracle_fail:" + fail[0])
                if fail[0] not in seen:
                    seen[fail[0]] = True
                    small = shrink_sequence(c, fail[0])
                    f2 = run_sequence(small)[2] or fail
                    res.failures.append(Failure(f2[0], f2[1], small))
        # the model is a pure function of (string, defaults-before-the-first-call): compare the outputs observed under sharing
        lines = [op_line(c) for c in subs_all]
        model = [canon_model_line(l) for l in LeanDriver(self.driver).run(lines)]
        res.traces_validated += len(lines)
        bad = 0
        for c, a, b, ln in zip(subs_all, outs_all, model, lines):
            if a != b:
                bad += 1
                if bad <= 4:
                    res.broken.append(Broken("correspondence", "Descriptor model vs qmi.core.transport (shared defaults object)",
                                             f"op={ln[:200]!r} impl(shared)={a[:200]!r} model={b[:200]!r}", case=c))
        if bad:
            res.count("disagreements_sequences", bad)

    # -- triage -------------------------------------------------------------------------------------------------------
    def search(self, ctx: Ctx, broken) -> Result:
        res = Result()
        seen: dict = {}
        for b in broken:
            c = b.case
            if not c:
                continue
            if c.get("kind") == "ct":
                self._judge_ct([(c, *run_impl(c))], res, seen)
                res.note_case(("case", repr(c)))
            elif c.get("kind") in ("pps", "parts"):
                for win in (False, True):
                    cc = {"kind": "ct", "win": win, "s": c["s"], "defaults": c.get("defaults")}
                    self._judge_ct([(cc, *run_impl(cc))], res, seen)
                    res.note_case(("case", repr(cc)))
        # systematic sweep: every canonical descriptor × every single mutation at every position × defaults × platform
        tables = tables_cached()
        rng = ctx.rng
        bases = []
        for ifc in tables["ifaces"]:
            full = [ifc["name"]] + [value_pool(ty, n)[0][0] for n, ty, _ in ifc["positionals"]] + \
                   [f"{n}={value_pool(ty, n)[0][0]}" for n, ty, _ in ifc["keywords"]]
            req = [ifc["name"]] + [value_pool(ty, n)[0][0] for n, ty, r in ifc["positionals"] if r] + \
                  [f"{n}={value_pool(ty, n)[0][0]}" for n, ty, r in ifc["keywords"] if r]
            bases += [(ifc, full), (ifc, req)]
            for _ in range(6):
                bases.append((ifc, gen_valid(rng, ifc, near=0.0)))
        inserts = ["=", ":", "[", "]", "$", "\n", "\x00", " ", "_", "0x", "٣", "-", ".", "=x=y"]
        for ifc, parts in bases:
            s0 = ":".join(parts)
            variants = {s0}
            for i in range(len(s0) + 1):
                for ins in inserts:
                    variants.add(s0[:i] + ins + s0[i:])
                if i < len(s0):
                    variants.add(s0[:i] + s0[i + 1:])
                    variants.add(s0[:i] + s0[i].swapcase() + s0[i + 1:])
            for i in range(1, len(parts)):
                variants.add(":".join(parts[:i] + parts[i + 1:]))
                variants.add(":".join(parts[:i] + [parts[i]] + parts[i:]))
                for j in range(i + 1, len(parts)):
                    q = list(parts)
                    q[i], q[j] = q[j], q[i]
                    variants.add(":".join(q))
            full_defs = []
            for n, ty, _ in ifc["positionals"] + ifc["keywords"]:
                lit = value_pool(ty, n)[0][-1]
                full_defs.append([n, {"int": "i", "float": "f", "bool": "b", "str": "s"}[ty],
                                  (int(lit, 0) if ty == "int" else (lit == "True") if ty == "bool" else lit.strip("[]"))])
            cases = []
            for s in sorted(variants):
                for defs in (None, full_defs):
                    for win in ((False, True) if ifc["name"] in ("usbtmc", "gpib") else (False,)):
                        cases.append({"kind": "ct", "win": win, "s": s, "defaults": defs})
            triples = [(c, *run_impl(c)) for c in cases]
            for c, _, _ in triples:
                res.note_case((c["s"], repr(c["defaults"]), c["win"]))
            self._judge_ct(triples, res, seen)
        self._sequences(ctx, rng, tables, 4000, res, seen)
        res.broken = []
        for _ in range(4000):
            c = gen_roundtrip(rng)
            sub, fail = run_roundtrip(c)
            res.note_case(("rt", repr(c)))
            if fail is not None and fail[0] not in seen:
                seen[fail[0]] = True
                res.failures.append(Failure(fail[0], fail[1], c))
        return res

    def replay(self, ctx: Ctx, rp: dict):
        if rp.get("kind") == "ct":
            out, raw = run_impl(rp)
            r = oracle_ct(rp, raw)
            return Failure(r[0], r[1], rp) if r else None
        if rp.get("kind") in ("rt_fmt", "rt_addr"):
            sub, fail = run_roundtrip(rp)
            return Failure(fail[0], fail[1], rp) if fail else None
        if rp.get("kind") == "exc":
            f = exception_class_check(rp["text"])
            return Failure(f[0], f[1], rp) if f else None
        if rp.get("kind") == "seq":
            fail = run_sequence(rp)[2]
            return Failure(fail[0], fail[1], rp) if fail else None
        raise ValueError(f"unknown replay kind {rp.get('kind')}")


PROP = C14()
