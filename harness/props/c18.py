"""C18 — discovery answers exactly the matching requests and survives junk datagrams.

Model: lean/QmiModel/Model/Discovery.lean (layout from Gen/DiscoveryLayouts.lean, regenerated here);
theorems: Props/C18.lean; driver: Drv/C18.lean.

Tie: (1) translator — live ctypes `_fields_`/sizeof/offsets, MAGIC, enum, `_packet_type_lookup`, `recvfrom` sizes;
(2) correspondence — the real `_UdpResponder` (registered reader callback = `_handle_read`) on a fake datagram
socket, directly and under a real asyncio loop; `ping_qmi_contexts` / `discover_peer_contexts` on a fake socket,
selector and clock; three-way glob diff Lean / fnmatch.fnmatchcase / responder.  No real network traffic.
"""
from __future__ import annotations

import ast
import contextlib
import io
import itertools
import struct
import types

from harness import core
from harness.core import Broken, Ctx, Failure, LeanDriver, Prop, Result, diff_streams

GEN_FILE = core.LEAN / "QmiModel" / "Gen" / "DiscoveryLayouts.lean"


# ---------------------------------------------------------------------------
# translator: live layout -> Gen/DiscoveryLayouts.lean
# ---------------------------------------------------------------------------

class Layout:
    """The numbers the model and the oracle's own packing code are parametrised by."""

    def __init__(self, d: dict):
        self.__dict__.update(d)
        self.hdr_sizes = [self.magicSz, self.tagSz, self.idSz, self.tsSz]
        self.req_sizes = self.hdr_sizes + [self.wgFilterLen, self.ctxFilterLen]
        self.resp_sizes = self.hdr_sizes + [self.respReqIdSz, self.respReqTsSz, self.pidSz, self.nameLen, self.wgLen, self.portSz]
        self.hdr_size = sum(self.hdr_sizes)
        self.req_size = sum(self.req_sizes)
        self.resp_size = sum(self.resp_sizes)


def _own_fields(cls):
    return [(f[0], f[1]) for f in cls.__dict__.get("_fields_", [])]


def _kind_of(t):
    import ctypes
    if isinstance(t, type) and issubclass(t, ctypes.Array):
        if t._type_ is ctypes.c_char:
            return "chars"
        raise ValueError(f"array field of unexpected element type {t._type_}")
    if isinstance(t, type) and issubclass(t, ctypes.Structure):
        return "struct"
    code = getattr(t, "_type_", None)
    if code in ("B", "H", "I", "L", "Q"):
        return "uint"
    if code in ("b", "h", "i", "l", "q"):
        return "sint"
    if code == "d":
        return "f64"
    raise ValueError(f"field type not understood: {t!r}")


def _check_struct(cls, expected, base_size=0):
    """own `_fields_` of `cls` must be exactly `expected` [(name, kind)], packed without padding after `base_size`."""
    import ctypes
    if not issubclass(cls, ctypes.LittleEndianStructure):
        raise ValueError(f"{cls.__name__} is not a LittleEndianStructure")
    if getattr(cls, "_pack_", None) != 1:
        raise ValueError(f"{cls.__name__}._pack_ != 1")
    own = _own_fields(cls)
    if [n for n, _ in own] != [n for n, _ in expected]:
        raise ValueError(f"{cls.__name__}: fields {[n for n, _ in own]} (expected {[n for n, _ in expected]})")
    off = base_size
    sizes, table = [], []
    for (n, t), (_, k) in zip(own, expected):
        if _kind_of(t) != k:
            raise ValueError(f"{cls.__name__}.{n}: kind {_kind_of(t)} (expected {k})")
        d = getattr(cls, n)
        if d.offset != off or d.size != ctypes.sizeof(t):
            raise ValueError(f"{cls.__name__}.{n}: offset {d.offset} size {d.size}, expected packed offset {off}")
        off += d.size
        sizes.append(d.size)
        table.append((n, d.offset, d.size))
    if ctypes.sizeof(cls) != off:
        raise ValueError(f"{cls.__name__}: sizeof {ctypes.sizeof(cls)} != {off} (padding?)")
    return sizes, table


def _recvfrom_const(path, scope: list, module_name: str) -> int:
    """the buffer size passed to `.recvfrom(...)` inside the named function (class path in `scope`): an integer literal, or
    an expression over module-level names (a named constant, `ctypes.sizeof(...)`), evaluated in the live module"""
    import importlib
    tree = ast.parse(path.read_text())
    node = tree
    for name in scope:
        nxt = [n for n in ast.walk(node) if isinstance(n, (ast.ClassDef, ast.FunctionDef)) and n.name == name]
        if len(nxt) != 1:
            raise ValueError(f"{path.name}: cannot find unique {'.'.join(scope)}")
        node = nxt[0]
    args = [c.args[0] for c in ast.walk(node)
            if isinstance(c, ast.Call) and isinstance(c.func, ast.Attribute) and c.func.attr == "recvfrom" and len(c.args) == 1 and not c.keywords]
    if len(args) != 1:
        raise ValueError(f"{path.name}:{'.'.join(scope)}: expected exactly one recvfrom(<size>), found {[ast.unparse(a) for a in args]}")
    arg = args[0]
    if isinstance(arg, ast.Constant):
        val = arg.value
    else:
        if any(isinstance(n, ast.Name) and n.id == "self" for n in ast.walk(arg)):
            raise ValueError(f"{path.name}:{'.'.join(scope)}: recvfrom({ast.unparse(arg)}) depends on the instance")
        mod = importlib.import_module(module_name)
        val = eval(compile(ast.Expression(arg), f"<{path.name}:recvfrom>", "eval"), dict(vars(mod)))
    if not isinstance(val, int) or isinstance(val, bool) or val <= 0:
        raise ValueError(f"{path.name}:{'.'.join(scope)}: recvfrom({ast.unparse(arg)}) = {val!r} is not a positive integer")
    return val


def _probe_responder_bufsize() -> int:
    """the same fact, observed: the size the real `_handle_read` asks its socket for"""
    import qmi.core.messaging as M
    seen = []

    class S(FakeDgramSocket):
        def recvfrom(self, n):
            seen.append(n)
            raise BlockingIOError()

    loop, sock = FakeLoop(), S()
    with quiet():
        M._UdpResponder(loop, M.MessageRouter("probe", "probe"), sock)
        cb, args = loop.readers[sock.fileno()]
        cb(*args)
    if len(seen) != 1 or not isinstance(seen[0], int) or seen[0] <= 0:
        raise ValueError(f"_handle_read asked its socket for {seen}")
    return seen[0]


def _responder_bufsize(strict: bool) -> int:
    probe = _probe_responder_bufsize()
    try:
        static = _recvfrom_const(core.REPO / "qmi/core/messaging.py", ["_UdpResponder", "_handle_read"], "qmi.core.messaging")
    except Exception:
        if strict:
            raise
        return probe
    if static != probe:
        raise ValueError(f"recvfrom size: source says {static}, the running code asked for {probe}")
    return probe


NAME_REGEX = r"^[-_a-zA-Z0-9()]+$"


def _object_name_rule() -> int:
    """`is_valid_object_name`: the length limit; the character class must be the one the model mirrors"""
    tree = ast.parse((core.REPO / "qmi/core/util.py").read_text())
    fn = [n for n in ast.walk(tree) if isinstance(n, ast.FunctionDef) and n.name == "is_valid_object_name"]
    if len(fn) != 1:
        raise ValueError("util.py: is_valid_object_name not found")
    lims = [c.comparators[0].value for c in ast.walk(fn[0])
            if isinstance(c, ast.Compare) and len(c.ops) == 1 and isinstance(c.ops[0], ast.Gt)
            and isinstance(c.left, ast.Call) and getattr(c.left.func, "id", None) == "len"
            and isinstance(c.comparators[0], ast.Constant) and isinstance(c.comparators[0].value, int)]
    regs = [c.args[0].value for c in ast.walk(fn[0])
            if isinstance(c, ast.Call) and isinstance(c.func, ast.Attribute) and c.func.attr == "match"
            and c.args and isinstance(c.args[0], ast.Constant) and isinstance(c.args[0].value, str)]
    if len(lims) != 1 or regs != [NAME_REGEX]:
        raise ValueError(f"is_valid_object_name not understood: length limits {lims}, patterns {regs}")
    return lims[0]


def _find_def(tree, scope):
    node = tree
    for name in scope:
        nxt = [n for n in ast.walk(node) if isinstance(n, (ast.ClassDef, ast.FunctionDef)) and n.name == name]
        if len(nxt) != 1:
            raise ValueError(f"cannot find unique {'.'.join(scope)}")
        node = nxt[0]
    return node


def _exception_structure() -> dict:
    """Which exceptions the responder path handles and raises, read from the source: the model's `handleRead`
    (discardedBad / escaped) and theorem `escape_classes` are about exactly this structure."""
    def names(t):
        if t is None:
            return ["<bare>"]
        if isinstance(t, ast.Tuple):
            return [ast.unparse(e) for e in t.elts]
        return [ast.unparse(t)]
    mt = ast.parse((core.REPO / "qmi/core/messaging.py").read_text())
    out = {}
    for fn in ("_handle_read", "_handle_context_info_request_packet", "_handle_kill_request_packet"):
        node = _find_def(mt, ["_UdpResponder", fn])
        hs = []
        for t in ast.walk(node):
            if isinstance(t, ast.Try):
                calls = sorted({c.func.attr if isinstance(c.func, ast.Attribute) else getattr(c.func, "id", "?")
                                for b in t.body for c in ast.walk(b) if isinstance(c, ast.Call)})
                for h in t.handlers:
                    hs.append((",".join(calls), "|".join(names(h.type))))
                if t.finalbody or t.orelse:
                    hs.append(("finally/else", "?"))
        out[fn] = hs
    want = {"_handle_read": [("recvfrom", "BlockingIOError"), ("unpack_qmi_udp_packet", "QMI_Exception")],
            "_handle_context_info_request_packet": [], "_handle_kill_request_packet": []}
    if out != want:
        raise ValueError(f"exception handlers of the responder changed: {out} (the model mirrors {want})")
    pt = ast.parse((core.REPO / "qmi/core/udp_responder_packets.py").read_text())
    un = _find_def(pt, ["unpack_qmi_udp_packet"])
    raised = sorted({ast.unparse(r.exc.func) if isinstance(r.exc, ast.Call) else ast.unparse(r.exc)
                     for r in ast.walk(un) if isinstance(r, ast.Raise) and r.exc is not None})
    if raised != ["QMI_RuntimeException"] or any(isinstance(t, ast.Try) for t in ast.walk(un)):
        raise ValueError(f"unpack_qmi_udp_packet raises {raised} / has handlers (the model mirrors QMI_RuntimeException only, no handlers)")
    from qmi.core.exceptions import QMI_Exception, QMI_RuntimeException
    if not issubclass(QMI_RuntimeException, QMI_Exception) or issubclass(ValueError, QMI_Exception) or issubclass(UnicodeDecodeError, QMI_Exception):
        raise ValueError("exception hierarchy changed")
    return {"handled": want, "raised_by_unpack": raised}


def _port_tie() -> int:
    """the request goes to the port the responder of every context listens on: both sides must name the same constant"""
    ct = ast.parse((core.REPO / "qmi/core/context.py").read_text())
    ping = _find_def(ct, ["ping_qmi_contexts"])
    dests = [ast.unparse(a.value) for a in ast.walk(ping) if isinstance(a, ast.Assign)
             and any(isinstance(t, ast.Name) and t.id == "address_out" for t in a.targets)]
    sends = [ast.unparse(c.args[1]) for c in ast.walk(ping) if isinstance(c, ast.Call) and isinstance(c.func, ast.Attribute)
             and c.func.attr == "sendto" and len(c.args) == 2]
    start = _find_def(ct, ["QMI_Context", "start"])
    binds = [ast.unparse(c.args[0]) for c in ast.walk(start) if isinstance(c, ast.Call) and isinstance(c.func, ast.Attribute)
             and c.func.attr == "start_udp_responder" and len(c.args) == 1]
    if dests != ["('<broadcast>', QMI_Context.DEFAULT_UDP_RESPONDER_PORT)"] or sends != ["address_out"] \
            or binds != ["self.DEFAULT_UDP_RESPONDER_PORT"]:
        raise ValueError(f"request destination / responder port not understood: dest={dests} sendto={sends} responder={binds}")
    import qmi.core.context as C
    port = C.QMI_Context.DEFAULT_UDP_RESPONDER_PORT
    if not isinstance(port, int) or not 0 < port < 65536:
        raise ValueError(f"DEFAULT_UDP_RESPONDER_PORT = {port!r}")
    return port


def _start_order() -> tuple[list, list]:
    """`QMI_Context.start()` as the sequence of message-router calls on its normal path (source order, `except` handlers
    left out), each classified: 2 = starts the responder, 1 = a `MessageRouter` method that assigns a field the responder
    reports at answer time, 0 = neither.  Returns (codes, names)."""
    ct = ast.parse((core.REPO / "qmi/core/context.py").read_text())
    mt = ast.parse((core.REPO / "qmi/core/messaging.py").read_text())
    start = _find_def(ct, ["QMI_Context", "start"])
    calls = []

    def visit(stmts):
        for st in stmts:
            if isinstance(st, ast.Try):
                visit(st.body)
                visit(st.orelse)
                visit(st.finalbody)
                continue
            if isinstance(st, (ast.FunctionDef, ast.ClassDef, ast.AsyncFunctionDef)):
                continue
            own = [c for c in ast.walk(st) if isinstance(c, ast.Call) and isinstance(c.func, ast.Attribute)
                   and ast.unparse(c.func.value) == "self._message_router"]
            if isinstance(st, (ast.If, ast.For, ast.While, ast.With)):
                hdr = st.test if isinstance(st, (ast.If, ast.While)) else (st.iter if isinstance(st, ast.For) else None)
                if hdr is not None:
                    calls.extend(c.func.attr for c in ast.walk(hdr) if c in own)
                visit(st.body)
                visit(getattr(st, "orelse", []))
            else:
                calls.extend(c.func.attr for c in sorted(own, key=lambda c: (c.lineno, c.col_offset)))
    visit(start.body)
    resp = _find_def(mt, ["_UdpResponder", "_handle_context_info_request_packet"])
    reported = sorted({a.attr for a in ast.walk(resp) if isinstance(a, ast.Attribute) and ast.unparse(a.value) == "self._message_router"})
    if not reported or "tcp_server_port" not in reported:
        raise ValueError(f"fields the responder reports not understood: {reported}")
    router = _find_def(mt, ["MessageRouter"])
    writers = set()
    for fn in router.body:
        if not isinstance(fn, ast.FunctionDef) or fn.name == "__init__":
            continue
        for n in ast.walk(fn):
            tg = []
            if isinstance(n, ast.Assign):
                tg = n.targets
            elif isinstance(n, (ast.AugAssign, ast.AnnAssign)):
                tg = [n.target]
            for t in tg:
                for a in ast.walk(t):
                    if isinstance(a, ast.Attribute) and ast.unparse(a.value) == "self" and a.attr in reported:
                        writers.add(fn.name)
    methods = {fn.name for fn in router.body if isinstance(fn, ast.FunctionDef)}
    unknown = [c for c in calls if c not in methods]
    if unknown or calls.count("start_udp_responder") != 1 or "start" not in calls:
        raise ValueError(f"QMI_Context.start(): router calls {calls} not understood (unknown: {unknown})")
    codes = [2 if c == "start_udp_responder" else (1 if c in writers else 0) for c in calls]
    return codes, calls


def _lenient(fn, default):
    """the correspondence / search must still run (and look for a failing input) when a source tie no longer parses"""
    try:
        return fn()
    except Exception:
        return default


def read_layout(strict: bool = False) -> tuple[Layout, dict]:
    import ctypes
    import qmi.core.udp_responder_packets as P
    H, RQ, RS, KL, DS = (P.QMI_UdpResponderPacketHeader, P.QMI_UdpResponderContextInfoRequestPacket,
                         P.QMI_UdpResponderContextInfoResponsePacket, P.QMI_UdpResponderKillRequestPacket,
                         P.QMI_UdpResponderContextDescriptor)
    tables = {}
    hs, tables["header"] = _check_struct(H, [("magic", "uint"), ("pkt_type_tag", "uint"), ("pkt_id", "uint"), ("pkt_timestamp", "f64")])
    for c in (RQ, RS, KL):
        if c.__mro__[1] is not H:
            raise ValueError(f"{c.__name__} does not derive directly from the header")
    hsz = ctypes.sizeof(H)
    rq, tables["request"] = _check_struct(RQ, [("workgroup_name_filter", "chars"), ("context_name_filter", "chars")], hsz)
    rs, tables["response"] = _check_struct(RS, [("request_pkt_id", "uint"), ("request_pkt_timestamp", "f64"), ("context", "struct")], hsz)
    _, tables["kill"] = _check_struct(KL, [], hsz)
    ds, tables["descriptor"] = _check_struct(DS, [("pid", "sint"), ("name", "chars"), ("workgroup_name", "chars"), ("port", "sint")])
    if RS.__dict__["_fields_"][2][1] is not DS:
        raise ValueError("response.context is not the context descriptor")
    E = P.QMI_UdpResponderMessageTypeTag
    need = ("CONTEXT_INFO_REQUEST", "CONTEXT_KILL_REQUEST", "CONTEXT_INFO_RESPONSE")
    for n in need:
        if n not in E.__members__:
            raise ValueError(f"enum member {n} missing")
    kinds = {RQ: 0, KL: 1, RS: 2}
    lookup = []
    for k, v in P._packet_type_lookup.items():
        if not isinstance(k, E) or v not in kinds:
            raise ValueError(f"_packet_type_lookup entry not understood: {k!r} -> {v!r}")
        lookup.append((k.value, kinds[v], ctypes.sizeof(v)))
    if not isinstance(P.MAGIC, int) or P.MAGIC < 0:
        raise ValueError("MAGIC is not a natural number")
    d = dict(
        magic=P.MAGIC, magicSz=hs[0], tagSz=hs[1], idSz=hs[2], tsSz=hs[3],
        wgFilterLen=rq[0], ctxFilterLen=rq[1], respReqIdSz=rs[0], respReqTsSz=rs[1],
        pidSz=ds[0], nameLen=ds[1], wgLen=ds[2], portSz=ds[3],
        tagInfoRequest=E.CONTEXT_INFO_REQUEST.value, tagKillRequest=E.CONTEXT_KILL_REQUEST.value,
        tagInfoResponse=E.CONTEXT_INFO_RESPONSE.value,
        enumTags=[m.value for m in E], lookup=lookup, headerSizeof=hsz,
        responderRecvMax=_responder_bufsize(strict),
        clientRecvMax=(_recvfrom_const(core.REPO / "qmi/core/context.py", ["ping_qmi_contexts"], "qmi.core.context") if strict else
                       _lenient(lambda: _recvfrom_const(core.REPO / "qmi/core/context.py", ["ping_qmi_contexts"], "qmi.core.context"), 4096)),
        maxObjectNameLen=_object_name_rule() if strict else _lenient(_object_name_rule, 63),
        responderPort=_port_tie() if strict else _lenient(_port_tie, 35999),
        defaultTimeoutTicks=default_timeout_ticks() if strict else _lenient(default_timeout_ticks, 103),
        startOrder=_start_order() if strict else _lenient(_start_order, ([0, 1, 2], ["start", "start_tcp_server", "start_udp_responder"])),
    )
    for v in d["enumTags"]:
        if not isinstance(v, int) or v < 0:
            raise ValueError(f"enum value {v!r} is not a natural number")
    return Layout(d), tables


def render_gen(lay: Layout, tables: dict) -> str:
    L = ["/-! GENERATED by harness/props/c18.py (translate) from the live ctypes classes of",
         "qmi/core/udp_responder_packets.py and the `recvfrom` literals of messaging.py / context.py — do not edit -/",
         "namespace QmiModel.Gen.DiscoveryLayouts", ""]
    for k in ("magic", "magicSz", "tagSz", "idSz", "tsSz", "wgFilterLen", "ctxFilterLen", "respReqIdSz", "respReqTsSz",
              "pidSz", "nameLen", "wgLen", "portSz", "tagInfoRequest", "tagKillRequest", "tagInfoResponse"):
        L.append(f"def {k} : Nat := {getattr(lay, k)}")
    L.append("def enumTags : List Nat := [" + ", ".join(str(v) for v in lay.enumTags) + "]")
    L.append("/-- `_packet_type_lookup`: (tag, class: 0 info request / 1 kill request / 2 info response, `ctypes.sizeof`) -/")
    L.append("def lookup : List (Nat × Nat × Nat) := [" + ", ".join(f"({a}, {b}, {c})" for a, b, c in lay.lookup) + "]")
    L.append(f"def headerSizeof : Nat := {lay.headerSizeof}")
    L.append(f"def responderRecvMax : Nat := {lay.responderRecvMax}")
    L.append(f"def clientRecvMax : Nat := {lay.clientRecvMax}")
    L.append("/-- `is_valid_object_name`: at most this many characters, all of `[-_a-zA-Z0-9()]` (pattern checked by the translator) -/")
    L.append(f"def maxObjectNameLen : Nat := {lay.maxObjectNameLen}")
    L.append("/-- `QMI_Context.DEFAULT_UDP_RESPONDER_PORT`: where `start()` puts the responder and where `ping_qmi_contexts` broadcasts to -/")
    L.append(f"def responderPort : Nat := {lay.responderPort}")
    L.append("/-- default `timeout` of `ping_qmi_contexts` in clock ticks of 1/1024 s, rounded up (first tick at which the loop stops) -/")
    L.append(f"def defaultTimeoutTicks : Nat := {lay.defaultTimeoutTicks}")
    L.append("/-- router calls of `QMI_Context.start()` in source order: " + ", ".join(lay.startOrder[1]) +
             " — 2 starts the responder, 1 assigns a field the responder reports, 0 neither -/")
    L.append("def startCalls : List Nat := [" + ", ".join(str(c) for c in lay.startOrder[0]) + "]")
    L.append("")
    L.append("/-! field tables as read (name, offset, size) — for the record -/")
    for name, tab in tables.items():
        L.append(f"def {name}Fields : List (String × Nat × Nat) := [" + ", ".join(f'("{n}", {o}, {s})' for n, o, s in tab) + "]")
    L += ["", "end QmiModel.Gen.DiscoveryLayouts", ""]
    return "\n".join(L)


# ---------------------------------------------------------------------------
# small helpers; the oracle's own packing/parsing (independent of qmi code and of the Lean model)
# ---------------------------------------------------------------------------

def hx(b: bytes) -> str:
    return b.hex() or "-"


def unhx(s: str) -> bytes:
    return b"" if s == "-" else bytes.fromhex(s)


def shex(s: str) -> str:
    return hx(s.encode("utf-8"))


def le(n: int, v: int) -> bytes:
    return (v % (256 ** n)).to_bytes(n, "little") if n else b""


def cfield(n: int, v: bytes) -> bytes:
    assert len(v) <= n
    return v + b"\0" * (n - len(v))


def cval(raw: bytes) -> bytes:
    i = raw.find(b"\0")
    return raw if i < 0 else raw[:i]


def o_request(lay: Layout, rid: int, ts: bytes, wgf: bytes, cnf: bytes) -> bytes:
    return (le(lay.magicSz, lay.magic) + le(lay.tagSz, lay.tagInfoRequest) + le(lay.idSz, rid) + ts
            + cfield(lay.wgFilterLen, wgf) + cfield(lay.ctxFilterLen, cnf))


def o_kill(lay: Layout, rid: int, ts: bytes) -> bytes:
    return le(lay.magicSz, lay.magic) + le(lay.tagSz, lay.tagKillRequest) + le(lay.idSz, rid) + ts


def o_response(lay: Layout, rid: int, ts: bytes, req_id: int, req_ts: bytes, pid: int, name: bytes, wg: bytes, port: int) -> bytes:
    return (le(lay.magicSz, lay.magic) + le(lay.tagSz, lay.tagInfoResponse) + le(lay.idSz, rid) + ts
            + le(lay.respReqIdSz, req_id) + req_ts + le(lay.pidSz, pid) + cfield(lay.nameLen, name)
            + cfield(lay.wgLen, wg) + le(lay.portSz, port))


def o_split(sizes, data: bytes):
    out, o = [], 0
    for s in sizes:
        out.append(data[o:o + s])
        o += s
    return out


def o_classify(lay: Layout, data: bytes) -> str:
    """what the *property* calls a well-formed request; everything else is junk"""
    if len(data) >= lay.hdr_size and int.from_bytes(data[:lay.magicSz], "little") == lay.magic:
        tag = int.from_bytes(data[lay.magicSz:lay.magicSz + lay.tagSz], "little")
        if tag == lay.tagInfoRequest and len(data) == lay.req_size:
            return "info-request"
        if tag == lay.tagKillRequest and len(data) == lay.hdr_size:
            return "kill-request"
    return "junk"


def sint(raw: bytes) -> int:
    return int.from_bytes(raw, "little", signed=True)


def addr_of(k: int):
    return (f"10.{(k >> 8) & 255}.{k & 255}.7", 20000 + (k & 0x3fff))


def addr_index(a) -> str:
    try:
        p = a[0].split(".")
        k = (int(p[1]) << 8) | int(p[2])
        return str(k) if addr_of(k) == tuple(a) else "?"
    except Exception:
        return "?"


ESCAPE_CLASSES = ("ValueError", "UnicodeDecodeError")     # theorem escape_classes


class _Budget(BaseException):
    """a fake ran out of its I/O budget: the code under test loops"""


class FakeDgramSocket:
    def __init__(self, budget: int = 200000, fd_sock=None):
        self.queue: list = []          # (data, addr)
        self.sent: list = []           # (data, addr)
        self.budget = budget
        self.closed = False
        self.blocking = True
        self.fd_sock = fd_sock
        self.opts = []

    def _tick(self):
        self.budget -= 1
        if self.budget < 0:
            raise _Budget("socket I/O budget exhausted")

    def setblocking(self, b):
        self.blocking = b

    def setsockopt(self, *a):
        self.opts.append(a)

    def bind(self, a):
        self.bound = a

    def fileno(self):
        return self.fd_sock.fileno() if self.fd_sock is not None else 987654

    def getsockname(self):
        return ("0.0.0.0", 35999)

    def recvfrom(self, n):
        self._tick()
        if not self.queue:
            raise BlockingIOError()
        if self.fd_sock is not None:
            self.fd_sock.recv(1)
        data, a = self.queue.pop(0)
        return data[:n], a

    def sendto(self, data, a):
        self._tick()
        self.sent.append((bytes(data), a))
        return len(bytes(data))

    def close(self):
        self.closed = True


class FakeLoop:
    def __init__(self):
        self.readers = {}

    def add_reader(self, fd, cb, *args):
        self.readers[fd] = (cb, args)

    def remove_reader(self, fd):
        return self.readers.pop(fd, None) is not None


class _Shim:
    """module stand-in: overrides a few attributes, delegates the rest to the real module"""

    def __init__(self, real, **over):
        self.__dict__["_real"] = real
        self.__dict__.update(over)

    def __getattr__(self, n):
        return getattr(self._real, n)


@contextlib.contextmanager
def patched(mod, **attrs):
    old = {k: getattr(mod, k) for k in attrs}
    try:
        for k, v in attrs.items():
            setattr(mod, k, v)
        yield
    finally:
        for k, v in old.items():
            setattr(mod, k, v)


@contextlib.contextmanager
def quiet():
    import logging
    import warnings
    prev = logging.root.manager.disable
    logging.disable(logging.CRITICAL)
    try:
        with warnings.catch_warnings():
            warnings.simplefilter("ignore")
            with contextlib.redirect_stdout(io.StringIO()):
                yield
    finally:
        logging.disable(prev)


# ---------------------------------------------------------------------------
# which contexts can exist: the real QMI_Context constructor (its RPC thread is not started for the probe)
# ---------------------------------------------------------------------------

_ADMIT_CACHE: dict = {}


def admit_impl(name: str, wg: str) -> str:
    """`QMI_Context(name, CfgQmi(workgroup=wg))` on the tree under test: 'ok' or 'exc:<Type>'"""
    key = (name, wg)
    if key not in _ADMIT_CACHE:
        import qmi.core.context as C
        from qmi.core.config_defs import CfgQmi
        with quiet(), patched(C.QMI_Context, _internal_make_rpc_object=lambda self, *a, **k: None):
            try:
                c = C.QMI_Context(name, CfgQmi(workgroup=wg))
                ok = (c.name == name and c.workgroup_name == wg and c._message_router.workgroup_name == wg
                      and c._message_router.context_name == name)
                _ADMIT_CACHE[key] = "ok" if ok else "names-altered"
            except Exception as e:
                _ADMIT_CACHE[key] = "exc:" + type(e).__name__
    return _ADMIT_CACHE[key]


def workgroup_admitted(wg: str) -> bool:
    """can a running context have this workgroup name?"""
    return admit_impl("probe", wg) == "ok"


def oracle_admit(lay: Layout, name: str, wg: str, out: str):
    """a context that can be created must be reportable in a discovery answer"""
    if out != "ok":
        return None
    for what, v, n in (("workgroup", wg, lay.wgLen), ("context", name, lay.nameLen)):
        if len(v.encode("utf-8")) > n:
            return (f"admit:context-created-with-{what}-name-longer-than-field", f"QMI_Context({name!r}, workgroup={wg!r}) was created", 0)
        if "\0" in v:
            return (f"admit:context-created-with-NUL-in-{what}-name", f"QMI_Context({name!r}, workgroup={wg!r}) was created", 0)
    return None


def gen_admit(rng, lay: Layout) -> tuple[str, str]:
    r = rng.random()
    if r < 0.5:
        name = gen_name(rng, "valid")
    elif r < 0.65:
        n = rng.choice([lay.maxObjectNameLen - 1, lay.maxObjectNameLen, lay.maxObjectNameLen + 1, lay.nameLen, lay.nameLen + 1])
        name = "".join(rng.choice(VALID_CH) for _ in range(n))
        if rng.random() < 0.3:
            name = name[:-1] + "\n"
    else:
        name = rng.choice(["", "\n", "a\n", "a\n\n", "\na", "a b", "a.b", "é", "a\0", "a*", "[a]", "(a)", "-", "_", "a" * 62 + "\n", "a" * 63 + "\n",
                           gen_name(rng, "wide"), gen_name(rng, "globby"), gen_name(rng, "short")])
    r = rng.random()
    if r < 0.4:
        wg = gen_name(rng)
    elif r < 0.8:
        n = rng.choice([0, 1, lay.wgLen - 1, lay.wgLen, lay.wgLen, lay.wgLen + 1, lay.wgLen + 1, lay.wgLen + 2, 2 * lay.wgLen])
        ch = rng.choice(["a", "é", "€", "😀"])
        w = len(ch.encode())
        wg = ch * (n // w) + "a" * (n % w)
    else:
        base = gen_name(rng) or "a"
        i = rng.randrange(len(base) + 1)
        wg = base[:i] + "\0" + base[i:]
    return name, wg


# ---------------------------------------------------------------------------
# responder sessions on the real _UdpResponder
# ---------------------------------------------------------------------------
# session = {"name","wg","pid","port","dgrams":[{"addr":k,"data":hex,"rid":int,"now":hex} | {"nopkt":1}], "mode":"direct"|"loop"}

def session_lines(s: dict) -> list:
    L = [f"ctx {shex(s['name'])} {shex(s['wg'])} {s['pid']} {s['port']}"]
    for d in s["dgrams"]:
        L.append("nopkt" if "nopkt" in d else f"dg {d['addr']} {d['data']} {d['rid']} {d['now']}")
    return L


def run_session_impl(s: dict):
    """Run one session on the real responder.  Returns (output lines, trace); trace[i] = what datagram i did."""
    import qmi.core.messaging as M
    from qmi.core.exceptions import QMI_Exception
    cur = {"rid": 0, "now": 0.0, "pid": s["pid"]}
    ev = {}

    def fake_exit(code):
        ev["killed"] = code

    real_unpack = M.unpack_qmi_udp_packet

    def tap_unpack(data):
        try:
            p = real_unpack(data)
        except QMI_Exception:
            ev["tap"] = "discarded-bad"
            raise
        except BaseException as e:
            ev["tap"] = "raised:" + type(e).__name__
            raise
        ev["tap"] = type(p).__name__
        return p

    os_shim = _Shim(M.os, getpid=lambda: cur["pid"], _exit=fake_exit)
    rnd_shim = _Shim(M.random, randint=lambda a, b: cur["rid"])
    time_shim = _Shim(M.time, time=lambda: cur["now"])
    router = M.MessageRouter(s["name"], s["wg"])
    router.tcp_server_port = s["port"]
    outs, trace = ["ok"], []
    loop_mode = s.get("mode") == "loop"
    with quiet(), patched(M, os=os_shim, random=rnd_shim, time=time_shim, unpack_qmi_udp_packet=tap_unpack):
        if loop_mode:
            import asyncio
            import socket as real_socket
            loop = asyncio.SelectorEventLoop()
            rs, ws = real_socket.socketpair(real_socket.AF_UNIX, real_socket.SOCK_DGRAM)
            rs.setblocking(False)
            contained = []
            loop.set_exception_handler(lambda lp, c: contained.append(c.get("exception")))
            sock = FakeDgramSocket(fd_sock=rs)
        else:
            loop = FakeLoop()
            sock = FakeDgramSocket()
        try:
            resp = M._UdpResponder(loop, router, sock)
            dead = False
            for d in s["dgrams"]:
                if dead:            # os._exit ran: the process is gone, nothing is read any more
                    outs.append("dead")
                    trace.append({"sent": [], "exc": None, "killed": False, "tap": None, "undelivered": False, "dead": True})
                    continue
                ev.clear()
                sock.sent.clear()
                exc = None
                if "nopkt" not in d:
                    cur["rid"] = d["rid"]
                    cur["now"] = struct.unpack("<d", unhx(d["now"]))[0]
                    sock.queue.append((unhx(d["data"]), addr_of(d["addr"])))
                if loop_mode:
                    contained.clear()
                    if "nopkt" not in d:
                        ws.send(b"\0")
                        for _ in range(4):
                            loop.call_soon(loop.stop)
                            loop.run_forever()
                            if not sock.queue:
                                break
                    if contained:
                        exc = contained[0]
                    if sock.queue:            # the loop no longer dispatches the reader
                        ev["undelivered"] = True
                        sock.queue.clear()
                else:
                    ent = loop.readers.get(sock.fileno())
                    if ent is None:
                        ev["undelivered"] = True
                        sock.queue.clear()
                    else:
                        try:
                            ent[0](*ent[1])
                        except _Budget:
                            raise
                        except Exception as e:      # escapes to the event loop
                            exc = e
                        if sock.queue:
                            ev["unread"] = True
                            sock.queue.clear()
                sent = list(sock.sent)
                t = {"sent": sent, "exc": type(exc).__name__ if exc is not None else None,
                     "killed": "killed" in ev, "tap": ev.get("tap"), "undelivered": ev.get("undelivered", False) or ev.get("unread", False)}
                trace.append(t)
                dead = t["killed"]
                if "nopkt" in d:
                    outs.append("no-packet" if (exc is None and not sent and not t["killed"]) else f"unexpected {t}")
                elif t["undelivered"]:
                    outs.append("undelivered")
                elif exc is not None:
                    outs.append("exc:" + t["exc"] + ("" if not sent else " +sent"))
                elif t["killed"]:
                    outs.append("kill" + ("" if not sent else " +sent"))
                elif sent:
                    outs.append(" | ".join(f"sent {addr_index(a)} {hx(b)}" for b, a in sent))
                elif t["tap"] == "discarded-bad":
                    outs.append("discarded-bad")
                elif t["tap"] == "QMI_UdpResponderContextInfoRequestPacket":
                    outs.append("nomatch")
                elif t["tap"] is not None and not t["tap"].startswith("raised:"):
                    outs.append("discarded-type")
                else:
                    outs.append("none")
            resp.close()
            if not sock.closed or loop_mode and False:
                outs[0] = "close-did-not-close-socket"
        finally:
            if loop_mode:
                loop.close()
                rs.close()
                ws.close()
    return outs, trace


def oracle_session(lay: Layout, s: dict, trace) -> tuple | None:
    """The property on one responder session.  Returns (signature, detail, index) of the first violated clause."""
    import fnmatch
    name, wg = s["name"], s["wg"]
    nb, wb = name.encode("utf-8"), wg.encode("utf-8")
    # the contexts the property speaks about are those that can exist: the workgroup name must be accepted by the real
    # QMI_Context constructor; context names are taken from the wider set the packet can carry (internal names)
    name_ok = len(nb) <= lay.nameLen and "\0" not in name and workgroup_admitted(wg)
    loop_mode = s.get("mode") == "loop"
    for i, (d, t) in enumerate(zip(s["dgrams"], trace)):
        if t.get("dead"):
            continue
        if t["exc"] is not None and t["exc"] not in ESCAPE_CLASSES:
            # the argument "junk is ignored" rests on the event loop containing what leaves _handle_read; the model proves
            # (escape_classes) that only these classes can leave it — anything else is outside what was proved and exercised
            return (f"contain:unexpected-exception-class-leaves-handle_read:{t['exc']}", f"datagram {d.get('data', '')[:80]}", i)
        if "nopkt" in d:
            if t["sent"] or t["killed"]:
                return ("nopacket:acted-without-datagram", f"{t}", i)
            continue
        data = unhx(d["data"])
        cls = o_classify(lay, data)
        if t["undelivered"]:
            return ("survive:responder-stopped-reading", f"datagram {i} was never read", i)
        if loop_mode and t["exc"] in ("SystemExit", "KeyboardInterrupt"):
            return ("survive:loop-killed", t["exc"], i)
        if cls == "kill-request":
            if t["sent"]:
                return ("kill:answered", "", i)
            continue
        expect = False
        flt = None
        if cls == "info-request":
            f = o_split(lay.req_sizes, data)
            try:
                flt = (cval(f[4]).decode("utf-8"), cval(f[5]).decode("utf-8"))
            except UnicodeDecodeError:
                flt = None
            if flt is not None:
                m_wg = fnmatch.fnmatchcase(wg, flt[0])
                m_cn = fnmatch.fnmatchcase(name, flt[1])
                expect = m_wg and m_cn
        if t["killed"]:
            return ("junk:killed-the-context" if cls == "junk" else "request:killed-the-context", f"datagram {hx(data)[:80]}", i)
        if not expect:
            if t["sent"]:
                if cls == "junk":
                    return ("junk:answered", f"datagram of {len(data)} bytes {hx(data)[:80]}… got {len(t['sent'])} answer(s)", i)
                if flt is None:
                    return ("respond:answered-undecodable-filter", hx(data)[:80], i)
                which = "workgroup" if not m_wg else "context"
                return (f"respond:answer-although-{which}-filter-does-not-match",
                        f"name={name!r} workgroup={wg!r} filters={flt!r}", i)
            continue
        # both filters match: exactly one answer, to the sender, echoing the request
        if not name_ok:
            continue
        if not t["sent"]:
            why = "plain"
            if len(wb) > lay.wgLen:
                why = "workgroup-name-longer-than-field"
            elif "\0" in wg:
                why = "workgroup-name-contains-NUL"
            return (f"respond:no-answer-although-both-filters-match:{why}",
                    f"name={name!r} workgroup={wg!r} filters={flt!r} escaped={t['exc']}", i)
        if len(t["sent"]) > 1:
            return ("respond:more-than-one-answer", f"{len(t['sent'])} datagrams", i)
        out, to = t["sent"][0]
        if tuple(to) != addr_of(d["addr"]):
            return ("respond:answer-to-wrong-address", f"{to} instead of {addr_of(d['addr'])}", i)
        if len(out) != lay.resp_size:
            return ("echo:response-size", f"{len(out)} bytes", i)
        r = o_split(lay.resp_sizes, out)
        if int.from_bytes(r[0], "little") != lay.magic or int.from_bytes(r[1], "little") != lay.tagInfoResponse:
            return ("echo:response-header", hx(out[:lay.hdr_size]), i)
        if r[4] != f[2]:
            return ("echo:request-id", f"sent id {hx(f[2])}, echoed {hx(r[4])}", i)
        if r[5] != f[3]:
            return ("echo:request-timestamp", f"sent {hx(f[3])}, echoed {hx(r[5])}", i)
        if sint(r[6]) != s["pid"] and -2 ** 31 <= s["pid"] < 2 ** 31:
            return ("echo:pid", f"{sint(r[6])} instead of {s['pid']}", i)
        if cval(r[7]) != nb or r[7][len(nb):].strip(b"\0"):
            return ("echo:context-name", f"{r[7]!r} instead of {nb!r}", i)
        if cval(r[8]) != wb or r[8][len(wb):].strip(b"\0"):
            why = ":name-contains-NUL" if "\0" in wg else ""
            return ("echo:workgroup-name" + why, f"{r[8]!r} instead of {wb!r}", i)
        if sint(r[9]) != s["port"] and -2 ** 31 <= s["port"] < 2 ** 31:
            return ("echo:port", f"{sint(r[9])} instead of {s['port']}", i)
    return None


# ---------------------------------------------------------------------------
# the asking side: ping_qmi_contexts / discover_peer_contexts on a fake socket, selector and clock
# ---------------------------------------------------------------------------
# client = {"self","wg_cfg","wgf":str|None,"cnf":str,"rid":int,"now":hex,"dgrams":[{"addr":k,"data":hex}],"real_ctx":bool,
#           "responders":[{"name","wg","pid","port","addr"}]}   (responders answer the captured request in-memory)

class _Clock:
    def __init__(self):
        self.t = 1000.0


class FakeSelector:
    def __init__(self, clock, budget=100000):
        self.clock, self.budget, self.sock, self.key = clock, budget, None, None

    def __enter__(self):
        return self

    def __exit__(self, *a):
        return False

    def close(self):
        pass

    def register(self, sock, events, data=None):
        import selectors
        self.sock = sock
        self.key = selectors.SelectorKey(sock, sock.fileno(), events, data)
        return self.key

    def select(self, timeout=None):
        self.budget -= 1
        if self.budget < 0:
            raise _Budget("selector budget exhausted")
        if self.sock is not None and self.sock.queue:
            return [(self.key, self.key.events)]
        self.clock.t += timeout if timeout and timeout > 0 else 0.05
        return []


def client_lines(c: dict) -> list:
    wgf = c["wg_cfg"] if c["wgf"] is None else c["wgf"]
    L = [f"packreq {c['rid']} {c['now']} {shex(wgf)} {shex(c['cnf'])}"]
    return L


def run_client_impl(lay: Layout, c: dict):
    """Returns (lines, outs, info). The disc line is built from what was actually delivered to the client socket."""
    import qmi.core.context as C
    import qmi.core.messaging as M
    clock = _Clock()
    socks = []
    delivered = []

    def on_broadcast(data: bytes):
        extra = []
        for r in c.get("responders", []):
            sess = {"name": r["name"], "wg": r["wg"], "pid": r["pid"], "port": r["port"],
                    "dgrams": [{"addr": 0, "data": hx(data), "rid": r.get("rid", 7), "now": c["now"]}]}
            _, tr = run_session_impl(sess)
            for b, _a in tr[0]["sent"]:
                extra.append((b, addr_of(r["addr"])))
        return extra

    class ClientSock(FakeDgramSocket):
        def sendto(self, data, a):
            n = super().sendto(data, a)
            answers = on_broadcast(bytes(data))
            pre = [(unhx(d["data"]), addr_of(d["addr"])) for d in c["dgrams"]]
            k = c.get("answers_at", len(pre))
            self.queue += pre[:k] + answers + pre[k:]
            delivered.extend(self.queue)
            return n

    def make_socket(*a, **kw):
        s = ClientSock(budget=100000)
        socks.append(s)
        return s

    sock_shim = _Shim(C.socket, socket=make_socket)
    sel_shim = _Shim(C.selectors, DefaultSelector=lambda: FakeSelector(clock))
    time_shim = _Shim(C.time, monotonic=lambda: clock.t, time=lambda: struct.unpack("<d", unhx(c["now"]))[0])
    rnd_shim = _Shim(C.random, randint=lambda a, b: c["rid"])
    if c.get("real_ctx"):
        from qmi.core.config_defs import CfgQmi
        me = C.QMI_Context(c["self"], CfgQmi(workgroup=c["wg_cfg"]))
    else:
        me = types.SimpleNamespace(name=c["self"], _config=types.SimpleNamespace(workgroup=c["wg_cfg"]))
    result, exc = None, None
    with quiet(), patched(C, socket=sock_shim, selectors=sel_shim, time=time_shim, random=rnd_shim):
        try:
            result = C.QMI_Context.discover_peer_contexts(me, c["wgf"], c["cnf"])
        except _Budget:
            raise
        except Exception as e:
            exc = e
    lines = client_lines(c)
    outs = []
    sent = socks[0].sent if socks else []
    info = {"sent": sent, "delivered": list(delivered), "result": result, "exc": type(exc).__name__ if exc else None,
            "closed": bool(socks) and socks[0].closed, "bcast_to": sent[0][1] if sent else None,
            "sockopts": [tuple(o) for o in socks[0].opts] if socks else []}
    if not sent:
        outs.append("exc:" + info["exc"] if exc is not None else "nothing-sent")
        return lines, outs, info
    outs.append(hx(sent[0][0]))
    lines.append("disc %s %d %s" % (shex(c["self"]), c["rid"],
                                     ",".join(f"{addr_index(a)}:{hx(b)}" for b, a in delivered) or "-"))
    if exc is not None:
        outs.append("exc:" + info["exc"])
    else:
        def canon(ent):
            nm, ap = ent
            host, _, port = ap.rpartition(":")
            k = "?"
            for b, a in delivered:
                if a[0] == host:
                    k = addr_index(a)
                    break
            return f"{shex(nm)}@{k}:{port}"
        outs.append("ok " + ";".join(canon(e) for e in result))
    return lines, outs, info


# ---- the collection window: the same code under a scripted clock and selector -------------------------------------
# timed = {"mode":"ping"|"discover","self","wg_cfg","wgf","cnf","rid","now","t0":ticks,"timeout":ticks,
#          "turns":[{"t":ticks} | {"t":ticks,"addr":k,"data":hex}]}      1 tick = 1/1024 s (exact in binary floating point)

TICKS = 1024.0


def default_timeout_ticks() -> int:
    import inspect
    import math
    import qmi.core.context as C
    d = inspect.signature(C.ping_qmi_contexts).parameters["timeout"].default
    if not isinstance(d, (int, float)) or d < 0:
        raise ValueError(f"ping_qmi_contexts: default timeout {d!r} not understood")
    return math.ceil(d * TICKS)


def timed_lines(c: dict) -> list:
    ts = ",".join(f"{u['t']}:{u['addr']}:{u['data']}" if "data" in u else f"{u['t']}:-" for u in c["turns"]) or "-"
    if c["mode"] == "ping":
        return [f"pingloop {c['rid']} {c['t0'] + c['timeout']} {ts}"]
    return [f"disct {shex(c['self'])} {c['rid']} {c['t0']} {c['timeout']} {ts}"]


def run_timed_impl(lay: Layout, c: dict):
    import selectors
    import qmi.core.context as C
    st = {"i": -1, "first": True, "bad_select": None, "overrun": False, "reads": 0}
    socks = []

    def monotonic():
        if st["first"]:
            st["first"] = False
            return c["t0"] / TICKS
        st["i"] += 1
        if st["i"] >= len(c["turns"]):
            st["overrun"] = True
            raise _Budget("the loop asked for the time again after every scripted turn, including expired ones")
        return c["turns"][st["i"]]["t"] / TICKS

    class Sel:
        def __enter__(self):
            return self

        def __exit__(self, *a):
            return False

        def close(self):
            pass

        def register(self, sock, events, data=None):
            self.key = selectors.SelectorKey(sock, sock.fileno(), events, data)
            self.sock = sock
            return self.key

        def select(self, timeout=None):
            u = c["turns"][st["i"]] if 0 <= st["i"] < len(c["turns"]) else None
            remaining = (c["t0"] + c["timeout"] - (u["t"] if u else c["t0"])) / TICKS
            if timeout is None or not (0 < timeout <= remaining + 1e-9):
                st["bad_select"] = (timeout, remaining)
            if u is not None and "data" in u and not u.get("_taken"):
                u["_taken"] = True
                self.sock.queue.append((unhx(u["data"]), addr_of(u["addr"])))
                return [(self.key, self.key.events)]
            return []

    class TSock(FakeDgramSocket):
        def recvfrom(self, n):
            st["reads"] += 1
            return super().recvfrom(n)

    def make_socket(*a, **kw):
        sk = TSock(budget=100000)
        socks.append(sk)
        return sk

    for u in c["turns"]:
        u.pop("_taken", None)
    wgf = c["wg_cfg"] if c["wgf"] is None else c["wgf"]
    me = types.SimpleNamespace(name=c["self"], _config=types.SimpleNamespace(workgroup=c["wg_cfg"]))
    res, exc = None, None
    with quiet(), patched(C, socket=_Shim(C.socket, socket=make_socket), selectors=_Shim(C.selectors, DefaultSelector=Sel),
                          time=_Shim(C.time, monotonic=monotonic, time=lambda: struct.unpack("<d", unhx(c["now"]))[0]),
                          random=_Shim(C.random, randint=lambda a, b: c["rid"])):
        try:
            if c["mode"] == "ping":
                res = C.ping_qmi_contexts(wgf, c["cnf"], timeout=c["timeout"] / TICKS)
            else:
                res = C.QMI_Context.discover_peer_contexts(me, c["wgf"], c["cnf"])
        except _Budget as e:
            exc = e
        except Exception as e:
            exc = e
    for u in c["turns"]:
        u.pop("_taken", None)
    info = {"exc": type(exc).__name__ if exc is not None else None, "overrun": st["overrun"], "bad_select": st["bad_select"],
            "reads": st["reads"], "turns_used": st["i"] + 1, "sock": socks[0] if socks else None, "result": res}
    if exc is not None:
        out = "overrun" if st["overrun"] else "exc:" + info["exc"]
    elif c["mode"] == "ping":
        info["accepted"] = [addr_index(r.incoming_address) for r in res]
        out = "ok " + ",".join(info["accepted"])
    else:
        def canon(ent):
            nm, ap = ent
            host, _, port = ap.rpartition(":")
            k = next((str(u["addr"]) for u in c["turns"] if "data" in u and addr_of(u["addr"])[0] == host), "?")
            return f"{shex(nm)}@{k}:{port}"
        out = "ok " + ";".join(canon(e) for e in res)
    return timed_lines(c), [out], info


def oracle_timed(lay: Layout, c: dict, info):
    """every answer to this call that arrives within the window is reported, nothing that arrives later is, and the call ends"""
    deadline = c["t0"] + c["timeout"]
    if info["overrun"]:
        return ("window:loop-runs-past-the-deadline", f"deadline tick {deadline}, turns {[u['t'] for u in c['turns']][-6:]}", 0)
    if info["bad_select"] is not None:
        return ("window:select-timeout-is-not-the-remaining-time", f"select({info['bad_select'][0]!r}) with {info['bad_select'][1]} s remaining", 0)
    inwin, n_in = [], 0
    for u in c["turns"]:
        if u["t"] >= deadline:
            break
        n_in += 1
        if "data" in u:
            inwin.append(u)
    if info["reads"] > len(inwin):
        return ("window:datagram-read-at-or-after-the-deadline", f"{info['reads']} reads, {len(inwin)} datagrams within the window", 0)
    exp, undec = [], False
    for u in inwin:
        b = unhx(u["data"])[:lay.clientRecvMax]
        if len(b) == lay.resp_size and int.from_bytes(b[:lay.magicSz], "little") == lay.magic \
                and int.from_bytes(b[lay.magicSz:lay.magicSz + lay.tagSz], "little") == lay.tagInfoResponse:
            r = o_split(lay.resp_sizes, b)
            if int.from_bytes(r[4], "little") == c["rid"]:
                try:
                    nm = cval(r[7]).decode("utf-8")
                except UnicodeDecodeError:
                    undec = True
                    nm = None
                exp.append((str(u["addr"]), nm, sint(r[9])))
    if c["mode"] == "ping":
        if info["exc"] is not None:
            return ("window:raised", info["exc"], 0)
        if info["accepted"] != [e[0] for e in exp]:
            missing = [e[0] for e in exp if e[0] not in info["accepted"]]
            return ("window:answer-within-the-window-not-reported" if missing else "window:reported-what-did-not-arrive-in-time-or-is-not-an-answer",
                    f"accepted {info['accepted']}, expected {[e[0] for e in exp]}", 0)
        return None
    if undec:
        return None
    if info["exc"] is not None:
        return ("window:raised", info["exc"], 0)
    want = [(nm, f"{addr_of(int(a))[0]}:{port}") for a, nm, port in exp if nm != c["self"]]
    got = [tuple(e) for e in info["result"]]
    if got != want:
        missing = [e for e in want if e not in got]
        return ("window:answer-within-the-window-not-reported" if missing else "window:reported-what-did-not-arrive-in-time-or-is-not-an-answer",
                f"got {got}, want {want}", 0)
    return None


def gen_timed(rng, lay: Layout, dflt: int) -> dict:
    me = gen_name(rng, "valid") or "me"
    rid = rng.randrange(1, 2 ** 64)
    mode = rng.choice(["ping", "ping", "discover"])
    tmo = dflt if mode == "discover" else rng.choice([0, 1, 2, 3, 17, dflt - 1, dflt, dflt + 1, 128, 512, 1024])
    t0 = 1024 * rng.randrange(1000, 5000) + rng.randrange(1024)
    c = {"mode": mode, "self": me, "wg_cfg": "grp", "wgf": rng.choice([None, "*", "g*"]), "cnf": "*", "rid": rid, "now": rand_now(rng),
         "t0": t0, "timeout": tmo, "turns": []}
    deadline = t0 + tmo
    names = [me, me + "x", "peer", me.swapcase(), me[:-1] or "p"]

    def answer(own=True):
        nm = rng.choice(names).encode()[:lay.nameLen]
        i = rid if own else rng.choice([rid ^ 1, (rid + 1) % 2 ** 64, rng.randrange(2 ** 64)])
        return o_response(lay, rng.randrange(1, 2 ** 64), unhx(rand_now(rng)), i, unhx(c["now"]), 5, nm, b"grp", rng.randrange(1024, 65536))

    def dgram():
        r = rng.random()
        if r < 0.45:
            return answer(True)
        if r < 0.6:
            return answer(False)
        if r < 0.7:
            return answer(True)[:rng.randrange(1, lay.resp_size)]
        return gen_junk(rng, lay, answer(True))[1]

    t = t0
    style = rng.choice(["sparse", "flood", "edge", "stall"])
    for j in range(rng.randint(0, 12) if style != "flood" else rng.randint(30, 150)):
        if style == "flood":
            t += rng.choice([0, 0, 1, 1, 2])
        elif style == "edge":
            t = rng.choice([deadline - 2, deadline - 1, deadline - 1, t, t + 1]) if j else max(t0, deadline - rng.randint(1, 3))
            t = max(t, c["turns"][-1]["t"] if c["turns"] else t0)
        elif style == "stall":
            t += 0 if rng.random() < 0.7 else rng.randint(1, max(1, tmo // 3 + 1))
        else:
            t += rng.randint(0, max(1, tmo // 4 + 1))
        u = {"t": t}
        if rng.random() < (0.95 if style == "flood" else 0.7):
            u["addr"], u["data"] = rng.randrange(4000), hx(dgram() if style != "flood" or rng.random() < 0.1 else gen_junk(rng, lay, answer(True))[1])
        c["turns"].append(u)
        if t >= deadline and rng.random() < 0.5:
            break
    last = max([u["t"] for u in c["turns"]] + [t0])
    # the clock reaches the deadline; answers that are ready at that moment or later must not be taken
    c["turns"].append({"t": max(last, deadline) + rng.choice([0, 0, 1, 5]), "addr": 3999, "data": hx(answer(True))})
    for j in range(3):
        c["turns"].append({"t": c["turns"][-1]["t"] + 1, "addr": 3990 + j, "data": hx(answer(True))})
    return c


def sys_timed(lay: Layout, dflt: int) -> list:
    """fixed corpus: an answer at every tick around the deadline, for the default window and small ones; zero window; a stalled clock"""
    out = []
    rid, now = 0x1234567890abcdef, hx(struct.pack("<d", 1.7e9))
    good = lambda k: hx(o_response(lay, 9, unhx(now), rid, unhx(now), 5, b"peer%d" % k, b"grp", 1000 + k))
    for mode, tmos in (("ping", [0, 1, 2, dflt, 128]), ("discover", [dflt])):
        for tmo in tmos:
            t0 = 2048000
            for off in range(-3, 4):
                at = t0 + tmo + off
                if at < t0:
                    continue
                turns = [{"t": t0, "addr": 1, "data": good(1)}] if tmo > 0 and off != -tmo else []
                turns += [{"t": at, "addr": 2, "data": good(2)}, {"t": max(at, t0 + tmo), "addr": 3, "data": good(3)},
                          {"t": max(at, t0 + tmo) + 1, "addr": 4, "data": good(4)}]
                out.append({"mode": mode, "self": "me", "wg_cfg": "grp", "wgf": "*", "cnf": "*", "rid": rid, "now": now,
                            "t0": t0, "timeout": tmo, "turns": turns})
    t0 = 3072000
    out.append({"mode": "ping", "self": "me", "wg_cfg": "grp", "wgf": "*", "cnf": "*", "rid": rid, "now": now, "t0": t0, "timeout": 5,
                "turns": [{"t": t0 + (j // 40), "addr": j, "data": good(j) if j % 7 == 0 else hx(bytes([j % 256]) * (j % 200))} for j in range(240)]
                         + [{"t": t0 + 6, "addr": 3000, "data": good(0)}]})
    out.append({"mode": "discover", "self": "me", "wg_cfg": "grp", "wgf": None, "cnf": "*", "rid": rid, "now": now, "t0": t0, "timeout": dflt,
                "turns": [{"t": t0}, {"t": t0}, {"t": t0 + 1}, {"t": t0 + dflt - 1, "addr": 7, "data": good(7)}, {"t": t0 + dflt - 1},
                          {"t": t0 + dflt, "addr": 8, "data": good(8)}, {"t": t0 + dflt + 1, "addr": 9, "data": good(9)}]})
    return out


# ---- requests arriving while a context starts and stops (real QMI_Context, deterministic scheduler, simulated network) ----
# life = {"name","wg","tcp": 0|None|port, "mode":"hooks"|"race", "seed": int}

def run_lifecycle_impl(lay: Layout, life: dict):
    import os as _os
    import socket as _rs
    from harness import simnet as S
    from harness.simworld import run_scenario
    ts = struct.pack("<d", 1.7e9)

    def body(w):
        import qmi.core.context as C
        from qmi.core.config_defs import CfgQmi, CfgContext
        cfg = CfgQmi(workgroup=life["wg"], contexts={life["name"]: CfgContext(tcp_server_port=life["tcp"])})
        ctx = w.context(life["name"], start=False, config=cfg)
        router = ctx._message_router
        port = C.QMI_Context.DEFAULT_UDP_RESPONDER_PORT
        cli = S.SimSocket(type=_rs.SOCK_DGRAM)
        cli.bind(("", 0))
        events, counter = [], [0]

        def pending():
            return any(sk.dgrams for sk in w.net.udp.get(port, []) if sk is not cli)

        def probe(label, wait=True):
            counter[0] += 1
            rid = 7000 + counter[0]
            cli.sendto(o_request(lay, rid, ts, b"*", b"*"), ("<broadcast>", port))
            if wait:
                w.sched.yield_point("c18.probe", blocked_on=lambda: not pending(), timeout=0.5)
                unread = pending()
                for sk in w.net.udp.get(port, []):
                    if sk is not cli:
                        sk.dgrams.clear()
            else:
                w.sched.yield_point("c18.ping")
                unread = False
            events.append({"label": label, "rid": rid, "unread": unread, "listening": sorted(w.net.listeners),
                           "router_port": router.tcp_server_port})

        if life["mode"] == "hooks":
            for meth in ("start", "start_tcp_server", "start_udp_responder", "stop"):
                orig = getattr(router, meth)

                def wrapped(*a, _o=orig, _m=meth, **k):
                    probe("before:" + _m)
                    try:
                        return _o(*a, **k)
                    finally:
                        probe("after:" + _m)
                setattr(router, meth, wrapped)
            ctx.start()
            final = {"port": router.tcp_server_port, "listening": sorted(w.net.listeners)}
            probe("running")
            ctx.stop()
            probe("stopped")
        else:
            done = [False]

            def pinger():
                for i in range(life.get("pings", 40)):
                    if done[0]:
                        break
                    probe(f"ping{i}", wait=False)
            th = w.spawn(pinger, "pinger")
            ctx.start()
            final = {"port": router.tcp_server_port, "listening": sorted(w.net.listeners)}
            probe("running")
            ctx.stop()
            done[0] = True
            w.sched.yield_point("c18.join", blocked_on=lambda: not th.is_alive() if hasattr(th, "is_alive") else True, timeout=1.0)
        answers = [(hx(b), a) for b, a in cli.dgrams]
        return {"events": events, "final": final, "answers": answers, "pid": _os.getpid()}

    out = run_scenario(f"c18:{life['seed']}", body, cleanup=True, max_steps=60000)
    info = {"deadlock": out.deadlock, "budget": out.budget, "error": repr(out.error) if out.error else None,
            "loop_exceptions": [type(e).__name__ for e in (out.net.loop_exceptions if out.net else [])], "value": out.value}
    return info


def oracle_lifecycle(lay: Layout, life: dict, info):
    """an answer given at any moment of the context's life carries the context's final name, workgroup, pid and the TCP port
    it actually listens on; once start() has returned a matching request is answered"""
    if info["deadlock"] or info["budget"] or info["error"] or info["value"] is None:
        return ("lifecycle:scenario-did-not-complete", f"{info['deadlock'] or info['error'] or 'step budget'}", 0)
    v = info["value"]
    by_rid = {e["rid"]: e for e in v["events"]}
    final_port = v["final"]["port"]
    seen = set()
    for hexdata, _a in v["answers"]:
        b = unhx(hexdata)
        if len(b) != lay.resp_size:
            return ("lifecycle:answer-malformed", hexdata[:80], 0)
        r = o_split(lay.resp_sizes, b)
        ev = by_rid.get(int.from_bytes(r[4], "little"))
        if ev is None:
            return ("lifecycle:answer-to-no-request", hexdata[:80], 0)
        seen.add(ev["rid"])
        where = ev["label"] if not ev["label"].startswith("ping") else "concurrent-request"
        if sint(r[9]) != final_port or (final_port != 0 and final_port not in v["final"]["listening"]):
            return (f"lifecycle:answer-carries-tcp-port-the-context-does-not-listen-on:{where}",
                    f"request at '{ev['label']}' answered with port {sint(r[9])}; the context listens on {final_port} "
                    f"(router field at that moment: {ev['router_port']})", 0)
        if cval(r[7]) != life["name"].encode() or cval(r[8]) != life["wg"].encode() or sint(r[6]) != v["pid"]:
            return (f"lifecycle:answer-carries-wrong-identity:{where}", f"{r[7]!r} {r[8]!r} pid {sint(r[6])}", 0)
    running = [e for e in v["events"] if e["label"] == "running"]
    if not running or running[0]["rid"] not in seen:
        return ("lifecycle:no-answer-from-a-started-context", "", 0)
    stopped = [e for e in v["events"] if e["label"] in ("stopped", "after:stop")]
    if any(e["rid"] in seen for e in stopped):
        return ("lifecycle:answer-from-a-stopped-context", "", 0)
    return None


def lifecycle_cases(rng, n_race: int) -> list:
    out = []
    for name, wg, tcp in (("ctxA", "grp", 0), ("node-1", "é" * 32, 5151), ("n", "default", None), ("A" * 63, "w" * 64, 0)):
        out.append({"name": name, "wg": wg, "tcp": tcp, "mode": "hooks", "seed": 0})
    for i in range(n_race):
        out.append({"name": "ctx%d" % i, "wg": rng.choice(["grp", "default", "lab_7"]), "tcp": rng.choice([0, 0, 6000 + i, None]),
                    "mode": "race", "seed": rng.randrange(10 ** 9), "pings": rng.choice([10, 40, 80])})
    return out


def oracle_client(lay: Layout, c: dict, info) -> tuple | None:
    """`reports only answers to its own request and never the asking context itself` (+ what it asks is what it was told to)"""
    import fnmatch
    wgf = c["wg_cfg"] if c["wgf"] is None else c["wgf"]
    if not info["sent"]:
        fits = (len(cval(wgf.encode())) <= lay.wgFilterLen and len(cval(c["cnf"].encode())) <= lay.ctxFilterLen)
        return ("client:no-request-sent", f"filters {wgf!r} {c['cnf']!r}: {info['exc']}", 0) if fits else None
    req = info["sent"][0][0]
    if o_classify(lay, req) != "info-request":
        return ("client:request-malformed", hx(req)[:80], 0)
    f = o_split(lay.req_sizes, req)
    if cval(f[4]) != cval(wgf.encode()) or cval(f[5]) != cval(c["cnf"].encode()):
        return ("client:request-carries-wrong-filters", f"{f[4]!r} {f[5]!r}", 0)
    if len(info["sent"]) != 1:
        return ("client:more-than-one-request", str(len(info["sent"])), 0)
    import qmi.core.context as C
    import socket as _so
    if tuple(info["bcast_to"]) != ("<broadcast>", C.QMI_Context.DEFAULT_UDP_RESPONDER_PORT):
        return ("client:request-not-broadcast-to-the-responder-port", f"sent to {info['bcast_to']}", 0)
    if (_so.SOL_SOCKET, _so.SO_BROADCAST, 1) not in info["sockopts"]:
        return ("client:socket-not-enabled-for-broadcast", f"{info['sockopts']}", 0)
    own_id = int.from_bytes(f[2], "little")
    expected, undec = [], False
    for b, a in info["delivered"]:
        b = b[:lay.clientRecvMax]
        if len(b) == lay.resp_size and int.from_bytes(b[:lay.magicSz], "little") == lay.magic \
                and int.from_bytes(b[lay.magicSz:lay.magicSz + lay.tagSz], "little") == lay.tagInfoResponse:
            r = o_split(lay.resp_sizes, b)
            if int.from_bytes(r[4], "little") != own_id:
                continue
            try:
                nm = cval(r[7]).decode("utf-8")
            except UnicodeDecodeError:
                undec = True
                break
            if nm != c["self"]:
                expected.append((nm, f"{a[0]}:{sint(r[9])}"))
    if undec:
        return None        # an answer to our own id whose name is not text: the property does not say
    if info["exc"] is not None:
        return ("client:raised", info["exc"], 0)
    got = [tuple(e) for e in info["result"]]
    if got != expected:
        if any(e[0] == c["self"] for e in got):
            return ("client:reported-the-asking-context", f"{got}", 0)
        if [e[0] for e in got] == [e[0] for e in expected]:
            return ("client:address-or-port-differs", f"got {got}, expected {expected}", 0)
        extra = [e for e in got if e not in expected]
        if extra:
            return ("client:reported-answer-not-to-own-request", f"{extra} (expected {expected})", 0)
        return ("client:missed-or-reordered-answers", f"got {got}, expected {expected}", 0)
    # end-to-end: with in-memory responders and no forged datagrams the list is exactly the matching others
    if c.get("responders") and not c["dgrams"]:
        want = []
        for r in c["responders"]:
            if not workgroup_admitted(r["wg"]) or "\0" in r["name"] or len(r["name"].encode()) > lay.nameLen:
                continue
            try:
                fw, fc = cval(f[4]).decode(), cval(f[5]).decode()
            except UnicodeDecodeError:
                return None
            if fnmatch.fnmatchcase(r["wg"], fw) and fnmatch.fnmatchcase(r["name"], fc) and r["name"] != c["self"]:
                want.append((r["name"], f"{addr_of(r['addr'])[0]}:{r['port']}"))
        skip = any(not workgroup_admitted(r["wg"]) or "\0" in r["name"] or len(r["name"].encode()) > lay.nameLen
                   for r in c["responders"])
        if not skip and got != want:
            return ("discovery:end-to-end-list-differs", f"got {got}, want {want}", 0)
    return None


# ---------------------------------------------------------------------------
# generators
# ---------------------------------------------------------------------------

VALID_CH = "abcABC019-_()"
NEWLINE_NAME_RATE = 0.04      # "abc\n" passes is_valid_object_name
GLOB_CH = "*?[]!-^\\"
WIDE_CH = ["é", "ß", "Ω", "€", "你", "😀", "\x7f", "\n", " ", "Z", "z", "a", "b"]


def gen_name(rng, kind=None) -> str:
    """a context / workgroup name"""
    k = kind or rng.choices(["valid", "short", "globby", "wide", "long"], [45, 15, 15, 15, 10])[0]
    if k == "valid":
        return "".join(rng.choice(VALID_CH) for _ in range(rng.randint(1, 9))) + ("\n" if rng.random() < NEWLINE_NAME_RATE else "")
    if k == "short":
        return "".join(rng.choice("abc") for _ in range(rng.randint(0, 3)))
    if k == "globby":
        return "".join(rng.choice("ab" + GLOB_CH) for _ in range(rng.randint(1, 6)))
    if k == "wide":
        return "".join(rng.choice(WIDE_CH) for _ in range(rng.randint(1, 7)))
    n = rng.choice([60, 62, 63, 63, 64, 64])
    s = "".join(rng.choice("abcxyz_") for _ in range(n))
    if rng.random() < 0.3:       # multi-byte characters up to exactly the field size
        w = rng.choice(["é", "€", "😀"])
        m = n // len(w.encode())
        s = w * m + "a" * (n - m * len(w.encode()))
    return s


def gen_set(rng, c: str) -> str:
    """a bracket expression built around character `c` (may or may not contain it; degenerate forms included)"""
    o = ord(c)
    lo = chr(max(1, o - rng.randint(0, 3)))
    hi = chr(min(0x10FFFF, o + rng.randint(0, 3)))
    if 0xD800 <= ord(lo) <= 0xDFFF or 0xD800 <= ord(hi) <= 0xDFFF:
        lo = hi = c
    other = rng.choice("abxyz09_")
    forms = [c, c + other, other + c, f"{lo}-{hi}", f"{hi}-{lo}", f"{other}{lo}-{hi}", f"{lo}-{hi}{other}", f"{lo}-{c}-{hi}",
             other, f"{c}-", f"-{c}", f"]{c}", f"{c}[", f"^{c}", f"\\{c}", f"{lo}-{hi}-", f"]-{c}", f"{c}-]", f"--{c}", f"{c}--",
             f"{other}-{lo}{hi}-{other}", f"{hi}-{lo}{c}", f"{c}{hi}-{lo}", f"a-!!{c}", "", "!", "]", "-", "--", "---", f"{c}&&{other}",
             f"{c}~~", f"||{c}"]
    body = rng.choice(forms)
    neg = "!" if rng.random() < 0.35 else ""
    close = "]" if rng.random() < 0.93 else ""
    return "[" + neg + body + close


def pat_from(rng, s: str) -> str:
    """a pattern that probably matches `s`"""
    out, i = [], 0
    if rng.random() < 0.15:
        out.append("*")
    while i < len(s):
        c, r = s[i], rng.random()
        if r < 0.45:
            out.append(c if c not in "*?[" else rng.choice(["?", "[" + c + "]"]))
        elif r < 0.58:
            out.append("?")
        elif r < 0.72:
            out.append("*" * rng.choice([1, 1, 1, 2]))
            i += rng.randint(0, 3)
        else:
            out.append(gen_set(rng, c))
        i += 1
    if rng.random() < 0.2:
        out.append(rng.choice(["*", "?", "**", "[", "[!", "[]", "[a", "x"]))
    return "".join(out)


def perturb(rng, s: str) -> str:
    if not s:
        return rng.choice(["", "a", "*"])
    i = rng.randrange(len(s))
    r = rng.random()
    if r < 0.3:
        return s[:i] + s[i + 1:]
    if r < 0.55:
        return s[:i] + rng.choice("abz_[é") + s[i:]
    if r < 0.8:
        return s[:i] + (s[i].swapcase() if s[i].swapcase() != s[i] else "q") + s[i + 1:]
    return s + rng.choice("ab*")


def gen_pair(rng) -> tuple[str, str]:
    """(pattern, name)"""
    r = rng.random()
    if r < 0.6:
        name = gen_name(rng)
        pat = pat_from(rng, name)
        if rng.random() < 0.3:
            name = perturb(rng, name)
        return pat, name
    if r < 0.85:
        al = rng.choice(["ab*?", "ab[]!-", "a*", "ab*?[]!-^\\", "aé€*?[]-"])
        return ("".join(rng.choice(al) for _ in range(rng.randint(0, 8))),
                "".join(rng.choice("ab" + al[:2]) for _ in range(rng.randint(0, 6))))
    if r < 0.93:                 # literal / case
        name = gen_name(rng)
        return rng.choice([name, name.upper(), name.lower(), name.swapcase(), name + "*", "*" + name[1:]]), name
    name = "".join(rng.choice("ab") for _ in range(rng.randint(20, 60)))
    k = rng.randint(2, 12)       # many stars: the backtracking case
    pat = "*".join(rng.choice(["a", "b", "ab", "?", ""]) for _ in range(k)) + rng.choice(["", "*", "c"])
    return pat, name


def fits_filter(lay: Layout, p: str) -> bool:
    b = p.encode("utf-8")
    return len(b) <= min(lay.wgFilterLen, lay.ctxFilterLen) and b"\0" not in b


def rand_ts(rng) -> str:
    r = rng.random()
    if r < 0.6:
        return hx(struct.pack("<d", rng.uniform(0, 2e9)))
    if r < 0.8:
        return hx(bytes(rng.randrange(256) for _ in range(8)))
    return hx(struct.pack("<Q", rng.choice([0, 1 << 63, 0x7ff0000000000000, 0xfff0000000000000, 0x7ff8000000000000,
                                            0x7ff0000000000001, 0xfff7ffffffffffff, 1, 0x000fffffffffffff, 0x7fefffffffffffff])))


def rand_now(rng) -> str:
    return hx(struct.pack("<d", rng.uniform(1.5e9, 1.9e9)))


def rand_id(rng, lay: Layout) -> int:
    top = 256 ** lay.idSz
    return rng.choice([0, 1, 2, 255, 256, 2 ** 32 - 1, 2 ** 32, 2 ** 63 - 1, 2 ** 63, top - 2, top - 1]) if rng.random() < 0.3 \
        else rng.randrange(top)


def gen_junk(rng, lay: Layout, valid: bytes) -> tuple[str, bytes]:
    k = rng.choices(["trunc", "extend", "magic", "tag", "random", "resp", "hdronly", "empty", "oversize", "swapped"],
                    [18, 12, 14, 18, 18, 6, 4, 2, 4, 4])[0]
    if k == "trunc":
        return k, valid[:rng.randrange(len(valid))]
    if k == "extend":
        if rng.random() < 0.3:
            return k, valid + rng.choice([valid, valid[:lay.hdr_size], valid * rng.randint(2, 30)])
        return k, valid + bytes(rng.randrange(256) for _ in range(rng.choice([1, 1, 2, 24, 150])))
    if k == "magic":
        b = bytearray(valid)
        i = rng.randrange(lay.magicSz)
        b[i] ^= 1 << rng.randrange(8)
        return k, bytes(b)
    if k == "tag":
        tag = rng.choice(lay.enumTags + [t + d for t in lay.enumTags for d in (-1, 1)] + [0, 1, 255, 256, 0xffff, 0x0102, 0x0201 >> 1]) \
            if rng.random() < 0.7 else rng.randrange(256 ** lay.tagSz)
        if tag == lay.tagInfoRequest:
            tag = lay.tagInfoResponse
        size = rng.choice([lay.req_size, lay.hdr_size, lay.resp_size, len(valid)])
        if tag == lay.tagKillRequest and size == lay.hdr_size:
            size = lay.req_size
        body = (valid + bytes(lay.resp_size))[:size]
        return k, body[:lay.magicSz] + le(lay.tagSz, tag) + body[lay.magicSz + lay.tagSz:]
    if k == "random":
        n = rng.choice([1, 2, lay.hdr_size - 1, lay.hdr_size, lay.hdr_size + 1, lay.req_size - 1, lay.req_size, lay.req_size + 1,
                        lay.resp_size, rng.randrange(1, 400)])
        b = bytes(rng.randrange(256) for _ in range(n))
        if rng.random() < 0.5 and n >= lay.magicSz:
            b = le(lay.magicSz, lay.magic) + b[lay.magicSz:]
        return k, b
    if k == "resp":
        return k, o_response(lay, rng.randrange(1, 2 ** 64), unhx(rand_ts(rng)), rand_id(rng, lay), unhx(rand_ts(rng)),
                             rng.randrange(1, 99999), b"other", b"wg", rng.randrange(65536))
    if k == "hdronly":
        return k, valid[:lay.hdr_size]
    if k == "empty":
        return k, b""
    if k == "oversize":
        n = rng.choice([lay.responderRecvMax - lay.req_size, lay.responderRecvMax - lay.req_size + 1, 4096 - lay.req_size, 4097 - lay.req_size,
                        5000, 65507 - lay.req_size])
        return k, valid + bytes(max(1, n))
    # valid fields, big-endian header
    return k, valid[:lay.magicSz][::-1] + valid[lay.magicSz:lay.magicSz + lay.tagSz][::-1] + valid[lay.magicSz + lay.tagSz:]


def gen_filter_for(rng, target: str) -> str:
    r = rng.random()
    if r < 0.25:
        return "*"
    if r < 0.4:
        return target
    p = pat_from(rng, target)
    if rng.random() < 0.25:
        p = perturb(rng, p)
    return p


def gen_session(rng, lay: Layout, n: int) -> tuple[dict, list]:
    name = gen_name(rng, rng.choices(["valid", "short", "globby", "wide", "long"], [60, 8, 10, 10, 12])[0])
    if not name or len(name.encode()) > lay.nameLen:
        name = "ctx1"
    wg = gen_name(rng)
    pid = rng.choice([1, 4242, 2 ** 22, 2 ** 31 - 1, 0]) if rng.random() < 0.2 else rng.randrange(1, 4194304)
    port = rng.choice([0, 1, 65535, 35999, -1, 2 ** 31 - 1, -2 ** 31]) if rng.random() < 0.25 else rng.randrange(1024, 65536)
    s = {"name": name, "wg": wg, "pid": pid, "port": port, "dgrams": []}
    kinds = []
    for j in range(n):
        r = rng.random()
        f_wg, f_cn = gen_filter_for(rng, wg), gen_filter_for(rng, name)
        if not fits_filter(lay, f_wg):
            f_wg = "*"
        if not fits_filter(lay, f_cn):
            f_cn = "*"
        valid = o_request(lay, rand_id(rng, lay), unhx(rand_ts(rng)), f_wg.encode(), f_cn.encode())
        d = {"addr": rng.randrange(0, 4000), "rid": rng.randrange(1, 2 ** 64), "now": rand_now(rng)}
        if r < 0.45:
            kind, data = "request", valid
        elif r < 0.5:
            kind = "request-nul"       # bytes after a NUL inside a filter field are not part of the filter
            b = bytearray(valid)
            fo = lay.hdr_size + rng.choice([0, lay.wgFilterLen])
            pos = fo + rng.randrange(0, lay.wgFilterLen)
            b[pos] = 0
            for q in range(pos + 1, fo + lay.wgFilterLen):
                b[q] = rng.randrange(256)
            data = bytes(b)
        elif r < 0.56:
            kind = "request-badutf8"
            b = bytearray(valid)
            fo = lay.hdr_size + rng.choice([0, lay.wgFilterLen])
            bad = rng.choice([b"\xff", b"\xc0\xaf", b"\xed\xa0\x80", b"\xf4\x90\x80\x80", b"\xe2\x82", b"\x80", b"\xc3", b"\xf0\x9f\x98"])
            pos = fo + rng.randrange(0, 3)
            b[pos:pos + len(bad)] = bad
            if rng.random() < 0.5:
                b[pos + len(bad)] = 0
            data = bytes(b)
        elif r < 0.58:
            kind, data = "nopkt", None
        else:
            kind, data = gen_junk(rng, lay, valid)
        kinds.append(kind)
        if data is None:
            s["dgrams"].append({"nopkt": 1})
        else:
            d["data"] = hx(data)
            s["dgrams"].append(d)
    if rng.random() < 0.04:
        s["dgrams"].append({"addr": 1, "data": hx(o_kill(lay, rand_id(rng, lay), unhx(rand_ts(rng)))), "rid": 1, "now": rand_now(rng)})
        kinds.append("kill")
    return s, kinds


def gen_client(rng, lay: Layout) -> dict:
    me = gen_name(rng, rng.choice(["valid", "valid", "short", "wide"])) or "me"
    wg_cfg = gen_name(rng, rng.choice(["valid", "wide", "globby"])) or "default"
    rid = rng.randrange(1, 2 ** 64)
    c = {"self": me, "wg_cfg": wg_cfg, "wgf": None if rng.random() < 0.3 else gen_filter_for(rng, wg_cfg),
         "cnf": "*" if rng.random() < 0.5 else gen_filter_for(rng, me), "rid": rid, "now": rand_now(rng),
         "dgrams": [], "responders": [], "real_ctx": False}
    if rng.random() < 0.08:
        c["cnf"] = "x" * rng.choice([64, 65, 70])       # at / over the filter field
    names = [me, me, me.upper(), me + "2", "other", gen_name(rng, "valid"), gen_name(rng, "wide"), gen_name(rng, "long")]
    for j in range(rng.randint(0, 10)):
        r = rng.random()
        nm = rng.choice(names).encode()[:lay.nameLen]
        port = rng.choice([0, 1, 65535, -1]) if rng.random() < 0.2 else rng.randrange(1024, 65536)
        other_id = rng.choice([rid ^ 1, rid ^ (1 << 63), (rid + 1) % 2 ** 64, int.from_bytes(le(8, rid)[::-1], "little"), rng.randrange(2 ** 64), 0])
        good = o_response(lay, rng.randrange(1, 2 ** 64), unhx(rand_now(rng)), rid, unhx(c["now"]), rng.randrange(1, 99999), nm, b"wg", port)
        if r < 0.4:
            data = good
        elif r < 0.62:
            data = o_response(lay, rng.randrange(1, 2 ** 64), unhx(rand_now(rng)), other_id, unhx(c["now"]), 5, nm, b"wg", port)
        elif r < 0.7:
            data = good[:rng.randrange(len(good))]
        elif r < 0.76:
            data = good + bytes(rng.choice([1, 4, lay.clientRecvMax]))
        elif r < 0.82:
            data = o_request(lay, rid, unhx(c["now"]), b"*", b"*")
        elif r < 0.86:
            data = o_kill(lay, rid, unhx(c["now"]))
        elif r < 0.92:
            data = gen_junk(rng, lay, good)[1]
        elif r < 0.96:
            bad = bytearray(good)
            off = lay.hdr_size + lay.respReqIdSz + lay.respReqTsSz + lay.pidSz
            bad[off:off + 2] = b"\xff\xfe"
            data = bytes(bad) if rng.random() < 0.3 else bytes(bad).replace(le(lay.respReqIdSz, rid), le(lay.respReqIdSz, other_id), 1)
        else:
            full = (rng.choice(["é", "a"]) * lay.nameLen).encode()[:lay.nameLen]     # 64 bytes, no NUL
            data = o_response(lay, 9, unhx(rand_now(rng)), rid, unhx(c["now"]), 5, full, b"w" * lay.wgLen, port)
        c["dgrams"].append({"addr": rng.randrange(0, 4000), "data": hx(data)})
    if rng.random() < 0.6:
        for j in range(rng.randint(1, 5)):
            nm = rng.choice([me, me, "peer%d" % j, gen_name(rng, "valid"), me.swapcase()]) or "p"
            c["responders"].append({"name": nm, "wg": rng.choice([wg_cfg, wg_cfg, gen_name(rng, "valid") or "w"]),
                                    "pid": rng.randrange(1, 99999), "port": rng.randrange(1024, 65536), "addr": 4000 + j,
                                    "rid": rng.randrange(1, 2 ** 64)})
        if rng.random() < 0.5:
            c["dgrams"] = []
    c["answers_at"] = rng.randint(0, len(c["dgrams"]))
    return c


# ---------------------------------------------------------------------------
# systematic families (run on every check, and more deeply by `search`)
# ---------------------------------------------------------------------------

def sys_sessions(rng, lay: Layout, deep: bool) -> list:
    """deterministic boundary sessions: every truncation, tag values, name lengths, id / timestamp / pid / port boundaries"""
    S = []
    ts0 = hx(struct.pack("<d", 1.7e9))

    def dg(data, k=3, rid=77):
        return {"addr": k, "data": hx(data), "rid": rid, "now": ts0}

    base = {"name": "ctxA", "wg": "grp", "pid": 4321, "port": 40001}
    good = o_request(lay, 0x1122334455667788, unhx(ts0), b"g*", b"ctx?")
    # 1. every truncation, then every short extension, each followed by the intact request
    S.append({**base, "dgrams": [dg(good[:n]) for n in range(len(good))] + [dg(good)], "tag": "truncations"})
    ext = list(range(1, 40 if deep else 12)) + [abs(lay.resp_size - lay.req_size) + 1, lay.responderRecvMax - lay.req_size - 1,
                                                lay.responderRecvMax - lay.req_size, lay.responderRecvMax - lay.req_size + 1, 3 * lay.responderRecvMax]
    ext += [lay.req_size, 4096 - lay.req_size, 4097 - lay.req_size, 8192 - lay.req_size, 65507 - lay.req_size]
    ext = sorted({n for n in ext if n > 0})
    S.append({**base, "dgrams": [dg(good + bytes(n)) for n in ext] + [dg(good)], "tag": "extensions"})
    # a request followed by another request / by a kill request / by a response / by itself many times, and near-miss lengths
    kill0 = o_kill(lay, 1, unhx(ts0))
    resp0 = o_response(lay, 9, unhx(ts0), 7, unhx(ts0), 5, b"x", b"y", 1)
    tails = [good, kill0, resp0, good * 3, good * 27, b"\xff", good[:1], good[:lay.hdr_size]]
    S.append({**base, "dgrams": [dg(good + t) for t in tails] + [dg(kill0 + good), dg(resp0 + good), dg(resp0[:lay.req_size]), dg(good + resp0[lay.req_size:])]
              + [dg(good)], "tag": "request-plus-more"})
    S.append({**base, "dgrams": [dg((good * 500)[:n]) for n in (lay.req_size - 1, lay.req_size + 1, lay.resp_size, lay.resp_size + 1, 2 * lay.req_size,
                                                                    4095, 4096, 4097, 8192, 65507)] + [dg(good)], "tag": "near-miss-lengths"})
    # 2. type tags: all small values and everything around the defined ones (all 65536 when deep)
    top = 2 ** (8 * lay.tagSz)
    if deep:
        tags = list(range(top))
    else:
        tags = sorted(set(t for t in (list(range(0, 600)) + [t + d for t in lay.enumTags for d in range(-3, 4)] +
                                      [0x7fff, 0x8000, 0xfffe, 0xffff, 0x0102, 0x0202, 0x0301, 0x2010, 0x1010] +
                                      [rng.randrange(top) for _ in range(300)]) if 0 <= t < top))
    for size in (lay.req_size, lay.hdr_size, lay.resp_size):
        body = (good + bytes(lay.resp_size))[:size]
        chunk = []
        for t in tags:
            if t == lay.tagKillRequest and size == lay.hdr_size:
                continue
            chunk.append(dg(body[:lay.magicSz] + le(lay.tagSz, t) + body[lay.magicSz + lay.tagSz:]))
            if len(chunk) == 2048:
                S.append({**base, "dgrams": chunk + [dg(good)], "tag": f"tags/{size}"})
                chunk = []
        S.append({**base, "dgrams": chunk + [dg(good)], "tag": f"tags/{size}"})
    # 3. magic: every single-bit error
    S.append({**base, "dgrams": [dg(bytes(b ^ ((1 << (i % 8)) if i // 8 == j else 0) for j, b in enumerate(good)))
                                 for i in range(8 * lay.magicSz)] + [dg(good)], "tag": "magic-bits"})
    # 4. name / workgroup lengths around the field size, literal and wildcard filters
    for n in [0, 1, 2, lay.nameLen - 2, lay.nameLen - 1, lay.nameLen]:
        for ch in ("a", "é"):
            w = len(ch.encode())
            nm = ch * (n // w) + "a" * (n % w)
            for role in ("name", "wg"):
                s = dict(base)
                s[role] = nm
                if role == "name" and not nm:
                    continue
                flts = [nm, "*", "?" * len(nm), nm[:-1] + "?" if nm else "*", nm + "?"]
                s["dgrams"] = [dg(o_request(lay, 5, unhx(ts0), (f if role == "wg" else "*").encode(), (f if role == "name" else "*").encode()))
                               for f in flts if len(f.encode()) <= lay.wgFilterLen]
                s["tag"] = f"len/{role}/{n}"
                S.append(s)
    # 5. the request id and timestamp: every single bit, all-ones, zero
    ids = [0, 256 ** lay.idSz - 1] + [1 << i for i in range(8 * lay.idSz)]
    S.append({**base, "dgrams": [dg(o_request(lay, i, unhx(ts0), b"*", b"*")) for i in ids], "tag": "id-bits"})
    tss = [bytes(lay.tsSz), b"\xff" * lay.tsSz] + [le(lay.tsSz, 1 << i) for i in range(8 * lay.tsSz)] + \
          [le(lay.tsSz, v) for v in (0x7ff0000000000001, 0x7ff8000000000000, 0xfff0000000000000, 0x7ff4000000000000)]
    S.append({**base, "dgrams": [dg(o_request(lay, 9, t, b"*", b"*")) for t in tss], "tag": "timestamp-bits"})
    # 6. pid / port
    for pid, port in [(1, 0), (2 ** 31 - 1, 65535), (4194304, 1), (77, -1), (0, 35999), (2 ** 31, 2 ** 31 - 1), (-5, -2 ** 31), (2 ** 32 + 9, 2 ** 32 + 80)]:
        S.append({**base, "pid": pid, "port": port, "dgrams": [dg(good)], "tag": "pid-port"})
    # 7. names the packet format cannot carry: since fix eeba404 no context can have them (QMI_Context.__init__ refuses);
    #    the responder alone still behaves as the model says, and the oracle would flag them again if a context could exist
    S.append({**base, "wg": "w" * (lay.wgLen + 1), "dgrams": [dg(o_request(lay, 5, unhx(ts0), b"*", b"*")), dg(o_request(lay, 6, unhx(ts0), b"x", b"*"))],
              "tag": "workgroup-too-long"})
    S.append({**base, "wg": "é" * (lay.wgLen // 2) + "a", "dgrams": [dg(o_request(lay, 5, unhx(ts0), b"*", b"*"))], "tag": "workgroup-too-long"})
    S.append({**base, "wg": "ab\0cd", "dgrams": [dg(o_request(lay, 5, unhx(ts0), b"ab*", b"*"))], "tag": "workgroup-nul"})
    # 9. a context name that ends in a newline is a valid object name (`$` of is_valid_object_name): it is matched and
    #    echoed like any other character; related names (prefix, suffix, case) must not be confused
    for nm in ("ctxA\n", "ctxA", "ctxa", "ctxAB", "ctx"):
        flts = ["ctxA", "ctxA?", "ctxA\n", "ctxA*", "ctxA[\n]", "*\n", "ctx?", "CTXA", "ctxA[!\n]", "?txA", "ctxA\n*", "*"]
        S.append({**base, "name": nm, "dgrams": [dg(o_request(lay, 7, unhx(ts0), b"*", f.encode())) for f in flts], "tag": "related-names"})
        S.append({**base, "wg": nm, "dgrams": [dg(o_request(lay, 7, unhx(ts0), f.encode(), b"*")) for f in flts], "tag": "related-names"})
    # 10. the same datagram twice, a request between two copies of junk, responder reused for a long history
    S.append({**base, "dgrams": [dg(good), dg(good), dg(good[:-1]), dg(good), dg(good[:-1]), dg(good, k=9), dg(good, k=9)], "tag": "repeats"})
    # 8b. everything one bit away from a kill request, and the kill header on datagrams of other sizes: only the ones that
    #     still are well-formed kill requests (bit in id / timestamp) may kill; after each, an intact request
    kill = o_kill(lay, 0x0102030405060708, unhx(ts0))
    for i in range(8 * len(kill)):
        flipped = bytes(b ^ ((1 << (i % 8)) if i // 8 == j else 0) for j, b in enumerate(kill))
        S.append({**base, "dgrams": [dg(flipped), dg(good)], "tag": "kill-lookalike"})
    for n in [0, 1, lay.hdr_size - 1, lay.hdr_size + 1, lay.req_size, lay.resp_size, lay.responderRecvMax, lay.responderRecvMax + lay.hdr_size]:
        S.append({**base, "dgrams": [dg((kill + bytes(lay.responderRecvMax + lay.hdr_size))[:n]), dg(good)], "tag": "kill-lookalike"})
    # 8. kill request (well-formed: acted upon; malformed: junk), nothing after it
    S.append({**base, "dgrams": [dg(o_kill(lay, 1, unhx(ts0))[:-1]), dg(o_kill(lay, 1, unhx(ts0)) + b"\0"), dg(good), dg(o_kill(lay, 1, unhx(ts0)))], "tag": "kill"})
    return S


def sys_clients(lay: Layout) -> list:
    """fixed corpus for the asking side: related names, the same answer twice, answers to a previous call, own name variants"""
    out = []
    now = hx(struct.pack("<d", 1.7e9))
    rid = 0x0102030405060708
    for me in ("node1", "node1\n", "n"):
        peers = [me, me[:-1] or "x", me + "0", me.upper(), me.swapcase(), me + "\n", me.rstrip("\n"), " " + me, me, "other"]
        resp = [{"name": nm, "wg": "grp", "pid": 10 + j, "port": 2000 + j, "addr": 100 + j, "rid": 50 + j} for j, nm in enumerate(peers) if nm]
        out.append({"self": me, "wg_cfg": "grp", "wgf": None, "cnf": "*", "rid": rid, "now": now, "dgrams": [], "responders": resp,
                    "real_ctx": False, "answers_at": 0})
        out.append({"self": me, "wg_cfg": "grp", "wgf": "g*", "cnf": me.rstrip("\n") + "*", "rid": rid, "now": now, "dgrams": [], "responders": resp,
                    "real_ctx": False, "answers_at": 0})
    a = lambda i, nm, k: {"addr": k, "data": hx(o_response(lay, 9, unhx(now), i, unhx(now), 5, nm, b"grp", 4000 + k))}
    out.append({"self": "me", "wg_cfg": "grp", "wgf": "*", "cnf": "*", "rid": rid, "now": now, "responders": [], "real_ctx": False,
                "dgrams": [a(rid, b"p1", 1), a(rid, b"p1", 1), a(rid - 1, b"p2", 2), a(rid, b"me", 3), a(rid, b"ME", 4), a(rid, b"me\n", 5),
                           a(rid + 1, b"p3", 6), a(rid, b"p1", 7), a(0, b"p4", 8), a(rid, b"", 9)], "answers_at": 0})
    return out


def sys_glob_pairs(deep: bool):
    """bracket expressions over a small alphabet, exhaustively, against every relevant one- and two-character name"""
    al = ["!", "]", "-", "a", "c", "e", "[", "^", "\\"]
    probes = ["a", "b", "c", "d", "e", "f", "!", "]", "-", "[", "^", "\\", ",", "", "ab", "a]", "c]", "-]", "[a", "]]"]
    for n in range(0, 6 if deep else 5):
        for body in itertools.product(al, repeat=n):
            p = "[" + "".join(body) + "]"
            for nm in probes:
                yield p, nm
    for p in ["[", "[!", "[]", "[!]", "[a", "[a-", "a[", "[[]", "[]]", "[!]]", "[]-]", "[--]", "[!--]", "*[", "[*]", "[?]", "?[", "[a]*", "*[a]*",
              "", "*", "**", "***", "?", "??", "*?", "?*", "a*", "*a", "a*a", "*a*", "a?a", "\\", "\\*", "[\\]", "[\\\\]"]:
        for nm in probes + ["aa", "aaa", "aba", "*", "?", "**", "\\a", "\\\\"]:
            yield p, nm


# ---------------------------------------------------------------------------
# the check
# ---------------------------------------------------------------------------

def _shrink_session(lay: Layout, s: dict, sig: str) -> dict:
    """greedy deletion of datagrams while the same clause stays violated"""
    def bad(t):
        try:
            v = oracle_session(lay, t, run_session_impl(t)[1])
        except Exception:
            return False
        return v is not None and v[0] == sig
    cur = dict(s)
    dl = list(s["dgrams"])
    if len(dl) > 400:      # keep the failing datagram and a little context only
        v = oracle_session(lay, s, run_session_impl(s)[1])
        if v:
            cand = dict(s, dgrams=[dl[v[2]]])
            if bad(cand):
                return cand
    i = 0
    while i < len(dl) and len(dl) > 1:
        cand = dict(cur, dgrams=dl[:i] + dl[i + 1:])
        if bad(cand):
            dl = cand["dgrams"]
        else:
            i += 1
    # shorter datagrams, same clause
    for j, d in enumerate(dl):
        if "data" not in d:
            continue
        raw = unhx(d["data"])
        for k in (lay.req_size + 1, lay.hdr_size + 1, lay.resp_size + 1, len(raw) // 2):
            if 0 < k < len(unhx(dl[j]["data"])):
                cand = dl[:j] + [dict(dl[j], data=hx(raw[:k]))] + dl[j + 1:]
                if bad(dict(cur, dgrams=cand)):
                    dl = cand
                    break
    return dict(cur, dgrams=dl)


def _flat_fields(cls, base=0):
    import ctypes
    out = []
    for c in reversed([k for k in cls.__mro__ if "_fields_" in k.__dict__]):
        for f in c.__dict__["_fields_"]:
            d = getattr(cls, f[0])
            if isinstance(f[1], type) and issubclass(f[1], ctypes.Structure):
                out += _flat_fields(f[1], base + d.offset)
            else:
                out.append((base + d.offset, d.size))
    return out


class C18(Prop):
    id = "C18"
    lean_modules = ["QmiModel.Props.C18"]
    driver = "drv_c18"
    modelled_not_verified = [
        "asyncio: an exception leaving the reader callback (`ValueError` of the enum lookup on an unknown type tag, "
        "`UnicodeDecodeError` of a non-UTF-8 filter, `ValueError` of an over-long name in `create`) is caught by the event loop, which "
        "goes on dispatching — assumed in the model (`step` leaves the state unchanged), exercised here under a real `SelectorEventLoop`",
        "ctypes packing/unpacking (`from_buffer_copy`, `bytes(struct)`, `c_char[N]` get/set, silent integer wrap): modelled by "
        "`splitFields`/`leBytes`/`cstr`/`cwrite`; layout regenerated from the live classes, behaviour diffed on every run",
        "`fnmatch.fnmatchcase` and `re`: re-implemented as `globMatch` (incl. the chunk processing of `fnmatch.translate`), "
        "diffed against CPython on generated and exhaustively enumerated bracket expressions",
        "`bytes.decode()` / `str.encode()` (strict UTF-8): modelled by `utf8Decode`/`utf8Encode`, diffed on generated byte strings",
        "UDP itself, `recvfrom` truncation to the buffer size, `selectors` and `time.monotonic` (a fake socket, a scripted selector and "
        "clock stand in; the receive loop of `ping_qmi_contexts` itself is modelled as `pingLoop` over clock readings and diffed turn by "
        "turn, incl. the deadline tick); that the clock advances between two loop turns is an assumption of `ping_turns_bounded`; "
        "`random.randint`, `time.time`, `os.getpid`, `os._exit` are inputs/effects of the model",
        "context start/stop: the order of the router calls of `QMI_Context.start()` is an obligation regenerated from the AST "
        "(`gen_start_order_ok`); the threads, the socket manager and the event loop behind it are exercised (real code under "
        "harness/detsched + harness/simnet, requests at every router call and concurrently), not modelled",
        "which exceptions can leave `_handle_read`: proved for the model (`escape_classes`), tied to the source by the translator "
        "(try/except structure of the responder methods, `raise` statements of `unpack_qmi_udp_packet`, exception hierarchy) and by an "
        "oracle clause that flags any other class on every run",
        "QMI_Context.__init__ name checks (`is_valid_object_name`, workgroup fits the packet field, no NUL): modelled by "
        "`admitContext` (length limit and character class read from util.py by the translator), diffed against the real constructor",
        "c_double fields are carried as 8 opaque bytes (float → float copies are bit-exact on this platform; checked for every bit)",
    ]
    extra_trusted = [
        "C18: Python 3.12 `fnmatch.fnmatchcase` is taken as the definition of case-sensitive shell-style matching in the oracle",
        "C18: asyncio callback containment (exercised under a real event loop on every run)",
    ]

    # -- translator --------------------------------------------------------
    def translate(self, ctx: Ctx):
        lay, tables = read_layout(strict=True)
        _exception_structure()
        core.write_if_changed(GEN_FILE, render_gen(lay, tables))
        return [GEN_FILE]

    # -- generic batch plumbing -------------------------------------------
    def _flush(self, res: Result, batch: list, stream: str):
        """batch = [(lines, outs, case)]; one driver call; first disagreement per case becomes a Broken"""
        if not batch:
            return
        lines = [l for b in batch for l in b[0]]
        outs = [o for b in batch for o in b[1]]
        model = LeanDriver(self.driver).run(lines)
        res.traces_validated += len(batch)
        if diff_streams(lines, outs, model) is None:
            batch.clear()
            return
        pos, nb = 0, 0
        for ls, os_, case in batch:
            k = diff_streams(ls, os_, model[pos:pos + len(ls)])
            if k is not None and nb < 4 and sum(1 for b in res.broken if b.name == stream) < 6:
                nb += 1
                res.count("model_impl_differences")
                res.broken.append(Broken("correspondence", stream,
                                         f"line {k}: op={ls[k][:300]!r} impl={os_[k][:300]!r} model={model[pos + k][:300]!r}", case=case))
            pos += len(ls)
        batch.clear()

    def _fail_session(self, lay, res: Result, s: dict, v, shrink=True):
        sig = v[0]
        if sum(1 for f in res.failures if f.signature == sig) >= 2:
            return
        small = _shrink_session(lay, s, sig) if shrink else s
        v2 = oracle_session(lay, small, run_session_impl(small)[1]) or v
        res.failures.append(Failure(sig, f"responder name={small['name']!r} workgroup={small['wg']!r} "
                                         f"({len(small['dgrams'])} datagram(s), mode={small.get('mode', 'direct')}): {v2[0]} — {v2[1]}",
                                    {"kind": "session", "session": small}))

    def _do_session(self, lay, res, s, batch, kinds=None, nontrivial=True):
        outs, trace = run_session_impl(s)
        lines = session_lines(s)
        batch.append((lines, outs, {"kind": "session", "session": s if len(s["dgrams"]) <= 64 else dict(s, dgrams=s["dgrams"][:64])}))
        for o in outs[1:]:
            res.count("outcome_" + o.split(" ")[0])
        for k in kinds or []:
            res.count("dgram_" + k)
        res.note_case(("session", s["name"], s["wg"], tuple(d.get("data", "") for d in s["dgrams"][:50])), nontrivial=nontrivial)
        v = oracle_session(lay, s, trace)
        if v:
            self._fail_session(lay, res, s, v)
        return outs, trace

    # -- correspondence ----------------------------------------------------
    def correspondence(self, ctx: Ctx) -> Result:
        import fnmatch
        lay, _ = read_layout()
        rng = ctx.rng
        res = Result(rule="cases: (a) (pattern, name) pairs — pattern derived from the name by replacing characters with ?, *, sets, negated "
                          "sets, ranges, degenerate brackets, plus near-misses, random strings over small alphabets, many-star patterns, "
                          "non-ASCII; each pair goes to Lean globMatch, fnmatch.fnmatchcase and (as a request) the real responder; "
                          "(b) exhaustive bracket bodies over {! ] - a c e [ ^ \\} up to length 4 (5 thorough) × 20 probe names; "
                          "(c) responder sessions = context + datagram list (requests, NUL-cut and non-UTF-8 filters, truncations at every "
                          "length, extensions, oversize, magic bit errors, every tag value region, random bytes, responses, kill) ending in "
                          "valid requests, run on the real _UdpResponder directly and under a real asyncio loop; (d) discovery calls on a fake "
                          "socket with forged/foreign/garbled answers and in-memory responders; (e) (context name, workgroup) pairs at the "
                          "limits of is_valid_object_name and of the 64-byte field given to the real QMI_Context constructor. "
                          "distinct = by content; non-trivial = all.")
        batch: list = []

        # (a) three-way glob diff
        n_pairs = ctx.scale(25000, 300000)
        glob_batch = []
        for i in range(n_pairs):
            pat, name = gen_pair(rng)
            ref = fnmatch.fnmatchcase(name, pat)
            glob_batch.append(([f"glob {shex(pat)} {shex(name)}"], [str(ref).lower()], {"kind": "glob", "pat": pat, "name": name}))
            res.count("glob_pairs")
            res.count("glob_match" if ref else "glob_nomatch")
            if "[" in pat:
                res.count("glob_with_bracket")
            if not pat.isascii() or not name.isascii():
                res.count("glob_non_ascii")
            res.note_case(("glob", pat, name))
            if i < 3:
                res.sample({"pattern": pat, "name": name, "fnmatchcase": ref})
            if fits_filter(lay, pat) and (i % 3 == 0 or ctx.quick is False and i % 2 == 0):
                role = rng.choice(["name", "wg"])
                s = {"name": name if role == "name" else "peer", "wg": name if role == "wg" else "grp", "pid": 100 + i % 50000, "port": 1024 + i % 60000,
                     "dgrams": [{"addr": i % 4000, "rid": rng.randrange(1, 2 ** 64), "now": rand_now(rng),
                                 "data": hx(o_request(lay, rand_id(rng, lay), unhx(rand_ts(rng)),
                                                      (pat if role == "wg" else "*").encode(), (pat if role == "name" else "*").encode()))}]}
                self._do_session(lay, res, s, batch, ["glob-request"])
                res.count("glob_through_responder")
            if len(glob_batch) >= 20000:
                self._flush(res, glob_batch, "globMatch vs fnmatch.fnmatchcase")
            if len(batch) >= 4000:
                self._flush(res, batch, "Discovery.handleRead vs _UdpResponder")
        self._flush(res, glob_batch, "globMatch vs fnmatch.fnmatchcase")
        ctx.log(f"glob pairs done ({n_pairs})")

        # (b) exhaustive bracket expressions
        nb = 0
        for pat, name in sys_glob_pairs(deep=not ctx.quick):
            ref = fnmatch.fnmatchcase(name, pat)
            glob_batch.append(([f"glob {shex(pat)} {shex(name)}"], [str(ref).lower()], {"kind": "glob", "pat": pat, "name": name}))
            nb += 1
            if nb % 97 == 0:
                s = {"name": name or "n", "wg": "grp", "pid": 5, "port": 6,
                     "dgrams": [{"addr": 1, "rid": 3, "now": rand_now(rng), "data": hx(o_request(lay, nb, bytes(lay.tsSz), b"*", pat.encode()))}]}
                if name:
                    self._do_session(lay, res, s, batch, ["glob-request"])
            if len(glob_batch) >= 50000:
                self._flush(res, glob_batch, "globMatch vs fnmatch.fnmatchcase")
        self._flush(res, glob_batch, "globMatch vs fnmatch.fnmatchcase")
        res.count("glob_exhaustive_bracket_cases", nb)
        res.evaluations += nb
        ctx.log(f"bracket sweep done ({nb})")

        # (c) responder sessions: systematic families, then generated ones
        for s in sys_sessions(rng, lay, deep=not ctx.quick):
            tag = s.pop("tag")
            self._do_session(lay, res, s, batch, [f"sys:{tag.split('/')[0]}"] * len(s["dgrams"]))
            if tag in ("truncations", "magic-bits", "kill", "workgroup-too-long", "id-bits", "extensions", "request-plus-more") or (tag == "kill-lookalike" and len(batch) % 7 == 0):
                s2 = dict(s, mode="loop")
                self._do_session(lay, res, s2, batch, ["loop:" + tag] * len(s["dgrams"]))
            if len(batch) >= 200:
                self._flush(res, batch, "Discovery.handleRead vs _UdpResponder")
        for i in range(ctx.scale(5000, 100000)):
            s, kinds = gen_session(rng, lay, rng.randint(1, 14))
            if i % 25 == 0:
                s["mode"] = "loop"
            self._do_session(lay, res, s, batch, kinds)
            if i < 2:
                res.sample({"session": {**s, "dgrams": s["dgrams"][:3]}})
            if len(batch) >= 1500:
                self._flush(res, batch, "Discovery.handleRead vs _UdpResponder")
        self._flush(res, batch, "Discovery.handleRead vs _UdpResponder")
        ctx.log("responder sessions done")

        # (d) the asking side
        from qmi.core.util import is_valid_object_name
        cb: list = []
        for c in sys_clients(lay):
            self._do_client(lay, res, c, cb)
            res.count("client_fixed_corpus")
        for i in range(ctx.scale(5000, 60000)):
            c = gen_client(rng, lay)
            if i % 100 < 3 and is_valid_object_name(c["self"]):      # a real QMI_Context (leaves a daemon thread behind: only a few)
                c["real_ctx"] = True
                res.count("client_calls_on_real_QMI_Context")
            self._do_client(lay, res, c, cb)
            if i < 2:
                res.sample({"client": {**c, "dgrams": c["dgrams"][:2]}})
            if len(cb) >= 1500:
                self._flush(res, cb, "Discovery.discover vs discover_peer_contexts")
        self._flush(res, cb, "Discovery.discover vs discover_peer_contexts")
        ctx.log("discovery calls done")

        # (d2) the collection window: scripted clock and selector
        dflt = lay.defaultTimeoutTicks
        tb: list = []
        timed = sys_timed(lay, dflt) + [gen_timed(rng, lay, dflt) for _ in range(ctx.scale(1500, 15000))]
        for i, c in enumerate(timed):
            self._do_timed(lay, res, c, tb)
            if len(tb) >= 1500:
                self._flush(res, tb, "Discovery.pingLoop vs ping_qmi_contexts")
        self._flush(res, tb, "Discovery.pingLoop vs ping_qmi_contexts")
        ctx.log("collection-window runs done")

        # (d3) requests arriving while a real context starts and stops (deterministic scheduler + simulated network)
        for life in lifecycle_cases(rng, ctx.scale(80, 800)):
            self._do_lifecycle(lay, res, life)
        ctx.log("context life-cycle runs done")

        # (e) which contexts can exist: QMI_Context.__init__ against Discovery.admitContext, and "created => reportable"
        self._admission(ctx, lay, res)

        # (f) pieces: unpack field cutting against the live ctypes offsets; UTF-8 decoding
        self._pieces(ctx, lay, res)
        return res

    def _admission(self, ctx, lay, res, n=None):
        rng = ctx.rng
        ab = []
        fixed = [("ctxA", "w" * lay.wgLen), ("ctxA", "w" * (lay.wgLen + 1)), ("ctxA", "é" * (lay.wgLen // 2)), ("ctxA", "é" * (lay.wgLen // 2) + "a"),
                 ("ctxA", "ab\0cd"), ("ctxA", "\0"), ("ctxA", ""), ("a" * lay.maxObjectNameLen, "grp"), ("a" * (lay.maxObjectNameLen + 1), "grp"),
                 ("a\n", "grp"), ("", "grp")]
        for i in range(n if n is not None else ctx.scale(1500, 15000)):
            name, wg = fixed[i] if i < len(fixed) else gen_admit(rng, lay)
            out = admit_impl(name, wg)
            ab.append(([f"mkctx {shex(name)} {shex(wg)}"], [out], {"kind": "admit", "name": name, "wg": wg}))
            res.count("admit_" + out)
            res.note_case(("admit", name, wg))
            v = oracle_admit(lay, name, wg, out)
            if v and sum(1 for f in res.failures if f.signature == v[0]) < 2:
                res.failures.append(Failure(v[0], f"{v[0]} — {v[1]}", {"kind": "admit", "name": name, "wg": wg}))
        self._flush(res, ab, "Discovery.admitContext vs QMI_Context.__init__")

    def _do_client(self, lay, res, c, cb):
        try:
            lines, outs, info = run_client_impl(lay, c)
        except core_qmi_usage():
            return
        cb.append((lines, outs, {"kind": "client", "client": c}))
        res.note_case(("client", c["self"], c["wgf"], c["cnf"], tuple(d["data"] for d in c["dgrams"]), len(c["responders"])))
        res.count("client_calls")
        res.count("client_result_" + (outs[-1].split(" ")[0] if outs else "?"))
        res.count("client_datagrams_delivered", len(info["delivered"]))
        v = oracle_client(lay, c, info)
        if v and sum(1 for f in res.failures if f.signature == v[0]) < 2:
            c2 = self._shrink_client(lay, c, v[0])
            res.failures.append(Failure(v[0], f"discover_peer_contexts(self={c2['self']!r}, filters={c2['wgf']!r},{c2['cnf']!r}): {v[0]} — {v[1]}",
                                        {"kind": "client", "client": c2}))

    def _do_lifecycle(self, lay, res, life):
        info = run_lifecycle_impl(lay, life)
        res.note_case(("life", life["name"], life["wg"], life["tcp"], life["mode"], life["seed"]))
        res.count("lifecycle_" + life["mode"])
        if info["value"]:
            res.count("lifecycle_requests", len(info["value"]["events"]))
            res.count("lifecycle_answers", len(info["value"]["answers"]))
            for e in info["value"]["events"]:
                if not e["label"].startswith("ping"):
                    res.count("lifecycle_point_" + e["label"])
        v = oracle_lifecycle(lay, life, info)
        if v and sum(1 for f in res.failures if f.signature == v[0]) < 2:
            res.failures.append(Failure(v[0], f"QMI_Context({life['name']!r}, workgroup={life['wg']!r}, tcp_server_port={life['tcp']}) "
                                              f"[{life['mode']}, seed {life['seed']}]: {v[0]} — {v[1]}", {"kind": "life", "life": life}))
        return v

    def _do_timed(self, lay, res, c, tb):
        lines, outs, info = run_timed_impl(lay, c)
        tb.append((lines, outs, {"kind": "timed", "timed": c}))
        res.note_case(("timed", c["mode"], c["t0"], c["timeout"], tuple((u["t"], u.get("data", "")) for u in c["turns"])))
        res.count("window_" + c["mode"])
        res.count("window_turns", len(c["turns"]))
        res.count("window_result_" + outs[0].split(" ")[0])
        if any("data" in u and c["t0"] + c["timeout"] - 1 <= u["t"] <= c["t0"] + c["timeout"] for u in c["turns"]):
            res.count("window_datagram_at_deadline_tick_or_the_one_before")
        v = oracle_timed(lay, c, info)
        if v and sum(1 for f in res.failures if f.signature == v[0]) < 2:
            small = dict(c)
            turns = list(c["turns"])
            i = 0
            while i < len(turns) and len(turns) > 1:      # greedy deletion of turns
                cand = dict(c, turns=turns[:i] + turns[i + 1:])
                try:
                    v2 = oracle_timed(lay, cand, run_timed_impl(lay, cand)[2])
                except Exception:
                    v2 = None
                if v2 and v2[0] == v[0]:
                    turns = cand["turns"]
                else:
                    i += 1
            small["turns"] = turns
            res.failures.append(Failure(v[0], f"{c['mode']} window t0={c['t0']} timeout={c['timeout']} ticks, {len(turns)} turn(s): {v[0]} — {v[1]}",
                                        {"kind": "timed", "timed": small}))

    def _shrink_client(self, lay, c, sig):
        def bad(t):
            try:
                v = oracle_client(lay, t, run_client_impl(lay, t)[2])
            except Exception:
                return False
            return v is not None and v[0] == sig
        cur = dict(c)
        for key in ("dgrams", "responders"):
            i = 0
            while i < len(cur[key]):
                cand = dict(cur, **{key: cur[key][:i] + cur[key][i + 1:]})
                cand["answers_at"] = min(cand.get("answers_at", 0), len(cand["dgrams"]))
                if bad(cand):
                    cur = cand
                else:
                    i += 1
        return cur

    def _pieces(self, ctx, lay, res):
        import qmi.core.udp_responder_packets as P
        rng = ctx.rng
        pb = []
        names = {P.QMI_UdpResponderContextInfoRequestPacket: "info-request", P.QMI_UdpResponderKillRequestPacket: "kill-request",
                 P.QMI_UdpResponderContextInfoResponsePacket: "info-response"}
        for i in range(ctx.scale(3000, 30000)):
            r = rng.random()
            good = o_request(lay, rand_id(rng, lay), unhx(rand_ts(rng)), bytes(rng.randrange(256) for _ in range(rng.randint(0, lay.wgFilterLen))),
                             bytes(rng.randrange(256) for _ in range(rng.randint(0, lay.ctxFilterLen))))
            if r < 0.3:
                data = good
            elif r < 0.45:
                data = o_response(lay, 1, unhx(rand_ts(rng)), rand_id(rng, lay), unhx(rand_ts(rng)), rng.randrange(-2 ** 31, 2 ** 31),
                                  bytes(rng.randrange(256) for _ in range(lay.nameLen)), bytes(rng.randrange(256) for _ in range(rng.randint(0, lay.wgLen))),
                                  rng.randrange(-2 ** 31, 2 ** 31))
            elif r < 0.5:
                data = o_kill(lay, rand_id(rng, lay), unhx(rand_ts(rng)))
            else:
                data = gen_junk(rng, lay, good)[1]
            try:
                p = P.unpack_qmi_udp_packet(data)
                raw = bytes(p)
                out = f"ok {names[type(p)]} " + " ".join(hx(raw[o:o + n]) for o, n in _flat_fields(type(p)))
            except Exception as e:
                out = "exc:" + type(e).__name__
            pb.append(([f"unpack {hx(data)}"], [out], {"kind": "unpack", "data": hx(data)}))
            res.count("unpack_" + out.split(" ")[0] + ("_" + out.split(" ")[1] if out.startswith("ok") else ""))
            res.note_case(("unpack", data))
        self._flush(res, pb, "Discovery.unpack vs unpack_qmi_udp_packet")
        ub = []
        frag = [b"a", b"\x00", b"\x7f", b"\x80", b"\xbf", b"\xc0", b"\xc1", b"\xc2", b"\xdf", b"\xe0", b"\xa0", b"\x9f", b"\xed", b"\xee", b"\xef",
                b"\xf0", b"\x90", b"\x8f", b"\xf4", b"\xf5", b"\xff", "é".encode(), "€".encode(), "😀".encode(), "퟿".encode(),
                "".encode(), "\U0010ffff".encode(), b"\xed\xa0\x80", b"\xed\x9f\xbf", b"\xf4\x8f\xbf\xbf", b"\xf4\x90\x80\x80", b"\xe0\x9f\xbf",
                b"\xe0\xa0\x80", b"\xf0\x8f\xbf\xbf", b"\xf0\x90\x80\x80", b"\xc2\x80", b"\xdf\xbf"]
        for i in range(ctx.scale(6000, 60000)):
            b = b"".join(rng.choice(frag) for _ in range(rng.randint(0, 6))) if rng.random() < 0.8 else bytes(rng.randrange(256) for _ in range(rng.randint(1, 5)))
            try:
                out = "ok " + ",".join(str(ord(ch)) for ch in b.decode("utf-8"))
            except UnicodeDecodeError:
                out = "exc:UnicodeDecodeError"
            ub.append(([f"u8 {hx(b)}"], [out], {"kind": "u8", "data": hx(b)}))
            res.count("utf8_" + out.split(" ")[0])
            res.note_case(("u8", b))
        self._flush(res, ub, "Discovery.utf8Decode vs bytes.decode")

    # -- search / replay ----------------------------------------------------
    def search(self, ctx: Ctx, broken) -> Result:
        import fnmatch
        lay, _ = read_layout()
        res = Result()
        rng = ctx.rng
        for b in broken:
            c = b.case or {}
            if c.get("kind") == "session":
                tr = run_session_impl(c["session"])[1]
                v = oracle_session(lay, c["session"], tr)
                res.note_case(("re", repr(c)[:200]))
                if v:
                    self._fail_session(lay, res, c["session"], v)
            elif c.get("kind") == "client":
                v = oracle_client(lay, c["client"], run_client_impl(lay, c["client"])[2])
                res.note_case(("re", repr(c)[:200]))
                if v:
                    res.failures.append(Failure(v[0], f"{v[0]} — {v[1]}", {"kind": "client", "client": c["client"]}))
            elif c.get("kind") == "life":
                self._do_lifecycle(lay, res, c["life"])
                continue
            elif c.get("kind") == "timed":
                v = oracle_timed(lay, c["timed"], run_timed_impl(lay, c["timed"])[2])
                res.note_case(("re", repr(c)[:200]))
                if v:
                    res.failures.append(Failure(v[0], f"{v[0]} — {v[1]}", {"kind": "timed", "timed": c["timed"]}))
            elif c.get("kind") == "admit":
                v = oracle_admit(lay, c["name"], c["wg"], admit_impl(c["name"], c["wg"]))
                res.note_case(("re", repr(c)[:200]))
                if v:
                    res.failures.append(Failure(v[0], f"{v[0]} — {v[1]}", dict(c)))
            elif c.get("kind") == "glob" and fits_filter(lay, c["pat"]):
                for role in ("name", "wg"):
                    s = {"name": c["name"] if role == "name" else "peer", "wg": c["name"] if role == "wg" else "grp", "pid": 1, "port": 2,
                         "dgrams": [{"addr": 1, "rid": 5, "now": rand_now(rng),
                                     "data": hx(o_request(lay, 5, bytes(lay.tsSz), (c["pat"] if role == "wg" else "*").encode(),
                                                          (c["pat"] if role == "name" else "*").encode()))}]}
                    v = oracle_session(lay, s, run_session_impl(s)[1])
                    res.note_case(("re", role, c["pat"], c["name"]))
                    if v:
                        self._fail_session(lay, res, s, v)
        if res.failures:
            return res
        # systematic sweeps on the implementation alone
        for life in lifecycle_cases(rng, 150):
            self._do_lifecycle(lay, res, life)
        if res.failures:
            return res
        self._admission(ctx, lay, res, n=4000)
        res.broken = []
        if res.failures:
            return res
        for s in sys_sessions(rng, lay, deep=True):
            s.pop("tag")
            for mode in ("direct", "loop") if len(s["dgrams"]) < 300 else ("direct",):
                s2 = dict(s, mode=mode)
                v = oracle_session(lay, s2, run_session_impl(s2)[1])
                res.note_case(("sys", s2["name"], s2["wg"], mode, len(s2["dgrams"]), s2["dgrams"][0].get("data", "")[:60]))
                if v:
                    self._fail_session(lay, res, s2, v)
        # all patterns over {a b * ? [ ] ! -} up to length 4 against all names over {a b} up to length 3, through the responder
        names = ["".join(t) for n in range(1, 4) for t in itertools.product("ab", repeat=n)]
        for n in range(0, 5):
            for t in itertools.product("ab*?[]!-", repeat=n):
                pat = "".join(t)
                for nm in names:
                    for role in ("name", "wg"):
                        s = {"name": nm if role == "name" else "ab", "wg": nm if role == "wg" else "ba", "pid": 1, "port": 2,
                             "dgrams": [{"addr": 1, "rid": 5, "now": hx(struct.pack("<d", 1.0)),
                                         "data": hx(o_request(lay, 5, bytes(lay.tsSz), (pat if role == "wg" else "*").encode(),
                                                              (pat if role == "name" else "*").encode()))}]}
                        v = oracle_session(lay, s, run_session_impl(s)[1])
                        res.note_case(("xg", role, pat, nm))
                        if v:
                            self._fail_session(lay, res, s, v, shrink=False)
                            if len(res.failures) >= 3:
                                return res
        for i in range(3000):
            s, _k = gen_session(rng, lay, rng.randint(1, 10))
            v = oracle_session(lay, s, run_session_impl(s)[1])
            res.note_case(("rs", i))
            if v:
                self._fail_session(lay, res, s, v)
        dflt = lay.defaultTimeoutTicks
        for i, c in enumerate(sys_timed(lay, dflt) + [gen_timed(rng, lay, dflt) for _ in range(3000)]):
            v = oracle_timed(lay, c, run_timed_impl(lay, c)[2])
            res.note_case(("rt", i))
            if v and sum(1 for f in res.failures if f.signature == v[0]) < 2:
                res.failures.append(Failure(v[0], f"{v[0]} — {v[1]}", {"kind": "timed", "timed": c}))
        for i in range(3000):
            c = gen_client(rng, lay)
            v = oracle_client(lay, c, run_client_impl(lay, c)[2])
            res.note_case(("rc", i))
            if v and sum(1 for f in res.failures if f.signature == v[0]) < 2:
                res.failures.append(Failure(v[0], f"{v[0]} — {v[1]}", {"kind": "client", "client": self._shrink_client(lay, c, v[0])}))
        return res

    def replay(self, ctx: Ctx, rp: dict):
        lay, _ = read_layout()
        if rp.get("kind") == "life":
            v = oracle_lifecycle(lay, rp["life"], run_lifecycle_impl(lay, rp["life"]))
        elif rp.get("kind") == "timed":
            v = oracle_timed(lay, rp["timed"], run_timed_impl(lay, rp["timed"])[2])
        elif rp.get("kind") == "admit":
            v = oracle_admit(lay, rp["name"], rp["wg"], admit_impl(rp["name"], rp["wg"]))
        elif rp.get("kind") == "client":
            v = oracle_client(lay, rp["client"], run_client_impl(lay, rp["client"])[2])
        else:
            v = oracle_session(lay, rp["session"], run_session_impl(rp["session"])[1])
        return Failure(v[0], f"{v[0]} — {v[1]}", rp) if v else None


def core_qmi_usage():
    from qmi.core.exceptions import QMI_UsageException
    return QMI_UsageException


PROP = C18()
