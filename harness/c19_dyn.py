"""C19 — dynamic side: discovery of transport-based drivers, recording + fault-injecting transport,
virtual time, I/O budget, watchdog, fault sweep over the real `open()`, history runs and the property oracle.

Nothing here knows about the Lean model; `harness/props/c19.py` puts the two together.
Everything that touches the implementation imports it lazily (after `core.ensure_repo_on_path()`).
"""
from __future__ import annotations

import ast
import functools
import importlib
import inspect
import logging
import pkgutil
import signal
import sys
import textwrap
import threading
import time as _real_time
from dataclasses import dataclass, field
from typing import Any, Callable, Optional

# ---------------------------------------------------------------------------
# guards: I/O budget, watchdog, virtual clock
# ---------------------------------------------------------------------------


class Budget(BaseException):
    """The fake transport was called more often than any sane open() would (a polling loop on junk replies)."""


class Watchdog(BaseException):
    """Real-time limit for one call into the implementation."""


IO_BUDGET = 400
WATCHDOG_S = 20

_ORIG = {k: getattr(_real_time, k) for k in ("sleep", "monotonic", "time", "perf_counter")}


class VirtualTime:
    """`time.sleep/monotonic/time/perf_counter` read a virtual clock while real driver code runs.

    Also replaces names bound by `from time import sleep, time` inside already imported qmi modules."""

    def __init__(self):
        self.now = 1_000_000.0
        self._patched: list = []

    def _sleep(self, d=0.0):
        try:
            self.now += max(float(d), 0.0)
        except (TypeError, ValueError):
            raise
        if self.now > 1_000_000.0 + 1e7:
            raise Budget("virtual clock ran away")

    def _mono(self):
        self.now += 0.003
        if self.now > 1_000_000.0 + 1e7:
            raise Budget("virtual clock ran away")
        return self.now

    def __enter__(self):
        repl = {"sleep": self._sleep, "monotonic": self._mono, "time": self._mono, "perf_counter": self._mono}
        for k, f in repl.items():
            setattr(_real_time, k, f)
        for name, mod in list(sys.modules.items()):
            if mod is None or not name.startswith("qmi."):
                continue
            for attr in ("sleep", "monotonic", "time", "perf_counter"):
                try:
                    cur = mod.__dict__.get(attr)
                except Exception:
                    continue
                if cur is _ORIG[attr]:
                    mod.__dict__[attr] = repl[attr]
                    self._patched.append((mod, attr))
        return self

    def __exit__(self, *a):
        for k, f in _ORIG.items():
            setattr(_real_time, k, f)
        for mod, attr in self._patched:
            mod.__dict__[attr] = _ORIG[attr]
        self._patched.clear()
        return False


class _Alarm:
    """SIGALRM watchdog around one call (main thread only; a no-op elsewhere)."""

    def __init__(self, seconds: int = WATCHDOG_S):
        self.seconds = seconds
        self.active = threading.current_thread() is threading.main_thread() and hasattr(signal, "SIGALRM")

    def _fire(self, signum, frame):
        raise Watchdog(f"call into the implementation exceeded {self.seconds}s real time")

    def __enter__(self):
        if self.active:
            self.old = signal.signal(signal.SIGALRM, self._fire)
            signal.alarm(self.seconds)
        return self

    def __exit__(self, *a):
        if self.active:
            signal.alarm(0)
            signal.signal(signal.SIGALRM, self.old)
        return False


# ---------------------------------------------------------------------------
# fault kinds
# ---------------------------------------------------------------------------

EXC_KINDS = ("timeout", "instr", "os")        # injected as exceptions raised by the k-th transport call
DATA_KINDS = ("junk",)                        # injected as a malformed reply returned by the k-th transport call (reads only)
ALL_FAULTS = EXC_KINDS + DATA_KINDS


def make_exc(kind: str) -> BaseException:
    from qmi.core.exceptions import QMI_TimeoutException, QMI_InstrumentException
    if kind == "timeout":
        return QMI_TimeoutException("C19: injected timeout (device does not answer)")
    if kind == "instr":
        return QMI_InstrumentException("C19: injected instrument error")
    if kind == "os":
        return OSError("C19: injected OS error")
    raise ValueError(kind)


def kind_of_exception(e: BaseException) -> str:
    """Exception → model kind (the classes a handler can distinguish)."""
    from qmi.core.exceptions import (QMI_TimeoutException, QMI_InstrumentException,
                                     QMI_InvalidOperationException)
    if isinstance(e, Budget):
        return "budget"
    if isinstance(e, Watchdog):
        return "watchdog"
    if isinstance(e, QMI_TimeoutException):
        return "timeout"
    if isinstance(e, QMI_InstrumentException):
        return "instr"
    if isinstance(e, QMI_InvalidOperationException):
        return "invalidOp"
    if isinstance(e, OSError):
        return "os"
    if isinstance(e, ValueError):
        return "value"
    if isinstance(e, Exception):
        return "other"
    return "base"


# ---------------------------------------------------------------------------
# the recording, fault-injecting transport
# ---------------------------------------------------------------------------

@dataclass
class Plan:
    """The k-th transport call (1-based, counted over all transports of the instrument, `open` included) is faulty."""
    k: int
    kind: str          # one of ALL_FAULTS

    def key(self):
        return (self.k, self.kind)


@dataclass
class Session:
    """State shared by the transports of one instrument instance."""
    owner_thread: int
    faults: dict = field(default_factory=dict)   # call number (1-based) -> fault kind   (any number of faults)
    fail_first: Any = None                       # (op, k, kind) or None
    op_count: dict = field(default_factory=dict)
    fired_list: list = field(default_factory=list)           # [(attr, op, site, k, kind)] faults injected so far
    n: int = 0                                   # transport calls so far (since last reset)
    calls: list = field(default_factory=list)    # (attr, op, site, outcome)  outcome: 'ok' | 'exc:<kind>' | 'junk' | 'refused'
    fired: Optional[tuple] = None                # (attr, op, site) where the fault was injected
    open_failed_sticky: dict = field(default_factory=dict)  # attr -> kind: the link cannot be opened (the fault persists)
    device_io: int = 0                           # calls that reached the device (link open, accepted by the transport)
    link_opens: dict = field(default_factory=dict)          # attr -> number of successful link openings
    link_closes: dict = field(default_factory=dict)
    tracked_codes: dict = field(default_factory=dict)       # code object -> owner tag (open/close functions being traced)
    script: Any = None                           # Script or None (default replies)
    rx: dict = field(default_factory=dict)       # attr -> bytearray of queued device replies (scripted devices)
    written: list = field(default_factory=list)

    def reset_counters(self, plan=None, fail_first=None):
        """plan: None | Plan | list of Plans;  fail_first: None | (op, k, kind): the first k calls of transport method
        `op` fail with `kind`, the (k+1)-th succeeds (a device that answers only after a while; exercises retry loops)"""
        plans = [] if plan is None else ([plan] if isinstance(plan, Plan) else list(plan))
        self.faults = {p.k: p.kind for p in plans}
        self.fail_first = fail_first
        self.op_count = {}
        self.n = 0
        self.calls = []
        self.fired = None
        self.fired_list = []
        self.open_failed_sticky = {}


def _site(sess: Session):
    """(code, lineno) of the innermost traced open()/close() frame on the stack, i.e. the statement that is executing."""
    f = sys._getframe(2)
    while f is not None:
        if f.f_code in sess.tracked_codes:
            return (f.f_code, f.f_lineno)
        f = f.f_back
    return None


def make_fake_transport_class():
    from qmi.core.transport import QMI_Transport
    from qmi.core.exceptions import QMI_InvalidOperationException

    class FakeTransport(QMI_Transport):
        """In-memory QMI_Transport: same open/close/refusal behaviour as the base class, scripted replies,
        records every call, injects the planned fault."""

        def __init__(self, sess: Session, attr: str, descriptor: str):
            super().__init__()
            self._sess = sess
            self.attr = attr
            self.descriptor = descriptor

        def __str__(self):
            return f"FakeTransport({self.attr})"

        # -- bookkeeping -------------------------------------------------
        def _foreign(self) -> bool:
            return self._sess.owner_thread is not None and threading.get_ident() != self._sess.owner_thread

        def _call(self, op: str, reads: bool = False):
            """Count the call, apply budget and the fault plan. Returns 'junk' if a malformed reply is due."""
            s = self._sess
            s.n += 1
            if s.n > IO_BUDGET:
                raise Budget(f"more than {IO_BUDGET} transport calls")
            site = _site(s)
            kind = s.faults.get(s.n)
            ff = s.fail_first
            if ff is not None and ff[0] == op:
                s.op_count[op] = s.op_count.get(op, 0) + 1
                if s.op_count[op] <= ff[1]:
                    s.fired = s.fired or (self.attr, op, site)
                    s.fired_list.append((self.attr, op, site, s.n, ff[2]))
                    s.calls.append((self.attr, op, site, "exc:" + ff[2]))
                    if op == "close":
                        return "fail-after-release"
                    raise make_exc(ff[2])          # not sticky: the next attempt may succeed
            if kind is not None:
                if kind in EXC_KINDS:
                    s.fired = s.fired or (self.attr, op, site)
                    s.fired_list.append((self.attr, op, site, s.n, kind))
                    s.calls.append((self.attr, op, site, "exc:" + kind))
                    if op == "open":
                        s.open_failed_sticky[self.attr] = kind
                    if op == "close":
                        return "fail-after-release"
                    raise make_exc(kind)
                if kind == "junk" and reads:
                    s.fired = s.fired or (self.attr, op, site)
                    s.fired_list.append((self.attr, op, site, s.n, kind))
                    s.calls.append((self.attr, op, site, "junk"))
                    s.device_io += 1
                    return "junk"
            s.calls.append((self.attr, op, site, "ok"))
            if op != "open":
                s.device_io += 1
            return None

        def _refuse_if_closed(self, op: str):
            if self._foreign():
                # a background thread of the driver (e.g. a reader thread): keep it out of the experiment
                raise QMI_InvalidOperationException("C19 fake transport: call from a foreign thread refused")
            if not self._is_open:
                self._sess.calls.append((self.attr, op, _site(self._sess), "refused"))
            self._check_is_open()

        # -- QMI_Transport API ----------------------------------------------
        # open()/close() go through the base-class implementation (QMI_Transport.open: refuse if open, call
        # _open_transport(), then set the flag; QMI_Transport.close: refuse if closed, clear the flag) exactly like the
        # real transports, whose close() calls the base class first and releases the OS resource afterwards.
        def _open_transport(self) -> None:
            if self.attr in self._sess.open_failed_sticky:
                # the link-open fault persists for the rest of this open() (the device is not there)
                self._sess.n += 1
                if self._sess.n > IO_BUDGET:
                    raise Budget(f"more than {IO_BUDGET} transport calls")
                kind = self._sess.open_failed_sticky[self.attr]
                self._sess.calls.append((self.attr, "open", _site(self._sess), "exc:" + kind))
                raise make_exc(kind)
            self._call("open")

        def open(self) -> None:
            if self._foreign():
                raise QMI_InvalidOperationException("C19 fake transport: call from a foreign thread refused")
            if self._is_open:
                self._sess.calls.append((self.attr, "open", _site(self._sess), "refused"))
            super().open()
            if not self._is_open:
                return
            self._sess.link_opens[self.attr] = self._sess.link_opens.get(self.attr, 0) + 1
            if self._sess.script is not None:
                self._sess.script.link_opened(self._sess, self.attr)

        def close(self) -> None:
            if self._foreign():
                raise QMI_InvalidOperationException("C19 fake transport: call from a foreign thread refused")
            if not self._is_open:
                self._sess.calls.append((self.attr, "close", _site(self._sess), "refused"))
            super().close()              # base class: refuses if closed, clears the open flag
            if self._is_open:
                return                   # (only if the base class no longer clears the flag)
            self._sess.link_closes[self.attr] = self._sess.link_closes.get(self.attr, 0) + 1
            r = self._call("close")      # releasing the OS resource is the part that can fail
            if r == "fail-after-release":
                raise make_exc(self._sess.fired_list[-1][4])

        def _reply(self, op: str, arg) -> bytes:
            if self._sess.script is not None:
                return self._sess.script.read(self._sess, self.attr, op, arg)
            if op == "read":
                return b"0" * int(arg)
            if op == "read_until":
                return b"0" + bytes(arg)
            return b""

        def write(self, data: bytes) -> None:
            self._refuse_if_closed("write")
            self._call("write")
            self._sess.written.append(bytes(data))
            if self._sess.script is not None:
                self._sess.script.written(self._sess, self.attr, bytes(data))

        def read(self, nbytes: int, timeout: Optional[float] = None) -> bytes:
            self._refuse_if_closed("read")
            if self._call("read", reads=True) == "junk":
                return b"\xfe" * int(nbytes)
            return self._reply("read", nbytes)

        def read_until(self, message_terminator: bytes, timeout: Optional[float] = None) -> bytes:
            self._refuse_if_closed("read_until")
            if self._call("read_until", reads=True) == "junk":
                return b"\xfe\xff?junk?" + bytes(message_terminator)
            return self._reply("read_until", message_terminator)

        def read_until_timeout(self, nbytes: int, timeout: float) -> bytes:
            self._refuse_if_closed("read_until_timeout")
            if self._call("read_until_timeout", reads=True) == "junk":
                return b"\xfe" * min(int(nbytes), 64)
            return self._reply("read_until_timeout", nbytes)

        def discard_read(self) -> None:
            self._refuse_if_closed("discard_read")
            self._call("discard_read")

    return FakeTransport


# ---------------------------------------------------------------------------
# discovery of the transport-based driver classes
# ---------------------------------------------------------------------------

def import_instrument_modules() -> tuple[list, list]:
    """Import every module under qmi.instruments. Returns (modules, import_failures)."""
    logging.disable(logging.CRITICAL)
    import warnings
    warnings.simplefilter("ignore")
    threading.excepthook = lambda args: None      # background threads of drivers die on the fake transport; keep stderr clean
    import qmi.instruments
    mods, fails = [], []
    for m in pkgutil.walk_packages(qmi.instruments.__path__, "qmi.instruments."):
        try:
            mods.append(importlib.import_module(m.name))
        except BaseException as e:  # vendor library missing etc.
            fails.append((m.name, f"{type(e).__name__}: {e}"))
    return mods, fails


@functools.lru_cache(maxsize=None)
def class_source_ast(cls) -> Optional[ast.ClassDef]:
    try:
        src = textwrap.dedent(inspect.getsource(cls))
    except (OSError, TypeError):
        return None
    tree = ast.parse(src)
    for n in tree.body:
        if isinstance(n, ast.ClassDef):
            return n
    return None


def _creates_transport(cls) -> bool:
    """Does this class (own body) create a transport: call create_transport(...) or construct a *Transport class?"""
    node = class_source_ast(cls)
    if node is None:
        return False
    for n in ast.walk(node):
        if isinstance(n, ast.Call):
            f = n.func
            name = f.id if isinstance(f, ast.Name) else (f.attr if isinstance(f, ast.Attribute) else "")
            if name == "create_transport" or (name.endswith("Transport") and name[:1].isupper()):
                return True
    return False


def discover_classes() -> tuple[list, list]:
    """All concrete-or-abstract QMI_Instrument subclasses under qmi.instruments whose MRO creates a transport."""
    from qmi.core.instrument import QMI_Instrument
    _, fails = import_instrument_modules()
    seen: list = []

    def walk(c):
        for s in c.__subclasses__():
            if s not in seen:
                seen.append(s)
                walk(s)
    walk(QMI_Instrument)
    out = []
    for c in seen:
        if not c.__module__.startswith("qmi.instruments."):
            continue
        if any(_creates_transport(k) for k in c.__mro__ if k.__module__.startswith("qmi.instruments.")):
            out.append(c)
    out.sort(key=lambda c: (c.__module__, c.__name__))
    return out, fails


# ---------------------------------------------------------------------------
# building an instance around fake transports
# ---------------------------------------------------------------------------

class _StubContext:
    name = "c19ctx"

    def __getattr__(self, k):
        raise AttributeError(k)


DESCRIPTORS = ["tcp:localhost:1234", "serial:/dev/ttyS0", "udp:localhost:1234",
               "usbtmc:vendorid=0x1313:productid=0x8078:serialnr=P0000001"]


@functools.lru_cache(maxsize=None)
def transport_params(cls) -> list:
    """[(attr, ctor_param, optional)] for every `self.<attr> = create_transport(<param>, …)` in the __init__s of the MRO."""
    out = []
    for k in cls.__mro__:
        if not k.__module__.startswith("qmi.instruments."):
            continue
        node = class_source_ast(k)
        if node is None:
            continue
        init = next((m for m in node.body if isinstance(m, ast.FunctionDef) and m.name == "__init__"), None)
        if init is None:
            continue

        def visit(stmts, guards):
            for s in stmts:
                if isinstance(s, ast.If):
                    visit(s.body, guards + [ast.unparse(s.test)])
                    visit(s.orelse, guards + ["not(" + ast.unparse(s.test) + ")"])
                elif isinstance(s, (ast.Assign, ast.AnnAssign)) and isinstance(s.value, ast.Call):
                    f = s.value.func
                    if isinstance(f, ast.Name) and f.id == "create_transport":
                        tg = s.targets[0] if isinstance(s, ast.Assign) else s.target
                        if isinstance(tg, ast.Attribute) and isinstance(tg.value, ast.Name) and tg.value.id == "self":
                            a0 = s.value.args[0] if s.value.args else None
                            param = a0.id if isinstance(a0, ast.Name) else None
                            optional = any(g == f"{param} is not None" for g in guards)
                            if not any(o[0] == tg.attr for o in out):
                                out.append((tg.attr, param, optional))
                elif isinstance(s, (ast.Try,)):
                    visit(s.body, guards)
                elif isinstance(s, (ast.With, ast.For, ast.While)):
                    visit(s.body, guards)
        visit(init.body, [])
    return out


@functools.lru_cache(maxsize=None)
def variants_of(cls) -> list:
    """Constructor variants: which optional transports are present. [] of (tag, frozenset(present attrs))."""
    tps = transport_params(cls)
    opt = [a for a, _, o in tps if o]
    req = [a for a, _, o in tps if not o]
    if not opt:
        return [("", frozenset(req))]
    out = []
    for mask in range(1, 2 ** len(opt)):
        pres = [a for i, a in enumerate(opt) if mask >> i & 1]
        tag = "+".join(p.strip("_").replace("_transport", "") or p for p in pres)
        out.append((tag, frozenset(req + pres)))
    return out


@dataclass
class Built:
    inst: Any
    sess: Session
    fakes: dict            # attr -> FakeTransport
    cls: type
    variant: str


class Builder:
    """Builds driver instances whose transports are FakeTransports (create_transport patched in the driver's module)."""

    def __init__(self):
        self.Fake = make_fake_transport_class()
        self._ok_kwargs: dict = {}

    def _kwargs_candidates(self, cls, present: frozenset):
        tps = transport_params(cls)
        param_of = {p: (a, o) for a, p, o in tps if p}
        sig = inspect.signature(cls.__init__)
        params = list(sig.parameters.items())[3:]      # skip self, context, name
        base = {}
        tparams = []
        for n, p in params:
            if p.kind in (p.VAR_POSITIONAL, p.VAR_KEYWORD):
                continue
            if n in param_of:
                a, o = param_of[n]
                if a in present:
                    tparams.append(n)
                elif o:
                    base[n] = None
                continue
            if p.default is not inspect.Parameter.empty:
                continue
            a = p.annotation
            a = a if isinstance(a, str) else getattr(a, "__name__", str(a))
            if "transport" in n:
                tparams.append(n)
            elif a == "int":
                base[n] = 1
            elif a == "float":
                base[n] = 1.0
            elif a == "str":
                base[n] = "x"
            elif a == "bool":
                base[n] = False
            else:
                base[n] = None
        for d in DESCRIPTORS:
            kw = dict(base)
            for n in tparams:
                kw[n] = d
            yield kw

    def build(self, cls, variant: str = "") -> Built:
        present = dict(variants_of(cls)).get(variant)
        if present is None:
            raise LookupError(f"{cls.__name__}: unknown variant {variant!r}")
        sess = Session(owner_thread=threading.get_ident())
        made = []
        Fake = self.Fake

        def fake_create(desc, default_attributes=None):
            t = Fake(sess, "?", str(desc))
            made.append(t)
            return t

        mods = {sys.modules[k.__module__] for k in cls.__mro__ if k.__module__.startswith("qmi.instruments.")}
        saved = [(m, m.__dict__["create_transport"]) for m in mods if "create_transport" in m.__dict__]
        for m, _ in saved:
            m.__dict__["create_transport"] = fake_create
        try:
            key = (cls, variant)
            cands = [self._ok_kwargs[key]] if key in self._ok_kwargs else list(self._kwargs_candidates(cls, present))
            last = None
            inst = None
            for kw in cands:
                del made[:]
                try:
                    with _Alarm():
                        inst = cls(_StubContext(), "dut", **kw)
                    self._ok_kwargs[key] = kw
                    break
                except Exception as e:
                    last = e
            if inst is None:
                raise RuntimeError(f"cannot construct {cls.__name__}[{variant}]: {type(last).__name__}: {last}")
        finally:
            for m, f in saved:
                m.__dict__["create_transport"] = f
        fakes = {}
        for a, v in vars(inst).items():
            if isinstance(v, Fake):
                v.attr = a
                fakes[a] = v
        if set(fakes) != set(present):
            raise RuntimeError(f"{cls.__name__}[{variant}]: expected transports {sorted(present)}, instance has {sorted(fakes)}")
        sess.script = script_for(cls)
        return Built(inst, sess, fakes, cls, variant)


# ---------------------------------------------------------------------------
# reply scripts that let open() of the drivers with a handshake succeed (after the drivers' own unit tests)
# ---------------------------------------------------------------------------

class Script:
    """Scripted device: replies are queued per link when a command is written / when the link opens; reads pop the queue.
    An empty queue means the device stays silent: reads time out (read_until_timeout returns b"")."""

    def __init__(self, on_write: Callable[[bytes], Optional[bytes]], greeting: Optional[dict] = None):
        self.on_write = on_write
        self.greeting = greeting or {}

    def link_opened(self, sess: "Session", attr: str):
        sess.rx[attr] = bytearray(self.greeting.get(attr, self.greeting.get("*", b"")))

    def written(self, sess: "Session", attr: str, data: bytes):
        r = self.on_write(bytes(data))
        if r:
            sess.rx.setdefault(attr, bytearray()).extend(r)

    def read(self, sess: "Session", attr: str, op: str, arg) -> bytes:
        from qmi.core.exceptions import QMI_TimeoutException
        q = sess.rx.setdefault(attr, bytearray())
        if op == "read":
            n = int(arg)
            if len(q) < n:
                raise QMI_TimeoutException("C19 scripted device: no (complete) answer")
            out = bytes(q[:n])
            del q[:n]
            return out
        if op == "read_until":
            term = bytes(arg)
            i = q.find(term)
            if i < 0:
                raise QMI_TimeoutException("C19 scripted device: no (complete) answer")
            out = bytes(q[:i + len(term)])
            del q[:i + len(term)]
            return out
        n = int(arg)
        out = bytes(q[:n])
        del q[:n]
        return out


def _k10cr1_on_write(data: bytes) -> Optional[bytes]:
    import struct
    if data[:2] == b"\x05\x00":           # MGMSG_HW_REQ_INFO -> MGMSG_HW_GET_INFO (90 bytes)
        hdr = struct.pack("<HHBB", 0x0006, 84, 0x81, 0x50)
        body = struct.pack("<L8sH4B60sHHH", 55000001, b"K10CR1", 16, 1, 2, 3, 0, b"\0" * 60, 1, 0, 1)
        return hdr + body
    return None


def _line_script(table: dict) -> Callable[[bytes], Optional[bytes]]:
    def f(data: bytes) -> Optional[bytes]:
        return table.get(data.strip())
    return f


SCRIPTS: dict = {
    "Thorlabs_K10CR1": Script(_k10cr1_on_write),
    "Newport_AG_UC8": Script(_line_script({b"TE": b"TE0\r\n"})),
    "PI_E873": Script(_line_script({b"ERR?": b"0\n", b"SAI?": b"1\n"})),
    "WlPhotonics_WltfN": Script(_line_script({
        b"dev?": b"WL200: SN(201307374), MD(2018-11-23)\r\nWL Range: 1021.509~1072.505nm(Step: 4654~556)\r\nOK\r\n",
        b"s?": b"Step: 1000\r\nOK\r\n"})),
    "Bristol_871A": Script(_line_script({b"*IDN?": b"BRISTOL WAVELENGTH METER, 871A, 1234, 1.2.3\r\n"}),
                           greeting={"_scpi_transport": b"Welcome\r\nBristol Instruments 871A\r\n\r\n"}),
    "Toptica_DLC": Script(lambda d: None, greeting={"*": b"Welcome to DLC pro\r\nDeCoF Command Line\r\n> "}),
}


def script_for(cls) -> Optional[Script]:
    for k in cls.__mro__:
        if k.__name__ in SCRIPTS:
            return SCRIPTS[k.__name__]
    return None


# ---------------------------------------------------------------------------
# statement map of open()/close() (independent of the translator): ids in pre-order, innermost statement of a line
# ---------------------------------------------------------------------------

@dataclass
class FuncMap:
    owner: type
    name: str                   # 'open' | 'close'
    code: Any                   # code object of the function
    base: int                   # id offset (position of the owner in the super() chain × 1000)
    stmts: list                 # [(id, ast.stmt, parent_id or 0)] absolute line numbers
    first_line: int

    def innermost(self, lineno: int) -> Optional[int]:
        best = None
        for i, n, _ in self.stmts:
            if n.lineno <= lineno <= (n.end_lineno or n.lineno):
                if best is None or n.lineno >= best[1].lineno:
                    best = (i, n)
        return best[0] if best else None

    def node(self, sid: int):
        for i, n, _ in self.stmts:
            if i == sid:
                return n
        return None

    def parent(self, sid: int) -> int:
        for i, _, p in self.stmts:
            if i == sid:
                return p
        return 0


def func_ast(owner: type, name: str):
    """(FunctionDef with absolute line numbers, code object) of owner.__dict__[name]."""
    fn = owner.__dict__[name]
    fn = inspect.unwrap(fn)
    lines, first = inspect.getsourcelines(fn)
    tree = ast.parse(textwrap.dedent("".join(lines)))
    fdef = tree.body[0]
    # the function source starts at its first decorator
    ast.increment_lineno(tree, first - 1)
    return fdef, fn.__code__


def body_without_docstring(fdef) -> list:
    b = list(fdef.body)
    if b and isinstance(b[0], ast.Expr) and isinstance(b[0].value, ast.Constant) and isinstance(b[0].value.value, str):
        b = b[1:]
    return b


def build_func_map(owner: type, name: str, base: int) -> FuncMap:
    fdef, code = func_ast(owner, name)
    stmts = []
    counter = [0]

    def walk(lst, parent):
        for s in lst:
            counter[0] += 1
            sid = base + counter[0]
            stmts.append((sid, s, parent))
            for fld in ("body", "orelse", "finalbody"):
                sub = getattr(s, fld, None)
                if isinstance(sub, list) and sub and isinstance(sub[0], ast.stmt):
                    walk(sub, sid)
            for h in getattr(s, "handlers", []) or []:
                walk(h.body, sid)
    walk(body_without_docstring(fdef), 0)
    return FuncMap(owner, name, code, base, stmts, fdef.lineno)


def super_chain(cls, name: str) -> list:
    """Classes of the MRO (below QMI_Instrument) that define `name`, most derived first."""
    from qmi.core.instrument import QMI_Instrument
    out = []
    for k in cls.__mro__:
        if k is QMI_Instrument:
            break
        if name in k.__dict__:
            out.append(k)
    return out


def func_maps(cls, name: str) -> list:
    return [build_func_map(k, name, 1000 * i) for i, k in enumerate(super_chain(cls, name))]


# ---------------------------------------------------------------------------
# running real code under observation
# ---------------------------------------------------------------------------

@dataclass
class Obs:
    result: str                     # 'ok' | 'exc:<kind>' | 'budget' | 'watchdog'
    exc: str                        # exception type name + message (or '')
    flag: bool
    links: dict                     # attr -> bool
    lines: list                     # [(code, lineno)] line events inside the traced open()/close() frames
    calls: list                     # transport calls [(attr, op, site, outcome)]
    fired: Optional[tuple]
    device_io: int
    first_exc: Optional[tuple] = None   # (code, lineno, kind, text) of the first exception seen in a traced frame
    events: list = field(default_factory=list)   # ("line", code, lineno) / ("exc", code, lineno, kind) in order


def call_traced(b: Built, method: str, maps: list, *args) -> Obs:
    """Call inst.<method>() with virtual time, watchdog, line tracing of the given function maps."""
    sess = b.sess
    sess.tracked_codes = {m.code: m for m in maps}
    lines: list = []

    first_exc: list = []
    events: list = []

    def local(frame, event, arg):
        if event == "line":
            lines.append((frame.f_code, frame.f_lineno))
            events.append(("line", frame.f_code, frame.f_lineno))
        elif event == "exception":
            k = kind_of_exception(arg[1]) if arg[1] is not None else "other"
            events.append(("exc", frame.f_code, frame.f_lineno, k))
            if not first_exc:
                first_exc.append((frame.f_code, frame.f_lineno, k,
                                  f"{getattr(arg[0], '__name__', arg[0])}: {str(arg[1])[:100]}"))
        return local

    def tracer(frame, event, arg):
        if event == "call" and frame.f_code in sess.tracked_codes:
            return local
        return None

    result, exc = "ok", ""
    io0 = sess.device_io
    old = sys.gettrace()
    with VirtualTime(), _Alarm():
        sys.settrace(tracer)
        try:
            getattr(b.inst, method)(*args)
        except BaseException as e:  # noqa
            k = kind_of_exception(e)
            result = k if k in ("budget", "watchdog") else "exc:" + k
            exc = f"{type(e).__name__}: {str(e)[:120]}"
            if isinstance(e, (KeyboardInterrupt, SystemExit)):
                sys.settrace(old)
                raise
        finally:
            sys.settrace(old)
    try:
        flag = bool(b.inst.is_open())
    except Exception:
        flag = bool(getattr(b.inst, "_is_open", False))
    return Obs(result, exc, flag, {a: bool(t._is_open) for a, t in b.fakes.items()}, lines, list(sess.calls),
               sess.fired, sess.device_io - io0, first_exc[0] if first_exc else None, events)


def classify(flag: bool, links: dict) -> Optional[str]:
    """The invariant of the property on the real objects. None = consistent."""
    if not flag and any(links.values()):
        return "closed-but-link-held"
    if flag and not all(links.values()):
        return "open-but-link-closed"
    return None


def generic_args(fn) -> Optional[list]:
    """Positional arguments for an arbitrary RPC method from its annotations (None if it cannot be called generically)."""
    try:
        sig = inspect.signature(fn)
    except (TypeError, ValueError):
        return None
    args = []
    for n, p in list(sig.parameters.items())[1:]:
        if p.kind in (p.VAR_POSITIONAL, p.VAR_KEYWORD):
            continue
        if p.default is not inspect.Parameter.empty:
            continue
        if p.kind == p.KEYWORD_ONLY:
            return None
        a = p.annotation
        a = a if isinstance(a, str) else getattr(a, "__name__", str(a))
        args.append({"int": 1, "float": 1.0, "str": "x", "bool": False, "bytes": b"x"}.get(a, 1))
    return args


def rpc_methods(cls) -> list:
    from qmi.core.rpc import is_rpc_method
    skip = {"open", "close", "is_open", "__enter__", "__exit__", "lock", "unlock", "force_unlock", "is_locked",
            "release_rpc_object"}
    out = []
    for name, member in inspect.getmembers(cls, is_rpc_method):
        if name in skip or name.startswith("__"):
            continue
        out.append(name)
    return sorted(out)
