"""Translator for property C09: Python source -> lean/QmiModel/Gen/RecvProg.lean.

Reads the *current* AST of

    qmi/core/pubsub.py  QMI_SignalReceiver._receive_signal, get_next_signal, discard_all, get_queue_length,
                        has_signal_ready, and the module function _wait_for_condition
    qmi/core/task.py    _TaskThread.wait_for_condition

and compiles each body, statement by statement and in source order, into the instruction lists of
`QmiModel/Model/RecvConc.lean`.  What matters to the property is *where* the shared state is touched:

  * which statements read / advance `self._receiver_seqnr`, test / change `self._queue`, notify the condition, and
    whether they sit inside the `with self._queue_cond:` block (`acquire … release`);
  * that `get_next_signal` tests the queue before it calls the wait helper;
  * what the wait helper does in a plain thread (`cond.wait_for(predicate, timeout)`) and in a task thread
    (`wait_for(predicate or stop flag)`, then the stop flag has priority over the result).

Statements that touch none of this (building the `ReceivedSignal` tuple from the message, local lambdas, imports,
asserts, docstrings, the registration of the condition in `_wait_cond`, which belongs to property C11) are skipped —
but only after the translator has looked at every name in them.  Anything it does not understand raises
`Untranslatable`; it never guesses.
"""
from __future__ import annotations

import ast
from pathlib import Path


class Untranslatable(Exception):
    pass


SHARED = ("_receiver_seqnr", "_queue", "_queue_cond")


def u(n) -> str:
    return ast.unparse(n)


def _is_self_attr(e, name: str) -> bool:
    return isinstance(e, ast.Attribute) and e.attr == name and isinstance(e.value, ast.Name) and e.value.id == "self"


def _mentions(node, names=SHARED) -> set:
    """which shared attributes of `self` a node mentions"""
    out = set()
    for n in ast.walk(node):
        if isinstance(n, ast.Attribute) and isinstance(n.value, ast.Name) and n.value.id == "self" and n.attr in names:
            out.add(n.attr)
    return out


def _is_docstring(st) -> bool:
    return isinstance(st, ast.Expr) and isinstance(st.value, ast.Constant) and isinstance(st.value.value, str)


def _is_len_queue(e) -> bool:
    return (isinstance(e, ast.Call) and isinstance(e.func, ast.Name) and e.func.id == "len" and len(e.args) == 1
            and not e.keywords and _is_self_attr(e.args[0], "_queue"))


def _const(e, v) -> bool:
    return isinstance(e, ast.Constant) and type(e.value) is type(v) and e.value == v


def _cmp(e):
    """(left, op-class, right) of a simple comparison, else None"""
    if isinstance(e, ast.Compare) and len(e.ops) == 1 and len(e.comparators) == 1:
        return e.left, type(e.ops[0]), e.comparators[0]
    return None


def _is_queue_empty_test(e) -> bool:
    """`len(self._queue) == 0`, `0 == len(self._queue)`, `len(self._queue) < 1`, `not self._queue`, `not len(self._queue)`"""
    c = _cmp(e)
    if c:
        l, op, r = c
        if _is_len_queue(l) and ((op is ast.Eq and _const(r, 0)) or (op is ast.Lt and _const(r, 1)) or (op is ast.LtE and _const(r, 0))):
            return True
        if _is_len_queue(r) and op is ast.Eq and _const(l, 0):
            return True
    if isinstance(e, ast.UnaryOp) and isinstance(e.op, ast.Not) and (_is_self_attr(e.operand, "_queue") or _is_len_queue(e.operand)):
        return True
    return False


def _is_queue_nonempty_expr(e) -> bool:
    """`len(self._queue) > 0`, `!= 0`, `>= 1`, `0 < len(...)`, `bool(self._queue)`, `len(self._queue)` (truthiness)"""
    c = _cmp(e)
    if c:
        l, op, r = c
        if _is_len_queue(l) and ((op is ast.Gt and _const(r, 0)) or (op is ast.NotEq and _const(r, 0)) or (op is ast.GtE and _const(r, 1))):
            return True
        if _is_len_queue(r) and ((op is ast.Lt and _const(l, 0)) or (op is ast.NotEq and _const(l, 0))):
            return True
    if _is_len_queue(e):
        return True
    if (isinstance(e, ast.Call) and isinstance(e.func, ast.Name) and e.func.id == "bool" and len(e.args) == 1
            and not e.keywords and (_is_self_attr(e.args[0], "_queue") or _is_len_queue(e.args[0]))):
        return True
    return False


def _is_nonempty_lambda(e) -> bool:
    return (isinstance(e, ast.Lambda) and not e.args.args and not e.args.vararg and not e.args.kwarg
            and _is_queue_nonempty_expr(e.body))


def _is_full_test(e) -> bool:
    c = _cmp(e)
    if not c:
        return False
    l, op, r = c
    if op is not ast.Eq:
        return False
    return (_is_len_queue(l) and _is_self_attr(r, "_max_queue_length")) or (_is_len_queue(r) and _is_self_attr(l, "_max_queue_length"))


def _is_policy_new_test(e) -> bool:
    c = _cmp(e)
    if not c:
        return False
    l, op, r = c
    if op is not ast.Eq:
        return False

    def pol(x):
        return _is_self_attr(x, "_discard_policy")

    def new(x):
        return (isinstance(x, ast.Attribute) and x.attr == "DISCARD_NEW" and isinstance(x.value, ast.Name)
                and x.value.id in ("self", "QMI_SignalReceiver"))
    return (pol(l) and new(r)) or (pol(r) and new(l))


LOG_METHODS = ("debug", "info", "warning", "warn", "error", "exception", "critical", "log")


def _is_log_call(st) -> bool:
    """`_logger.debug(...)` / `logging.info(...)`: effect-free for the model, but a call out of the receiver code"""
    if not (isinstance(st, ast.Expr) and isinstance(st.value, ast.Call) and isinstance(st.value.func, ast.Attribute)):
        return False
    f = st.value.func
    return f.attr in LOG_METHODS and isinstance(f.value, ast.Name) and f.value.id in ("_logger", "logger", "logging", "_LOGGER")


def _split_logs(body):
    """(log statements, the other statements) of a statement list, docstrings dropped"""
    logs = [b for b in body if _is_log_call(b)]
    rest = [b for b in body if not _is_log_call(b) and not _is_docstring(b)]
    return logs, rest


def _is_bare_return(st) -> bool:
    return isinstance(st, ast.Return) and (st.value is None or _const(st.value, None))


def _find_class_func(tree, cls: str, fn: str) -> ast.FunctionDef:
    for node in tree.body:
        if isinstance(node, ast.ClassDef) and node.name == cls:
            found = [m for m in node.body if isinstance(m, ast.FunctionDef) and m.name == fn]
            if len(found) != 1:
                raise Untranslatable(f"{cls}.{fn}: found {len(found)} definitions")
            return found[0]
    raise Untranslatable(f"class {cls} not found")


def _find_func(tree, fn: str) -> ast.FunctionDef:
    found = [m for m in tree.body if isinstance(m, ast.FunctionDef) and m.name == fn]
    if len(found) != 1:
        raise Untranslatable(f"module function {fn}: found {len(found)} definitions")
    return found[0]


def _argnames(fn) -> list:
    a = fn.args
    if a.vararg or a.kwarg or a.kwonlyargs or a.posonlyargs:
        raise Untranslatable(f"{fn.name}: unusual parameter list")
    return [x.arg for x in a.args]


class _Emit:
    def __init__(self, fname: str):
        self.fname = fname
        self.code: list = []      # (lean ctor text, python source line, lineno)
        self.skipped: list = []
        self.callouts: list = []  # (index of the next instruction, lock held, lineno, source)

    def emit(self, ins: str, st) -> None:
        self.code.append((ins, u(st).splitlines()[0][:110], st.lineno))

    def skip(self, st, why: str) -> None:
        self.skipped.append((st.lineno, why, u(st).splitlines()[0][:90]))

    def callout(self, st, locked: bool) -> None:
        """a call out of the receiver code (logging): no effect in the model, but a fact of its own"""
        self.callouts.append((len(self.code), bool(locked), st.lineno, u(st).splitlines()[0][:90]))

    def bad(self, st, why: str):
        raise Untranslatable(f"{self.fname} line {st.lineno}: {why}: {u(st).splitlines()[0][:120]}")


def _with_queue_cond(st) -> bool:
    return (isinstance(st, ast.With) and len(st.items) == 1 and st.items[0].optional_vars is None
            and _is_self_attr(st.items[0].context_expr, "_queue_cond"))


# ---------------------------------------------------------------------------------------------------------------------
# _receive_signal
# ---------------------------------------------------------------------------------------------------------------------

def compile_receive(fn: ast.FunctionDef) -> _Emit:
    em = _Emit("_receive_signal")
    if _argnames(fn) != ["self", "message"]:
        raise Untranslatable(f"_receive_signal parameters changed: {_argnames(fn)}")
    seq_locals: set = set()      # locals holding a number read from the counter
    sig_locals: set = set()      # locals holding the ReceivedSignal that carries such a number
    pending_sig_from_local = {}  # sig local -> built from which seq local

    def pure_local(e) -> bool:
        """an expression over the message / locals / constants only (no attribute of self at all)"""
        for n in ast.walk(e):
            if isinstance(n, ast.Name) and n.id == "self":
                return False
            if isinstance(n, (ast.Call,)) and not (isinstance(n.func, ast.Name) and n.func.id in ("ReceivedSignal", "tuple", "len", "str", "int")):
                return False
        return True

    def received_signal_call(v):
        """(kind, local) for `ReceivedSignal(..., receiver_seqnr=<X>)`: kind = 'counter' | 'local'"""
        if not (isinstance(v, ast.Call) and isinstance(v.func, ast.Name) and v.func.id == "ReceivedSignal"):
            return None
        kws = {k.arg: k.value for k in v.keywords}
        if v.args and not kws:
            if len(v.args) != 5:
                raise Untranslatable(f"_receive_signal line {v.lineno}: ReceivedSignal with {len(v.args)} positional arguments")
            others, seq = v.args[:4], v.args[4]
        else:
            if v.args or set(kws) != {"publisher_context", "publisher_name", "signal_name", "args", "receiver_seqnr"}:
                raise Untranslatable(f"_receive_signal line {v.lineno}: ReceivedSignal fields changed: {sorted(kws)}")
            seq = kws["receiver_seqnr"]
            others = [kws[k] for k in ("publisher_context", "publisher_name", "signal_name", "args")]
        for o in others:
            if not pure_local(o):
                raise Untranslatable(f"_receive_signal line {v.lineno}: signal field not taken from the message: {u(o)}")
        if _is_self_attr(seq, "_receiver_seqnr"):
            return ("counter", None)
        if isinstance(seq, ast.Name) and seq.id in seq_locals:
            return ("local", seq.id)
        raise Untranslatable(f"_receive_signal line {v.lineno}: receiver_seqnr is neither the counter nor a local read from it: {u(seq)}")

    def stmt(st, locked: bool):
        if _is_docstring(st) or isinstance(st, ast.Pass):
            return
        if _is_log_call(st):
            em.callout(st, locked)
            return
        if isinstance(st, ast.With):
            if not _with_queue_cond(st):
                em.bad(st, "`with` on something else than self._queue_cond")
            if locked:
                em.bad(st, "nested `with self._queue_cond`")
            em.emit(".acquire", st)
            for b in st.body:
                stmt(b, True)
            em.code.append((".release", "(end of `with self._queue_cond:`)", st.end_lineno))
            return
        if isinstance(st, ast.Assign) and len(st.targets) == 1 and isinstance(st.targets[0], ast.Name):
            tg, v = st.targets[0].id, st.value
            # X = next(self._receiver_seqnr)       atomic fetch-and-increment
            if (isinstance(v, ast.Call) and isinstance(v.func, ast.Name) and v.func.id == "next" and len(v.args) == 1
                    and not v.keywords and _is_self_attr(v.args[0], "_receiver_seqnr")):
                seq_locals.add(tg)
                em.emit(".takeSeq", st)
                return
            # X = self._receiver_seqnr             the counter is read here
            if _is_self_attr(v, "_receiver_seqnr"):
                seq_locals.add(tg)
                em.emit(".mkSig", st)
                return
            rs = received_signal_call(v)
            if rs is not None:
                sig_locals.add(tg)
                if rs[0] == "counter":
                    em.emit(".mkSig", st)
                else:
                    em.skip(st, f"builds the signal tuple from the local `{rs[1]}`")
                return
            if not _mentions(v) and pure_local(v):
                em.skip(st, "local computation")
                return
        # self._receiver_seqnr += 1     /   self._receiver_seqnr = self._receiver_seqnr + 1
        if (isinstance(st, ast.AugAssign) and _is_self_attr(st.target, "_receiver_seqnr") and isinstance(st.op, ast.Add)
                and _const(st.value, 1)):
            em.emit(".incSeq", st)
            return
        if (isinstance(st, ast.Assign) and len(st.targets) == 1 and _is_self_attr(st.targets[0], "_receiver_seqnr")
                and isinstance(st.value, ast.BinOp) and isinstance(st.value.op, ast.Add)
                and ((_is_self_attr(st.value.left, "_receiver_seqnr") and _const(st.value.right, 1))
                     or (_is_self_attr(st.value.right, "_receiver_seqnr") and _const(st.value.left, 1)))):
            em.emit(".incSeq", st)
            return
        # if len(self._queue) == self._max_queue_length: if self._discard_policy == self.DISCARD_NEW: return
        if isinstance(st, ast.If) and not st.orelse:
            t = st.test
            logs, inner = _split_logs(st.body)
            if _is_full_test(t) and len(inner) == 1 and isinstance(inner[0], ast.If) and not inner[0].orelse and _is_policy_new_test(inner[0].test):
                logs2, inner2 = _split_logs(inner[0].body)
                if len(inner2) == 1 and _is_bare_return(inner2[0]):
                    em.emit(".dropIfFullNew", st)
                    for lg in logs + logs2:       # executed after the test, before the append / the return
                        em.callout(lg, locked)
                    return
            if (isinstance(t, ast.BoolOp) and isinstance(t.op, ast.And) and len(t.values) == 2
                    and ((_is_full_test(t.values[0]) and _is_policy_new_test(t.values[1]))
                         or (_is_full_test(t.values[1]) and _is_policy_new_test(t.values[0])))
                    and len(inner) == 1 and _is_bare_return(inner[0])):
                em.emit(".dropIfFullNew", st)
                for lg in logs:
                    em.callout(lg, locked)
                return
        if isinstance(st, ast.Expr) and isinstance(st.value, ast.Call) and isinstance(st.value.func, ast.Attribute):
            c = st.value
            # self._queue.append(sig)
            if (c.func.attr == "append" and _is_self_attr(c.func.value, "_queue") and len(c.args) == 1 and not c.keywords
                    and isinstance(c.args[0], ast.Name) and c.args[0].id in sig_locals):
                em.emit(".append", st)
                return
            # self._queue_cond.notify_all()
            if c.func.attr in ("notify_all", "notifyAll") and _is_self_attr(c.func.value, "_queue_cond") and not c.args and not c.keywords:
                em.emit(".notifyAll", st)
                return
        em.bad(st, "statement not understood")

    for st in fn.body:
        stmt(st, False)
    return em


# ---------------------------------------------------------------------------------------------------------------------
# get_next_signal
# ---------------------------------------------------------------------------------------------------------------------

def compile_get(fn: ast.FunctionDef) -> _Emit:
    em = _Emit("get_next_signal")
    if _argnames(fn) != ["self", "timeout"]:
        raise Untranslatable(f"get_next_signal parameters changed: {_argnames(fn)}")
    pred_locals: set = set()

    def is_wait_stmt(st) -> bool:
        """`if not _wait_for_condition(self._queue_cond, <non-empty predicate>, timeout): raise QMI_TimeoutException(...)`"""
        if not (isinstance(st, ast.If) and not st.orelse and isinstance(st.test, ast.UnaryOp) and isinstance(st.test.op, ast.Not)):
            return False
        c = st.test.operand
        if not (isinstance(c, ast.Call) and isinstance(c.func, ast.Name) and c.func.id == "_wait_for_condition"
                and len(c.args) == 3 and not c.keywords):
            return False
        cond, pred, tmo = c.args
        if not _is_self_attr(cond, "_queue_cond"):
            em.bad(st, "waits on something else than self._queue_cond")
        if not ((isinstance(pred, ast.Name) and pred.id in pred_locals) or _is_nonempty_lambda(pred)):
            em.bad(st, "the wait predicate is not `the queue is non-empty`")
        if not (isinstance(tmo, ast.Name) and tmo.id == "timeout"):
            em.bad(st, "the wait does not use the caller's timeout")
        logs, body = _split_logs(st.body)
        if not (len(body) == 1 and isinstance(body[0], ast.Raise) and isinstance(body[0].exc, ast.Call)
                and isinstance(body[0].exc.func, ast.Name) and body[0].exc.func.id == "QMI_TimeoutException"):
            em.bad(st, "a failed wait does not raise QMI_TimeoutException")
        for lg in logs:
            em.callouts.append((len(em.code) + 1, True, lg.lineno, u(lg).splitlines()[0][:90]))
        return True

    def stmt(st, locked: bool):
        if _is_docstring(st) or isinstance(st, ast.Pass):
            return
        if _is_log_call(st):
            em.callout(st, locked)
            return
        if isinstance(st, ast.With):
            if not _with_queue_cond(st):
                em.bad(st, "`with` on something else than self._queue_cond")
            if locked:
                em.bad(st, "nested `with self._queue_cond`")
            em.emit(".acquire", st)
            for b in st.body:
                stmt(b, True)
            em.code.append((".release", "(end of `with self._queue_cond:`)", st.end_lineno))
            return
        if isinstance(st, ast.Assign) and len(st.targets) == 1 and isinstance(st.targets[0], ast.Name) and _is_nonempty_lambda(st.value):
            pred_locals.add(st.targets[0].id)
            em.skip(st, "the predicate `queue is non-empty` as a local lambda")
            return
        if isinstance(st, ast.If) and not st.orelse and _is_queue_empty_test(st.test):
            at = len(em.code)
            em.emit(".skipIfNonEmpty ?", st)
            for b in st.body:
                stmt(b, locked)
            n = len(em.code) - at - 1
            ins, src, ln = em.code[at]
            em.code[at] = (f".skipIfNonEmpty {n}", src, ln)
            return
        if is_wait_stmt(st):
            em.emit(".wait", st)
            return
        if (isinstance(st, ast.Return) and isinstance(st.value, ast.Call) and isinstance(st.value.func, ast.Attribute)
                and st.value.func.attr == "popleft" and _is_self_attr(st.value.func.value, "_queue")
                and not st.value.args and not st.value.keywords):
            em.emit(".pop", st)
            return
        em.bad(st, "statement not understood")

    for st in fn.body:
        stmt(st, False)
    return em


# ---------------------------------------------------------------------------------------------------------------------
# discard_all, get_queue_length, has_signal_ready
# ---------------------------------------------------------------------------------------------------------------------

def _compile_locked_single(fn: ast.FunctionDef, recognise) -> _Emit:
    em = _Emit(fn.name)
    if _argnames(fn) != ["self"]:
        raise Untranslatable(f"{fn.name} parameters changed: {_argnames(fn)}")

    def stmt(st, locked: bool):
        if _is_docstring(st) or isinstance(st, ast.Pass):
            return
        if _is_log_call(st):
            em.callout(st, locked)
            return
        if isinstance(st, ast.With):
            if not _with_queue_cond(st) or locked:
                em.bad(st, "`with` on something else than self._queue_cond")
            em.emit(".acquire", st)
            for b in st.body:
                stmt(b, True)
            em.code.append((".release", "(end of `with self._queue_cond:`)", st.end_lineno))
            return
        ins = recognise(st)
        if ins is None:
            em.bad(st, "statement not understood")
        em.emit(ins, st)

    for st in fn.body:
        stmt(st, False)
    return em


def compile_discard(fn) -> _Emit:
    def rec(st):
        if (isinstance(st, ast.Expr) and isinstance(st.value, ast.Call) and isinstance(st.value.func, ast.Attribute)
                and st.value.func.attr == "clear" and _is_self_attr(st.value.func.value, "_queue")
                and not st.value.args and not st.value.keywords):
            return ".clear"
        return None
    return _compile_locked_single(fn, rec)


def compile_len(fn) -> _Emit:
    def rec(st):
        if isinstance(st, ast.Return) and st.value is not None and _is_len_queue(st.value):
            return ".readLen"
        return None
    return _compile_locked_single(fn, rec)


def compile_ready(fn) -> _Emit:
    def rec(st):
        if isinstance(st, ast.Return) and st.value is not None and _is_queue_nonempty_expr(st.value) and not _is_len_queue(st.value):
            return ".readLen"
        return None
    return _compile_locked_single(fn, rec)


# ---------------------------------------------------------------------------------------------------------------------
# the wait helper: pubsub._wait_for_condition (dispatch) and task._TaskThread.wait_for_condition
# ---------------------------------------------------------------------------------------------------------------------

def compile_dispatch(fn: ast.FunctionDef) -> _Emit:
    """`_wait_for_condition(cond, predicate, timeout)`: returns the plain-thread helper program; checks that a task thread is
    delegated to `thread.wait_for_condition(cond, predicate, timeout)`."""
    em = _Emit("_wait_for_condition")
    if _argnames(fn) != ["cond", "predicate", "timeout"]:
        raise Untranslatable(f"_wait_for_condition parameters changed: {_argnames(fn)}")
    thread_locals: set = set()
    seen_if = False

    def is_cur_thread(e) -> bool:
        return (isinstance(e, ast.Call) and isinstance(e.func, ast.Attribute) and e.func.attr == "current_thread"
                and isinstance(e.func.value, ast.Name) and e.func.value.id == "threading" and not e.args and not e.keywords)

    def is_task_test(e) -> bool:
        if not (isinstance(e, ast.Call) and isinstance(e.func, ast.Name) and e.func.id == "isinstance" and len(e.args) == 2):
            return False
        a, b = e.args
        if not ((isinstance(a, ast.Name) and a.id in thread_locals) or is_cur_thread(a)):
            return False
        return u(b) in ("qmi.core.task._TaskThread", "_TaskThread")

    def same_args(c) -> bool:
        return (len(c.args) == 3 and not c.keywords and all(isinstance(a, ast.Name) for a in c.args)
                and [a.id for a in c.args] == ["cond", "predicate", "timeout"])

    def is_task_delegate(st) -> bool:
        return (isinstance(st, ast.Return) and isinstance(st.value, ast.Call) and isinstance(st.value.func, ast.Attribute)
                and st.value.func.attr == "wait_for_condition" and isinstance(st.value.func.value, ast.Name)
                and st.value.func.value.id in thread_locals and same_args(st.value))

    def is_plain_wait(st) -> bool:
        c = st.value if isinstance(st, ast.Return) else None
        return (isinstance(c, ast.Call) and isinstance(c.func, ast.Attribute) and c.func.attr == "wait_for"
                and isinstance(c.func.value, ast.Name) and c.func.value.id == "cond" and len(c.args) == 2 and not c.keywords
                and isinstance(c.args[0], ast.Name) and c.args[0].id == "predicate"
                and isinstance(c.args[1], ast.Name) and c.args[1].id == "timeout")

    for st in fn.body:
        if _is_docstring(st) or isinstance(st, (ast.Import, ast.ImportFrom, ast.Pass)):
            continue
        if _is_log_call(st):
            em.callout(st, True)
            continue
        if isinstance(st, ast.Assign) and len(st.targets) == 1 and isinstance(st.targets[0], ast.Name) and is_cur_thread(st.value):
            thread_locals.add(st.targets[0].id)
            em.skip(st, "the calling thread")
            continue
        if isinstance(st, ast.If) and is_task_test(st.test) and not seen_if:
            seen_if = True
            body = [b for b in st.body if not _is_docstring(b)]
            if not (len(body) == 1 and is_task_delegate(body[0])):
                em.bad(st, "a task thread is not delegated to thread.wait_for_condition(cond, predicate, timeout)")
            em.skip(body[0], "task thread: delegated to _TaskThread.wait_for_condition (compiled from task.py)")
            rest = [b for b in st.orelse if not _is_docstring(b)]
            if rest:
                if not (len(rest) == 1 and is_plain_wait(rest[0])):
                    em.bad(st, "a plain thread does not `return cond.wait_for(predicate, timeout)`")
                em.emit(".waitFor false", rest[0])
                em.code.append((".retRet", "(the value of wait_for is returned)", rest[0].lineno))
            continue
        if seen_if and not em.code and is_plain_wait(st):
            em.emit(".waitFor false", st)
            em.code.append((".retRet", "(the value of wait_for is returned)", st.lineno))
            continue
        em.bad(st, "statement not understood")
    if not seen_if or not em.code:
        raise Untranslatable("_wait_for_condition: no dispatch on the thread kind / no plain-thread wait found")
    return em


def compile_task_wait(fn: ast.FunctionDef) -> _Emit:
    em = _Emit("wait_for_condition")
    if _argnames(fn) != ["self", "cond", "predicate", "timeout"]:
        raise Untranslatable(f"wait_for_condition parameters changed: {_argnames(fn)}")
    flag_locals: set = set()
    ret_locals: set = set()

    def is_flag(e) -> bool:
        """`self.task._stop_requested` or a local alias"""
        if isinstance(e, ast.Name) and e.id in flag_locals:
            return True
        return (isinstance(e, ast.Attribute) and e.attr == "_stop_requested" and isinstance(e.value, ast.Attribute)
                and e.value.attr == "task" and isinstance(e.value.value, ast.Name) and e.value.value.id == "self")

    def is_flag_set(e) -> bool:
        return (isinstance(e, ast.Call) and isinstance(e.func, ast.Attribute) and e.func.attr in ("is_set", "isSet")
                and is_flag(e.func.value) and not e.args and not e.keywords)

    def is_pred_call(e) -> bool:
        return isinstance(e, ast.Call) and isinstance(e.func, ast.Name) and e.func.id == "predicate" and not e.args and not e.keywords

    def wait_for_kind(c):
        """None, or True/False = the waited-for predicate includes the stop flag"""
        if not (isinstance(c, ast.Call) and isinstance(c.func, ast.Attribute) and c.func.attr == "wait_for"
                and isinstance(c.func.value, ast.Name) and c.func.value.id == "cond" and len(c.args) == 2 and not c.keywords
                and isinstance(c.args[1], ast.Name) and c.args[1].id == "timeout"):
            return None
        p = c.args[0]
        if isinstance(p, ast.Name) and p.id == "predicate":
            return False
        if isinstance(p, ast.Lambda) and not p.args.args:
            b = p.body
            if is_pred_call(b):
                return False
            if (isinstance(b, ast.BoolOp) and isinstance(b.op, ast.Or) and len(b.values) == 2
                    and ((is_pred_call(b.values[0]) and is_flag_set(b.values[1])) or (is_pred_call(b.values[1]) and is_flag_set(b.values[0])))):
                return True
        return None

    def is_wait_cond_slot_stmt(st) -> bool:
        """the registration / unregistration of the condition (`with self._wait_cond_lock: [assert …;] self._wait_cond = …`)"""
        if not (isinstance(st, ast.With) and len(st.items) == 1 and st.items[0].optional_vars is None
                and _is_self_attr(st.items[0].context_expr, "_wait_cond_lock")):
            return False
        for b in st.body:
            if isinstance(b, ast.Assert):
                continue
            if (isinstance(b, ast.Assign) and len(b.targets) == 1 and _is_self_attr(b.targets[0], "_wait_cond")
                    and (_const(b.value, None) or (isinstance(b.value, ast.Name) and b.value.id == "cond"))):
                continue
            return False
        return True

    def stmt(st):
        if _is_docstring(st) or isinstance(st, (ast.Pass, ast.Assert)):
            return
        if _is_log_call(st):
            em.callout(st, True)
            return
        if is_wait_cond_slot_stmt(st):
            em.skip(st, "registration of the condition for stop_task (property C11)")
            return
        if isinstance(st, ast.Try):
            if st.handlers or st.orelse:
                em.bad(st, "try with except/else")
            for b in st.body:
                stmt(b)
            for b in st.finalbody:
                if not is_wait_cond_slot_stmt(b):
                    em.bad(b, "`finally` does something else than unregistering the condition")
                em.skip(b, "unregistration of the condition (property C11)")
            return
        if isinstance(st, ast.Assign) and len(st.targets) == 1 and isinstance(st.targets[0], ast.Name):
            tg, v = st.targets[0].id, st.value
            if is_flag(v):
                flag_locals.add(tg)
                em.skip(st, "alias of the stop flag")
                return
            k = wait_for_kind(v)
            if k is not None:
                ret_locals.add(tg)
                em.emit(f".waitFor {'true' if k else 'false'}", st)
                return
        if (isinstance(st, ast.If) and not st.orelse and is_flag_set(st.test) and len(st.body) == 1
                and isinstance(st.body[0], ast.Raise) and st.body[0].exc is not None
                and u(st.body[0].exc) in ("QMI_TaskStopException()", "QMI_TaskStopException")):
            em.emit(".raiseIfStop", st)
            return
        if isinstance(st, ast.Return) and isinstance(st.value, ast.Name) and st.value.id in ret_locals:
            em.emit(".retRet", st)
            return
        if isinstance(st, ast.Return) and st.value is not None and wait_for_kind(st.value) is not None:
            em.emit(f".waitFor {'true' if wait_for_kind(st.value) else 'false'}", st)
            em.code.append((".retRet", "(the value of wait_for is returned)", st.lineno))
            return
        em.bad(st, "statement not understood")

    for st in fn.body:
        stmt(st)
    return em


# ---------------------------------------------------------------------------------------------------------------------

def analyse_constructor(pub, cls: str) -> dict:
    """The constructor must create the pieces the programs talk about.  Returns how the two capacities relate: the value the
    full-queue test of `_receive_signal` compares with (`self._max_queue_length`) and the bound of the deque
    (`deque(maxlen=…)`).  The model has ONE capacity; `tied` says the source justifies that."""
    init = _find_class_func(pub, cls, "__init__")
    maxlen_expr, cap_expr, have_cond, have_counter = None, None, False, False
    aliases = {}                   # simple local aliases `x = <expr>` inside __init__
    for st in ast.walk(init):
        if isinstance(st, ast.AnnAssign) and st.value is not None:
            targets, value = [st.target], st.value
        elif isinstance(st, ast.Assign):
            targets, value = st.targets, st.value
        else:
            continue
        for tg in targets:
            if isinstance(tg, ast.Name):
                aliases[tg.id] = value
            if _is_self_attr(tg, "_queue"):
                if not (isinstance(value, ast.Call) and isinstance(value.func, ast.Name) and value.func.id == "deque" and not value.args
                        and len(value.keywords) == 1 and value.keywords[0].arg == "maxlen"):
                    raise Untranslatable(f"QMI_SignalReceiver.__init__ line {st.lineno}: the queue is not `deque(maxlen=…)`: {u(st)[:100]}")
                if maxlen_expr is not None:
                    raise Untranslatable("QMI_SignalReceiver.__init__ creates the queue twice")
                maxlen_expr = value.keywords[0].value
            if _is_self_attr(tg, "_max_queue_length"):
                if cap_expr is not None:
                    raise Untranslatable("QMI_SignalReceiver.__init__ sets _max_queue_length twice")
                cap_expr = value
            if _is_self_attr(tg, "_queue_cond"):
                have_cond = u(value) == "threading.Condition()"
            if _is_self_attr(tg, "_receiver_seqnr"):
                have_counter = u(value) in ("0", "itertools.count()")
    if maxlen_expr is None or cap_expr is None:
        raise Untranslatable("QMI_SignalReceiver.__init__ does not create `self._queue = deque(maxlen=…)` and `self._max_queue_length`")
    if not have_cond:
        raise Untranslatable("QMI_SignalReceiver.__init__ no longer contains `self._queue_cond = threading.Condition()`")
    if not have_counter:
        raise Untranslatable("QMI_SignalReceiver.__init__: the sequence counter is initialised in an unknown way")

    def resolve(e, depth=0):
        while isinstance(e, ast.Name) and e.id in aliases and depth < 4:
            e, depth = aliases[e.id], depth + 1
        return e
    a, b = resolve(maxlen_expr), resolve(cap_expr)
    tied = ast.dump(a) == ast.dump(b)
    # nobody else may re-bind either of them
    others = 0
    for node in pub.body:
        if isinstance(node, ast.ClassDef) and node.name == cls:
            for m in node.body:
                if isinstance(m, ast.FunctionDef) and m.name != "__init__":
                    for st in ast.walk(m):
                        tgs = st.targets if isinstance(st, ast.Assign) else ([st.target] if isinstance(st, (ast.AugAssign, ast.AnnAssign)) else [])
                        others += sum(1 for tg in tgs if _is_self_attr(tg, "_max_queue_length"))
    return {"tied": tied and others == 0, "maxlen": u(maxlen_expr), "compared": u(cap_expr), "rebinds_elsewhere": others}


def build(repo: Path) -> dict:
    pub = ast.parse((repo / "qmi" / "core" / "pubsub.py").read_text())
    tsk = ast.parse((repo / "qmi" / "core" / "task.py").read_text())
    cls = "QMI_SignalReceiver"
    out = {
        "recv": compile_receive(_find_class_func(pub, cls, "_receive_signal")),
        "get": compile_get(_find_class_func(pub, cls, "get_next_signal")),
        "discard": compile_discard(_find_class_func(pub, cls, "discard_all")),
        "len": compile_len(_find_class_func(pub, cls, "get_queue_length")),
        "ready": compile_ready(_find_class_func(pub, cls, "has_signal_ready")),
        "plainWait": compile_dispatch(_find_func(pub, "_wait_for_condition")),
        "taskWait": compile_task_wait(_find_class_func(tsk, "_TaskThread", "wait_for_condition")),
    }
    out["_cap"] = analyse_constructor(pub, cls)
    return out


def render(progs: dict) -> str:
    L = ["import QmiModel.Model.RecvConc",
         "/-!",
         "# GENERATED by harness/tr_recvprog.py — do not edit",
         "",
         "Statement lists of `QMI_SignalReceiver._receive_signal / get_next_signal / discard_all / get_queue_length /",
         "has_signal_ready`, of `_wait_for_condition` (qmi/core/pubsub.py) and of `_TaskThread.wait_for_condition`",
         "(qmi/core/task.py), read from their ASTs.  A `with self._queue_cond:` block is `acquire … release`.",
         "-/",
         "namespace QmiModel.Gen.RecvProg",
         "open QmiModel.RecvConc", ""]
    ty = {"recv": "RI", "get": "GI", "discard": "DI", "len": "LI", "ready": "LI", "plainWait": "WI", "taskWait": "WI"}
    for name in ("recv", "get", "discard", "len", "ready", "plainWait", "taskWait"):
        em = progs[name]
        L.append(f"/-- `{em.fname}` -/")
        L.append(f"def {name} : List {ty[name]} := [")
        for k, (ins, src, ln) in enumerate(em.code):
            comma = "," if k + 1 < len(em.code) else ""
            safe = src.replace("-/", "- /").replace("/-", "/ -")
            L.append(f"  /- {k} -/ {ins}{comma}  -- {ln}: {safe}")
        L.append("]")
        L.append("")
    L.append("/-- calls out of the receiver code (logging) found in the compiled functions: (function, index of the next")
    L.append("statement, lock held) -/")
    items = []
    for name in ("recv", "get", "discard", "len", "ready", "plainWait", "taskWait"):
        for (idx, locked, ln, src) in progs[name].callouts:
            items.append(f"  ⟨.{name}, {idx}, {'true' if locked else 'false'}⟩  -- {ln}: " + src.replace("-/", "- /").replace("/-", "/ -"))
    L.append("def callouts : List CallOut := [")
    for k, it in enumerate(items):
        head, _, cm = it.partition("  -- ")
        L.append(head + ("," if k + 1 < len(items) else "") + "  -- " + cm)
    L.append("]")
    L.append("")
    cap = progs.get("_cap")
    if cap is not None:
        L.append("/-- the bound of the deque and the value the full-queue test compares with are the same expression of the")
        L.append("constructor (and nothing re-binds it):")
        safe = lambda x: x[:90].replace("-/", "- /").replace("/-", "/ -")  # noqa
        L.append(f"  deque(maxlen = {safe(cap['maxlen'])}),  self._max_queue_length = {safe(cap['compared'])} -/")
        L.append(f"def capTied : Bool := {'true' if cap['tied'] else 'false'}")
        L.append("")
    L.append("def progs : Progs :=")
    L.append("  { recv := recv, get := get, discard := discard, len := len, ready := ready, plainWait := plainWait, taskWait := taskWait }")
    L.append("")
    L.append("end QmiModel.Gen.RecvProg")
    return "\n".join(L) + "\n"


REFERENCE = {
    "recv": [".acquire", ".mkSig", ".incSeq", ".dropIfFullNew", ".append", ".notifyAll", ".release"],
    "get": [".acquire", ".skipIfNonEmpty 1", ".wait", ".pop", ".release"],
    "discard": [".acquire", ".clear", ".release"],
    "len": [".acquire", ".readLen", ".release"],
    "ready": [".acquire", ".readLen", ".release"],
    "plainWait": [".waitFor false", ".retRet"],
    "taskWait": [".waitFor true", ".raiseIfStop", ".retRet"],
}
_FNAMES = {"recv": "_receive_signal", "get": "get_next_signal", "discard": "discard_all", "len": "get_queue_length",
           "ready": "has_signal_ready", "plainWait": "_wait_for_condition", "taskWait": "wait_for_condition"}


def render_reference(why: str) -> str:
    """What is written when the source could not be translated: the reference programs (`RecvConc.P0`), so that the model
    driver does not run a stale file from an earlier run; the failed translation itself is reported as a broken link."""
    progs = {}
    for k, code in REFERENCE.items():
        em = _Emit(_FNAMES[k])
        em.code = [(ins, "(reference program: the source could not be translated)", 0) for ins in code]
        progs[k] = em
    progs["_cap"] = {"tied": True, "maxlen": "(reference)", "compared": "(reference)"}
    first = why.replace("-/", "- /").replace("/-", "/ -").splitlines()[0][:160]
    return render(progs).replace("# GENERATED by harness/tr_recvprog.py — do not edit",
                                 "# GENERATED by harness/tr_recvprog.py — do not edit\n\nTRANSLATION FAILED (" + first + "): reference programs written instead.")


def signature(progs: dict) -> dict:
    """plain-data view of the programs (for the harness / evidence)"""
    out = {k: [ins for (ins, _, _) in em.code] for k, em in progs.items() if not k.startswith("_")}
    out["_callouts"] = [(k, idx, locked, ln) for k, em in progs.items() if not k.startswith("_") for (idx, locked, ln, _) in em.callouts]
    if "_cap" in progs:
        out["_cap"] = progs["_cap"]
    return out
